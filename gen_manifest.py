#!/usr/bin/env python3
"""Writes MANIFEST.json from the table below (kept in one place so that it is always schema-valid)."""
import json, os
HERE = os.path.dirname(os.path.abspath(__file__))
props = [json.loads(l) for l in open(os.path.join(HERE, 'properties.jsonl'))]

CLAIMED = {
    'C11': dict(design='5 (C11), 2', note='trusted: MIRSE MIR semantics + std models (coverage.std_models_used), grapheme model over Sigma_g, '
                'char::is_whitespace table (all validated against the native build on every run); bounds: code-point mode <= 4 '
                'chars, grapheme mode <= 3 code points (thorough 5/4), all UTF-8 width combinations'),
}
CLAIMED['C10'] = dict(design='5 (C10), 2', note='trusted: MIRSE MIR semantics + std models, grapheme model over Sigma_g, is_whitespace table '
    '(validated natively every run); clean pairs are generated as (symbolic non-whitespace content) x (every single-space placement); '
    'bounds in evidence.coverage.bounds; known finding KF-C10-1 region excluded only while its witness reproduces natively')
CLAIMED['C12'] = dict(design='5 (C12), 2', note='trusted: MIRSE MIR semantics + std models, grapheme model over Sigma_g; oracle = reference '
    'Levenshtein / OSA dynamic programme evaluated on the same symbolic characters; bounds in evidence.coverage.bounds; known finding '
    'KF-C12-1 (normalised distance > 1 under spaces_insert_delete_only) excluded only while its witness reproduces; NaN defect repaired '
    'by fix commit d9c2acd')
CLAIMED['C18'] = dict(design='5 (C18), 2', note='trusted: MIRSE MIR semantics + std models; the word-match relation is a symbolic Boolean '
    'matrix supplied through the real generic entry point match_words_with, plus the real closures of match_words on symbolic ASCII '
    'one-letter words; oracle = reference LCS DP; HashSet iteration order fixed (results compared as sets); bounds in evidence')
CLAIMED['C16'] = dict(design='5 (C16), 2', note='trusted: MIRSE MIR semantics + std models, grapheme model over Sigma_g; (max, context) are '
    'symbolic 64-bit values (below 16 for all bounded texts, unconstrained for texts of <= 1 character); oracle = tiling / containment / '
    'size / slice / byte-offset equations stated independently; overflow defect repaired by a fix commit (known_findings.json)')
CLAIMED['C07'] = dict(design='5 (C07), 2', note='trusted: MIRSE MIR semantics + std models; rand modelled as every stream (weighted draw = any '
    'index with positive weight), reproducibility checked as absence of draws from unseeded generators; sources are in-memory '
    'ExactSizeIterators of every length vector within the bound; termination = step budget + bounded number of next() calls; hang '
    'defect of the interleaved strategy repaired by a fix commit (known_findings.json)')
CLAIMED['C06'] = dict(design='5 (C06), 2', note='trusted: MIRSE MIR semantics + std models; items are harness values whose ItemSize::size is '
    'a symbolic field; rand = every stream (random_range draw = solver variable, shuffle = forked permutation), determinism checked as '
    'absence of unseeded draws; limits/prefetch symbolic (small regime) or extreme 64-bit values (wide regime); termination = bounded '
    'next() calls + step budget; multiplication overflow repaired by a fix commit (known_findings.json). The Kani second opinion '
    'planned in DESIGN.md is not built')
CLAIMED['C15'] = dict(design='5 (C15), 2', note='trusted: MIRSE MIR semantics + std models; real InsertEdits/ReplaceEdits providers with tables '
    'keyed by the word\'s own contexts, can_delete/can_swap arbitrary Boolean answers, rand = every stream; oracle = set of all results one '
    'legal edit may produce; HashSet order fixed (results compared as sets); underflow defect repaired by a fix commit')
CLAIMED['C14'] = dict(design='5 (C14), 2', note='trusted: MIRSE MIR semantics + std models, grapheme model over Sigma_g; the corruption closure is '
    'obtained and called through the real preprocessing(WhitespaceCorruption(..)) path; rand = every stream, determinism = all draws come from '
    'a generator seeded with info.seed; label consistency checked with the real operations()/repair(); known finding KF-C14-1 (cluster '
    'boundaries change in grapheme mode) excluded only while its witness reproduces; the whitespace-correction task function train_task(WhitespaceCorrection(..)) is interpreted with character / byte tokenizers built by the real constructors')
CLAIMED['C13'] = dict(design='5 (C13), 2', note='trusted: MIRSE MIR semantics + std models; rayon = sequential map, NFKC = identity on ASCII, HashSet '
    'order fixed (only counts are used); IEEE-754 queries on the F-beta value (equal to the defining formula up to 1e-9, range, calibration) are decided by cvc5 (beta symbolic: every f32 value in (0,8] '
    'in the quick tier, every f64 in thorough); private functions are replayed natively through the `verif` hook feature; known finding '
    'KF-C13-1 (deleted whole words counted as false positives) excluded only while its witness reproduces; two defects repaired by fix commits')
CLAIMED['C04'] = dict(design='5 (C04), 2', note='trusted: MIRSE MIR semantics + std models, regex model (literal alternation); tokenizers are built '
    'by interpreting the real constructors (ByteTokenizer::new, CharTokenizer::new, BPETokenizer::new with the msgpack load stubbed by an '
    'in-memory table, and new_vocab_tokenizer over symbolic vocabulary characters); queried id symbolic u32, queried token from a representative subset; HashMap order fixed; BPE id_to_token defect '
    'repaired by a fix commit')
CLAIMED['C01'] = dict(design='5 (C01), 2', note='trusted: MIRSE MIR semantics + std models, regex model (leftmost-first literal alternation, diff-tested), '
    'grapheme model over Sigma_g; tokenizers built by interpreting the real constructors on a grid of concrete configurations; texts are '
    'symbolic characters and templates that contain / nearly contain special-token spellings; HashMap order fixed; decoding with special '
    'tokens kept is compared with prefix spellings + text + suffix spellings')
CLAIMED['C03'] = dict(design='5 (C03), 2', note='trusted: MIRSE MIR semantics + std models (BinaryHeap by its ordering contract), regex model of the word '
    'pattern; tokenizer built by the real BPETokenizer::new with the msgpack load stubbed by an in-memory table; tables are a fixed family of 13 '
    'well-formed tables (chains, competing / overlapping merges), texts symbolic; oracle = reference greedy BPE on the same symbolic bytes; '
    'multi-level-merge defect repaired by fix commit f33abb5')
CLAIMED['C02'] = dict(design='5 (C02), 2', note='same encoding as C03 plus max_vocab_size truncation and prefix/suffix configs; oracle: decode(encode(s)) == s '
    'minus trailing whitespace, ids < vocab_size, decoding succeeds (valid UTF-8); vector reads with symbolic ids are if-then-else terms over '
    'the feasible entries')
BMC_TEXT = ('bounded model checking of the thread protocol: the per-thread transition relation is generated from the MIR control-flow graph of the '
            'worker closures, unrolled with a symbolic scheduler and decided by z3 (QF_BV) for every interleaving within the step bound; '
            'counterexample schedules are replayed against the real threads through per-item processing delays / drop points before being reported')
CLAIMED['C05'] = dict(design='3, 5 (C05)', engine='MIRBMC', text=BMC_TEXT, technique='solver-based bounded model checking (z3) of a transition system generated from rustc MIR',
    note='trusted: fixed semantics of Mutex / SyncSender / Receiver / SeqCst atomics / closure-environment drop, fusion of thread-local operations, '
    'structural premises read from Pipe::new (capacity = thread count, counter starts at 0); bounds W <= 2, n <= 3 (thorough W <= 3); the unthreaded branch (num_threads = 0) is interpreted by MIRSE (harnesses/c05seq.py); Iterator::for_each closures are inlined as loops; consumer receive kind / timeout constant / spawn range / channel kind read from the MIR')
CLAIMED['C09'] = dict(design='3, 5 (C09)', engine='MIRBMC', text=BMC_TEXT, technique='solver-based bounded model checking (z3) of a transition system generated from rustc MIR',
    note='same trusted base as C05 plus: panic hook facts (installed before the first spawn, body calls process::exit) read from the MIR of Pipe::new; '
    'consumer idle / drop at any step; Drop impls of Pipe / Buffered read from the MIR (a Drop that joins waits for the workers); laziness of the unthreaded branch by MIRSE; upstream effectively unbounded; Buffered producer defect repaired by a fix commit')
CLAIMED['C17'] = dict(design='5 (C17), 2', note='trusted: MIRSE MIR semantics + std models, ndarray modelled as (shape, row-major data); groups come from the real byte '
    'tokenizer on symbolic texts; sparse matrices from every batch composition over a pool of real tokenizations; padding / tensorisation on '
    'symbolic ids, labels and pad ids; native replay through the `verif` hook views of SparseCoo / tensorised batches')
CLAIMED['C20'] = dict(design='5 (C20), 2', note='trusted: MIRSE MIR semantics + std models; environment models: in-memory files, thread::spawn + sync_channel '
    'sequentialised (threads run to completion when the reducer blocks, message order arbitrary), Mutex sequential, progress bar stubbed, word-part '
    'and punctuation regexes and NFKC modelled on ASCII; corpora of symbolic words over {a, b}; max_size=None defect repaired by a fix commit')
CLAIMED['C19'] = dict(design='5 (C19), 2', note='trusted: MIRSE MIR semantics + std models; environment as in C20 (in-memory files, counting threads '
    'sequentialised with arbitrary message order, progress bar / panic hook stubbed, merge table captured at SerializeMsgPack::save); hash iteration in '
    'insertion order except that max_by_key over the statistics table may return any of the tied maximal pairs; oracle = independent recount of '
    'adjacent-pair frequencies after every merge; exhausted-corpus defect repaired by fix commit a0cb480')
CLAIMED['C08'] = dict(design='5 (C08), 2', note='trusted: MIRSE MIR semantics + std adaptor models (enumerate / take / skip / step_by / filter_map); sources are in-memory '
    'generators that log the global pull order; PipelineIterator::pipe, BufferedIterator::buffered and tensorized() are replaced by their specifications '
    '(order-preserving map / identity / opaque pairing); the Pipe premise is discharged inside this check by the MIRBMC queries of C05 (W = 2, n <= 2) and the '
    'unthreaded MIRSE sub-harness, Buffered / tensorisation by the C09 / C17 checks; every hash iteration order is explored; the native cross-check runs the real loader (verif hook c1c1cee) with 0 and 3 workers and buffer sizes 1 and 4 and random '
    'whitespace corruption to expose the per-item seeds; skip-offset overflow repaired by fix commit 18db6b9')
NOT_YET = 'check not built yet in this session (work in progress, see DESIGN.md section 6 for the order)'
NA = {}

checks = []
na = []
for p in props:
    pid = p['id']
    if pid in CLAIMED:
        c = CLAIMED[pid]
        checks.append({
            'property_id': pid,
            'quick_cmd': './check %s --tier quick' % pid,
            'thorough_cmd': './check %s --tier thorough' % pid,
            'evidence_file': 'evidence/%s.json' % pid,
            'replay_cmd_template': './check %s --replay {path}' % pid,
            'engine': c.get('engine', 'MIRSE'),
            'level_claimed': {'category': 'model_checking',
                              'text': c.get('text', 'bounded symbolic execution of the crate\'s MIR: every feasible path through the '
                                      'encoded functions for all inputs inside the stated bound is enumerated with z3 deciding '
                                      'branch feasibility and the negated property; counterexamples are replayed against the '
                                      'natively compiled crate (dev and release) before being reported'),
                              'design_ref': 'DESIGN.md section ' + c['design']},
            'level_note': c['note'],
            'technique': c.get('technique', 'solver-based bounded checking: symbolic execution of rustc MIR with z3 (cvc5 for IEEE-754 queries) (MIRSE)'),
        })
    else:
        na.append({'property_id': pid, 'reason': NA.get(pid, NOT_YET)})

m = {
    'version': 1,
    'setup_cmd': './setup.sh',
    'hooks': {'guard': 'cargo feature `verif` of text-utils', 'enable': 'cargo build --features text-utils/verif (replay binary); MIR dump uses the unhooked code paths',
              'baseline_off_cmd': 'cd /repo && cargo test --workspace --no-fail-fast --offline',
              'source_commits': ['0908cb9', 'd5d76f6', 'c1c1cee'], 'add_only': True},
    'engines': [
        {'name': 'MIRBMC', 'path': 'mirse/mirbmc.py', 'serves_properties': ['C05', 'C09'],
         'kind_free_text': 'bounded model checker for the thread protocols: transition relation generated from the MIR CFG of the worker closures, z3 QF_BV'},
        {'name': 'MIRSE', 'path': 'mirse/', 'serves_properties': sorted(k for k in CLAIMED if CLAIMED[k].get('engine', 'MIRSE') == 'MIRSE'),
         'kind_free_text': 'path-wise symbolic executor for rustc MIR (-Zunpretty=mir dump regenerated from /repo on every run), python + z3, '
                           'semantic std models, native replay binary for counterexample confirmation and translator validation'},
    ],
    'checks': checks,
    'not_applicable': na,
    'notes': 'exit 0 = holds within bounds (KNOWN-FINDING lines for entries of known_findings.json), 1 = VIOLATION reproduced natively, '
             '2 = inconclusive (unsupported construct / solver unknown / non-reproducing model / quick-tier budget) - never reported as success or as alarm; '
             'the thorough tier is an anytime exploration (quick shapes first, then deeper ones until its budget is used; coverage.budget says how far it got)',
}
json.dump(m, open(os.path.join(HERE, 'MANIFEST.json'), 'w'), indent=1)
print('MANIFEST.json: %d checks, %d not_applicable' % (len(checks), len(na)))
