#!/bin/bash
# usage: run_seeded_wt.sh <patch> <PROPERTY> [tier]
# like run_seeded.sh but on a scratch worktree of /repo (so /repo itself stays untouched and other checks can run
# concurrently); evidence of the run goes to a scratch directory
patch=$(readlink -f "$1"); prop=$2; tier=${3:-quick}
wt=${VERIF_SEED_WT:-/var/tmp/verif-scratch/seed-wt}
cd "$(dirname "$0")"
# one run per scratch worktree at a time (two runs sharing it would mix their trees)
mkdir -p "$(dirname "$wt")"
exec 9> "$wt.lock"
flock 9
if [ ! -d "$wt" ]; then git -C /repo worktree add -q --detach "$wt" HEAD || exit 9; fi
git -C "$wt" checkout -q --detach "$(git -C /repo rev-parse HEAD)" && git -C "$wt" checkout -q -- . || exit 9
cp /repo/Cargo.lock "$wt"/Cargo.lock 2>/dev/null
git -C "$wt" apply "$patch" || { echo "patch does not apply"; exit 9; }
VERIF_REPO="$wt" VERIF_EVIDENCE_DIR=/var/tmp/verif-scratch/seed-evidence ./check $prop --tier $tier 2>&1 | grep -v "^KNOWN-FINDING\|^WARNING" | cut -c1-400 | tail -4
rc=${PIPESTATUS[0]}
git -C "$wt" checkout -q -- .
echo "exit=$rc"
