use crate::ops::cps;
use serde_json::{json, Value};
use std::collections::HashMap;
use text_utils::tokenization::{
    BPETokenizer, BPETokenizerConfig, ByteGroups, ByteTokenizer, ByteTokenizerConfig, CharTokenizer, CharTokenizerConfig,
    GroupAggregation, SpecialConfig, Tokenize, TokenizationInfo, TokenGroup,
};
use text_utils::utils::SerializeMsgPack;

fn strs(v: &Value) -> Vec<String> {
    v.as_array().unwrap().iter().map(|x| x.as_str().unwrap().to_string()).collect()
}

pub fn build(shape: &Value) -> Result<Box<dyn Tokenize>, String> {
    let special = SpecialConfig {
        pad: shape["pad"].as_str().ok_or("pad")?.to_string(),
        tokens: strs(&shape["tokens"]),
        prefix: strs(&shape["prefix"]),
        suffix: strs(&shape["suffix"]),
    };
    let g = shape["g"].as_bool().unwrap_or(false);
    match shape["kind"].as_str().ok_or("kind")? {
        "byte" => {
            let cfg = ByteTokenizerConfig {
                use_graphemes: g,
                pad_to_multiple_of: shape["pad_to"].as_u64().map(|x| x as usize),
                groups: if shape["groups"].as_str() == Some("CodePoints") { ByteGroups::CodePoints } else { ByteGroups::Bytes },
                aggregation: if shape["agg"].as_str() == Some("Sum") { GroupAggregation::Sum } else { GroupAggregation::Mean },
            };
            Ok(Box::new(ByteTokenizer::new(cfg, special).map_err(|e| e.to_string())?))
        }
        "char" => {
            let cfg = CharTokenizerConfig { use_graphemes: g, unk_token: "<unk>".to_string() };
            if let Some(voc) = shape.get("vocab").and_then(|v| v.as_array()) {
                // caller-supplied vocabulary (code points)
                let tokens: Vec<char> = voc.iter().filter_map(|c| c.as_u64().and_then(|c| char::from_u32(c as u32))).collect();
                return Ok(Box::new(
                    CharTokenizer::new_vocab_tokenizer(tokens, "<unk>".to_string(), special, cfg).map_err(|e| e.to_string())?,
                ));
            }
            Ok(Box::new(CharTokenizer::new(cfg, special).map_err(|e| e.to_string())?))
        }
        _ => {
            let mut merges: HashMap<Vec<u8>, u32> = HashMap::new();
            for e in shape["merges"].as_array().ok_or("merges")? {
                let k: Vec<u8> = e[0].as_array().unwrap().iter().map(|b| b.as_u64().unwrap() as u8).collect();
                merges.insert(k, e[1].as_u64().unwrap() as u32);
            }
            let dir = std::env::var("VERIF_SCRATCH").unwrap_or("/var/tmp/verif-scratch".to_string());
            let path = std::path::PathBuf::from(dir).join(format!("merges-{}.bin", std::process::id()));
            merges.save(&path).map_err(|e| e.to_string())?;
            let cfg = BPETokenizerConfig {
                merge_file: path.clone(),
                max_vocab_size: shape["max_vocab_size"].as_u64().map(|x| x as usize),
                use_graphemes: g,
            };
            let t = BPETokenizer::new(cfg, special).map_err(|e| e.to_string());
            let _ = std::fs::remove_file(&path);
            Ok(Box::new(t?))
        }
    }
}

fn group_json(g: &TokenGroup) -> Value {
    match g {
        TokenGroup::Empty(n) => json!({"Empty": n}),
        TokenGroup::Full(n) => json!({"Full": n}),
        TokenGroup::Nested(gs) => json!({"Nested": gs.iter().map(group_json).collect::<Vec<_>>()}),
    }
}

pub fn dispatch(op: &str, req: &Value) -> Result<Value, String> {
    match op {
        "vocab_query" => {
            let tok = build(&req["shape"])?;
            let token: String = req["token"].as_array().ok_or("token")?.iter().map(|c| char::from_u32(c.as_u64().unwrap() as u32).unwrap()).collect();
            let id = req["id"].as_u64().ok_or("id")? as u32;
            let vocab = tok.get_vocab().map_err(|e| e.to_string())?;
            let t2i = tok.token_to_id(&token);
            let single = match t2i { Some(i) => match tok.de_tokenize(&[i], true) { Ok(s) => json!({"Ok": cps(&s)}), Err(_) => json!({"Err": true}) }, None => json!(null) };
            Ok(json!({
                "vocab_size": tok.vocab_size(), "vocab": vocab, "id_to_token": tok.id_to_token(id), "token_to_id": t2i,
                "pad": tok.pad_token_id(), "prefix": tok.prefix_token_ids(), "suffix": tok.suffix_token_ids(),
                "decode_single": single,
            }))
        }
        "tokenize_roundtrip" => {
            let tok = build(&req["shape"])?;
            let text: String = req["text"].as_array().ok_or("text")?.iter().map(|c| char::from_u32(c.as_u64().unwrap() as u32).unwrap()).collect();
            let ign = req["ign"].as_bool().ok_or("ign")?;
            let t = tok.tokenize(&text, ign).map_err(|e| e.to_string())?;
            let dec_ign = req.get("dec_ign").and_then(|v| v.as_bool()).unwrap_or(false);
            let dec = match tok.de_tokenize(&t.token_ids, dec_ign) { Ok(s) => json!({"Ok": cps(&s)}), Err(_) => json!({"Err": true}) };
            let groups = match &t.info {
                TokenizationInfo::TokenGroups(m) => {
                    let mut o = serde_json::Map::new();
                    for (k, (gs, agg)) in m {
                        o.insert(k.clone(), json!({"groups": gs.iter().map(group_json).collect::<Vec<_>>(),
                            "agg": if *agg == GroupAggregation::Mean { "Mean" } else { "Sum" }}));
                    }
                    Value::Object(o)
                }
                _ => json!(null),
            };
            Ok(json!({"ids": t.token_ids, "decoded": dec, "groups": groups}))
        }
        _ => crate::ops12::dispatch(op, req),
    }
}
