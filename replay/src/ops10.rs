use crate::ops::{b, s};
use serde_json::{json, Value};
use text_utils::metrics;

fn strs(req: &Value, k: &str) -> Result<Vec<String>, String> {
    let arr = req.get(k).and_then(|v| v.as_array()).ok_or(format!("missing {k}"))?;
    Ok(arr.iter().map(|a| a.as_array().unwrap().iter().map(|c| char::from_u32(c.as_u64().unwrap() as u32).unwrap()).collect()).collect())
}

fn bools(req: &Value, k: &str) -> Result<Vec<bool>, String> {
    Ok(req.get(k).and_then(|v| v.as_array()).ok_or(format!("missing {k}"))?.iter().map(|x| x.as_bool().unwrap()).collect())
}

pub fn dispatch(op: &str, req: &Value) -> Result<Value, String> {
    match op {
        #[cfg(feature = "verif")]
        "metric_f1" => {
            let (f1, p, r) = text_utils::verif_hooks::f1(req["tp"].as_u64().unwrap() as usize, req["fp"].as_u64().unwrap() as usize,
                req["fn"].as_u64().unwrap() as usize, req["beta"].as_f64().ok_or("beta")?);
            Ok(json!([f1, p, r]))
        }
        #[cfg(feature = "verif")]
        "metric_spell_counts" => {
            let cl = |k: &str| -> Result<String, String> { Ok(text_utils::text::clean(&s(req, k)?, true)) };
            let (e, tp, fp, fn_) = text_utils::verif_hooks::spelling_counts(&cl("i")?, &cl("p")?, &cl("t")?, b(req, "g")?);
            Ok(json!([tp, fp, fn_, e]))
        }
        #[cfg(feature = "verif")]
        "metric_ws_counts" => {
            let cl = |k: &str| -> Result<String, String> { Ok(text_utils::text::clean(&s(req, k)?, true)) };
            let mode = match req["mode"].as_str().ok_or("mode")? {
                "Insertions" => metrics::WhitespaceCorrectionMode::Insertions,
                "Deletions" => metrics::WhitespaceCorrectionMode::Deletions,
                _ => metrics::WhitespaceCorrectionMode::InsertionsAndDeletions,
            };
            Ok(match text_utils::verif_hooks::whitespace_counts(&cl("i")?, &cl("p")?, &cl("t")?, &mode, b(req, "g")?) {
                Ok((e, tp, fp, fn_)) => json!([tp, fp, fn_, e]),
                Err(_) => json!("Err"),
            })
        }
        "metric_binary" => {
            let (p, t) = (bools(req, "p")?, bools(req, "t")?);
            let f1 = match metrics::binary_f1(&p, &t, req["beta"].as_f64().ok_or("beta")?) {
                Ok((a, bb, c)) => json!({"Ok": [a, bb, c]}),
                Err(_) => json!({"Err": true}),
            };
            let pi: Vec<usize> = p.iter().map(|x| *x as usize).collect();
            let ti: Vec<usize> = t.iter().map(|x| *x as usize).collect();
            let acc = match metrics::accuracy(&pi, &ti) {
                Ok(a) => json!({"Ok": a}),
                Err(_) => json!({"Err": true}),
            };
            Ok(json!({"f1": f1, "acc": acc}))
        }
        "metric_spell_f1" => {
            Ok(match metrics::spelling_correction_f1(&strs(req, "i")?, &strs(req, "p")?, &strs(req, "t")?,
                req["beta"].as_f64().ok_or("beta")?, b(req, "seq")?, b(req, "g")?) {
                Ok(((f1, p, r), _)) => json!({"Ok": [f1, p, r]}),
                Err(_) => json!({"Err": true}),
            })
        }
        "metric_med" => {
            let (a, bb) = (strs(req, "a")?, strs(req, "b")?);
            let g = b(req, "g")?;
            let f = |r: anyhow::Result<f64>| match r { Ok(v) => json!({"Ok": v}), Err(_) => json!({"Err": true}) };
            Ok(json!({"med": f(metrics::mean_edit_distance(&a, &bb, g)), "mned": f(metrics::mean_normalized_edit_distance(&a, &bb, g))}))
        }
        _ => crate::ops11::dispatch(op, req),
    }
}
