use serde_json::{json, Value};
use text_utils::dictionary::{Dictionary, DictionaryDistanceMeasure};

pub fn dispatch(op: &str, req: &Value) -> Result<Value, String> {
    match op {
        "dictionary" => {
            let dir = std::path::PathBuf::from(std::env::var("VERIF_SCRATCH").unwrap_or("/var/tmp/verif-scratch".to_string()))
                .join(format!("dict-{}", std::process::id()));
            std::fs::create_dir_all(&dir).map_err(|e| e.to_string())?;
            let mut paths = vec![];
            for (i, f) in req["files"].as_array().ok_or("files")?.iter().enumerate() {
                let p = dir.join(format!("f{i}.txt"));
                let mut content = String::new();
                for l in f.as_array().unwrap() {
                    content.push_str(l.as_str().unwrap());
                    content.push('\n');
                }
                std::fs::write(&p, content).map_err(|e| e.to_string())?;
                paths.push(p);
            }
            let ms = req["max_size"].as_u64().map(|x| x as usize);
            let mq = req["max_seq"].as_u64().map(|x| x as usize);
            let res = std::panic::catch_unwind(std::panic::AssertUnwindSafe(|| {
                Dictionary::create(&paths, ms, mq, req["threads"].as_u64().unwrap_or(0) as u8, req["chars"].as_bool().unwrap_or(false),
                    req["grams"].as_u64().unwrap_or(1) as u8, false)
            }));
            let d = match res {
                Ok(Ok(d)) => d,
                Ok(Err(e)) => { let _ = std::fs::remove_dir_all(&dir); return Err(e.to_string()); }
                Err(p) => { let _ = std::fs::remove_dir_all(&dir); std::panic::resume_unwind(p); }
            };
            let mut items: Vec<(String, usize)> = d.items().map(|(k, v)| (k.clone(), *v)).collect();
            items.sort();
            let out = dir.join("dict.txt");
            d.save(&out).map_err(|e| e.to_string())?;
            let d2 = Dictionary::load(&out).map_err(|e| e.to_string())?;
            let mut items2: Vec<(String, usize)> = d2.items().map(|(k, v)| (k.clone(), *v)).collect();
            items2.sort();
            let closest = req["query"].as_str().and_then(|q| d.get_closest(q, if req["normalized"].as_bool().unwrap_or(false) { DictionaryDistanceMeasure::NormalizedEditDistance } else { DictionaryDistanceMeasure::EditDistance })).map(|(t, f, _)| json!([t, f]));
            let _ = std::fs::remove_dir_all(&dir);
            Ok(json!({"items": items, "freq_sum": d.freq_sum, "roundtrip": items == items2 && d.freq_sum == d2.freq_sum, "closest": closest}))
        }
        _ => crate::ops15::dispatch(op, req),
    }
}
