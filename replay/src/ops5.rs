use crate::ops::{b, cps, s};
use serde_json::{json, Value};
use text_utils::{text, windows};

fn big(req: &Value, k: &str) -> Result<usize, String> {
    // 64-bit values travel as decimal strings
    req.get(k).and_then(|v| v.as_str()).ok_or(format!("missing {k}"))?.parse::<usize>().map_err(|e| e.to_string())
}

pub fn dispatch(op: &str, req: &Value) -> Result<Value, String> {
    match op {
        "windows" => {
            let st = s(req, "s")?;
            let kind = req.get("kind").and_then(|v| v.as_str()).ok_or("missing kind")?;
            let (mx, cx, g) = (big(req, "max")?, big(req, "ctx")?, b(req, "g")?);
            let r = if b(req, "dispatch")? {
                let cfg = match kind {
                    "char" => windows::WindowConfig::Character(mx, cx, g),
                    "byte" => windows::WindowConfig::Bytes(mx, cx, g),
                    _ => windows::WindowConfig::Full(g),
                };
                windows::windows(&st, &cfg)
            } else if kind == "char" {
                windows::char(&st, mx, cx, g)
            } else {
                windows::byte(&st, mx, cx, g)
            };
            Ok(match r {
                Ok(ws) => json!({"Ok": ws.iter().map(|w| {
                    let (cs_, ws_, we_, ce_) = w.boundaries();
                    let (bcs, bws, bwe, bce) = w.byte_boundaries();
                    json!({"ctx_start": cs_, "window_start": ws_, "window_end": we_, "ctx_end": ce_,
                           "byte_ctx_start": bcs, "byte_window_start": bws, "byte_window_end": bwe, "byte_ctx_end": bce,
                           "str": cps(w.str)})
                }).collect::<Vec<_>>()}),
                Err(_) => json!({"Err": true}),
            })
        }
        "possible_character_substrings" => Ok(json!(text::possible_character_substrings(&s(req, "s")?, big(req, "max")?, b(req, "g")?))),
        "possible_byte_substrings" => Ok(json!(text::possible_byte_substrings(&s(req, "s")?, big(req, "max")?, b(req, "g")?))),
        _ => crate::ops6::dispatch(op, req),
    }
}
