use crate::ops::{b, cps, s};
use rand::SeedableRng;
use rand_chacha::ChaCha8Rng;
use serde_json::{json, Value};
use std::borrow::Cow;
use std::cell::Cell;
use std::collections::{HashMap, HashSet};
use text_utils::corrupt::{edit_word, DeleteEdits, InsertEdits, ReplaceEdits, SwapEdits};

fn st(v: &Value) -> String {
    v.as_array().unwrap().iter().map(|c| char::from_u32(c.as_u64().unwrap() as u32).unwrap()).collect()
}

fn edits_of(e: &Value) -> (Vec<String>, Vec<f64>) {
    (
        e["edits"].as_array().unwrap().iter().map(st).collect(),
        e["weights"].as_array().unwrap().iter().map(|w| w.as_f64().unwrap()).collect(),
    )
}

pub fn dispatch(op: &str, req: &Value) -> Result<Value, String> {
    match op {
        "edit_word_chain" => {
            let kinds: Vec<&str> = req["kinds"].as_array().ok_or("kinds")?.iter().map(|k| k.as_str().unwrap()).collect();
            let mut insertions = HashMap::new();
            for e in req["ins"].as_array().ok_or("ins")? {
                insertions.insert((Cow::Owned(st(&e["prev"])), Cow::Owned(st(&e["cur"]))), edits_of(e));
            }
            let mut replacements = HashMap::new();
            for e in req["rep"].as_array().ok_or("rep")? {
                replacements.insert(
                    (Cow::Owned(st(&e["prev"])), Cow::Owned(st(&e["cur"])), Cow::Owned(st(&e["next"]))),
                    edits_of(e),
                );
            }
            let insert = InsertEdits { insertions };
            let replace = ReplaceEdits { replacements };
            let preds: Vec<bool> = req["preds"].as_array().ok_or("preds")?.iter().map(|p| p.as_bool().unwrap()).collect();
            let cnt = Cell::new(0usize);
            let answer = || {
                let k = cnt.get();
                cnt.set(k + 1);
                preds.get(k).copied().unwrap_or(false)
            };
            let delete = DeleteEdits { full_delete: b(req, "full_delete")?, can_delete: |_s: &str| answer() };
            let swap = SwapEdits { can_swap: |_a: &str, _b: &str| answer() };
            let seed: u64 = req["seed"].as_str().ok_or("seed")?.parse().map_err(|_| "seed")?;
            let mut rng = ChaCha8Rng::seed_from_u64(seed);
            let g = b(req, "g")?;
            let mut word = s(req, "word")?;
            let mut excl: HashSet<usize> = req["excl"].as_array().ok_or("excl")?.iter().map(|e| e.as_u64().unwrap() as usize).collect();
            let mut out = vec![];
            for _ in 0..req["chain"].as_u64().ok_or("chain")? {
                let (nw, ne) = edit_word(
                    &word,
                    g,
                    &mut rng,
                    if kinds.contains(&"insert") { Some(&insert) } else { None },
                    if kinds.contains(&"delete") { Some(&delete) } else { None },
                    if kinds.contains(&"replace") { Some(&replace) } else { None },
                    if kinds.contains(&"swap") { Some(&swap) } else { None },
                    Some(excl.clone()),
                );
                let mut nev: Vec<usize> = ne.iter().copied().collect();
                nev.sort();
                out.push(json!([cps(&nw), nev]));
                word = nw;
                excl = ne;
            }
            Ok(json!(out))
        }
        _ => crate::ops9::dispatch(op, req),
    }
}
