use serde_json::{json, Value};
use std::sync::atomic::{AtomicUsize, Ordering};
use std::sync::{Arc, Mutex};
use std::time::Duration;
use text_utils::data::loading::{BufferedIterator, PipelineIterator};

struct Counting {
    next: usize,
    n: usize,
    pulled: Arc<AtomicUsize>,
    dropped: Arc<AtomicUsize>,
}

impl Drop for Counting {
    fn drop(&mut self) {
        // the upstream is dropped when the last background thread that owns it exits
        self.dropped.store(1, Ordering::SeqCst);
    }
}

impl Iterator for Counting {
    type Item = usize;
    fn next(&mut self) -> Option<usize> {
        if self.next >= self.n {
            return None;
        }
        self.pulled.fetch_add(1, Ordering::SeqCst);
        self.next += 1;
        Some(self.next - 1)
    }
}

fn usizes(v: &Value) -> Vec<u64> {
    v.as_array().map(|a| a.iter().map(|x| x.as_u64().unwrap_or(0)).collect()).unwrap_or_default()
}

pub fn dispatch(op: &str, req: &Value) -> Result<Value, String> {
    match op {
        "pipe_run" | "buffered_run" => {
            let n = req["n"].as_u64().ok_or("n")? as usize;
            let w = req["w"].as_u64().unwrap_or(1) as u8;
            let delays = usizes(&req["delays_ms"]);
            let consume = req["consume"].as_i64().unwrap_or(-1);
            let then = req["then"].as_str().unwrap_or("drain").to_string();
            let settle = req["settle_ms"].as_u64().unwrap_or(300);
            let panic_at = req["panic_at"].as_i64().unwrap_or(-1);
            if req["prior_pipe"].as_bool().unwrap_or(false) {
                // a multi-step history: an earlier threaded pipe was used to the end, after which the application (or
                // another part of the crate) installed its own panic hook
                let first: Vec<usize> = (0..4usize).pipe(Arc::new(|i: usize| i), w.max(1)).collect();
                if first != vec![0, 1, 2, 3] {
                    return Err("prior pipe gave wrong output".to_string());
                }
                std::panic::set_hook(Box::new(|_| {}));
            }
            let pulled = Arc::new(AtomicUsize::new(0));
            let processed = Arc::new(Mutex::new(vec![0usize; n.min(64)]));
            let dropped = Arc::new(AtomicUsize::new(0));
            let src = Counting { next: 0, n, pulled: pulled.clone(), dropped: dropped.clone() };
            let mut outputs: Vec<usize> = vec![];
            let mut ended = false;
            let proc2 = processed.clone();
            let f = Arc::new(move |i: usize| {
                if let Some(d) = delays.get(i) {
                    if *d > 0 {
                        std::thread::sleep(Duration::from_millis(*d));
                    }
                }
                if panic_at >= 0 && i as i64 == panic_at {
                    panic!("processing function panicked (verification replay)");
                }
                if let Ok(mut p) = proc2.lock() {
                    if i < p.len() {
                        p[i] += 1;
                    }
                }
                i
            });
            let mut it: Box<dyn Iterator<Item = usize>> = if op == "pipe_run" {
                Box::new(src.pipe(f, w))
            } else {
                Box::new(src.map(move |i| f(i)).buffered(req["buffer"].as_u64().unwrap_or(1) as usize))
            };
            let mut k = 0i64;
            while consume < 0 || k < consume {
                match it.next() {
                    Some(v) => outputs.push(v),
                    None => {
                        ended = true;
                        break;
                    }
                }
                k += 1;
            }
            let pulled_at_action = pulled.load(Ordering::SeqCst);
            if then == "drop" {
                drop(it);
                std::thread::sleep(Duration::from_millis(settle));
            } else if then == "idle" {
                std::thread::sleep(Duration::from_millis(settle));
                std::mem::forget(it);
            } else {
                drop(it);
            }
            let pulled_end = pulled.load(Ordering::SeqCst);
            let p = processed.lock().map(|p| p.clone()).unwrap_or_default();
            Ok(json!({"outputs": outputs, "ended": ended, "pulled_at_action": pulled_at_action, "pulled_end": pulled_end,
                      "processed": p, "upstream_dropped": dropped.load(Ordering::SeqCst) == 1}))
        }
        _ => crate::ops13::dispatch(op, req),
    }
}
