use crate::ops::{b, s};
use serde_json::{json, Value};
use text_utils::edit;

fn strs(req: &Value, k: &str) -> Result<Vec<String>, String> {
    let arr = req.get(k).and_then(|v| v.as_array()).ok_or(format!("missing {k}"))?;
    let mut out = vec![];
    for a in arr {
        let mut st = String::new();
        for c in a.as_array().ok_or("bad string")? {
            st.push(char::from_u32(c.as_u64().ok_or("bad cp")? as u32).ok_or("not scalar")?);
        }
        out.push(st);
    }
    Ok(out)
}

fn f(v: f64) -> Value {
    // NaN / inf become null (serde_json cannot represent them)
    json!(v)
}

pub fn dispatch(op: &str, req: &Value) -> Result<Value, String> {
    match op {
        "edit_distance" => Ok(f(edit::distance(&s(req, "a")?, &s(req, "b")?, b(req, "g")?, b(req, "swap")?,
            b(req, "spaces")?, b(req, "norm")?))),
        "edit_prefix_distance" => Ok(f(edit::prefix_distance(&s(req, "a")?, &s(req, "b")?, b(req, "g")?,
            b(req, "swap")?, b(req, "spaces")?, b(req, "norm")?))),
        "edit_operations" => {
            let ops = edit::operations(&s(req, "a")?, &s(req, "b")?, b(req, "g")?, b(req, "swap")?, b(req, "spaces")?);
            Ok(Value::Array(ops.iter().map(|(o, i, j)| {
                let n = match o {
                    edit::EditOperation::Insert => "Insert",
                    edit::EditOperation::Delete => "Delete",
                    edit::EditOperation::Replace => "Replace",
                    edit::EditOperation::Swap => "Swap",
                };
                json!([n, i, j])
            }).collect()))
        }
        "edit_distances" => {
            let a = strs(req, "a")?;
            let bb = strs(req, "b")?;
            Ok(match edit::distances(&a, &bb, b(req, "g")?, b(req, "swap")?, b(req, "spaces")?, b(req, "norm")?) {
                Ok(v) => json!({"Ok": v.into_iter().map(f).collect::<Vec<_>>()}),
                Err(_) => json!({"Err": true}),
            })
        }
        _ => crate::ops4::dispatch(op, req),
    }
}
