use serde_json::{json, Value};
use text_utils::data::loading::{BatchLimitType, GenerationStrategy};
use text_utils::data::preprocessing::{Part, PreprocessingFnConfig};
use text_utils::data::postprocessing::PostprocessingFnConfig;
use text_utils::data::task::TrainTaskConfig;
use text_utils::data::verif_hooks::{train_loader_batches, LoaderArgs};
use text_utils::data::{PostprocessingConfig, PreprocessingConfig, TrainPipelineConfig};
use text_utils::tokenization::{ByteGroups, ByteTokenizerConfig, GroupAggregation, SpecialConfig, TokenizeConfig, TokenizerConfig};

fn pipeline(kind: &str) -> TrainPipelineConfig {
    let tok = TokenizerConfig {
        tokenize: TokenizeConfig::Byte(ByteTokenizerConfig {
            use_graphemes: false,
            pad_to_multiple_of: None,
            groups: ByteGroups::Bytes,
            aggregation: GroupAggregation::Mean,
        }),
        special: SpecialConfig::default(),
    };
    let pre = match kind {
        "wscorrupt" => PreprocessingFnConfig::WhitespaceCorruption(Part::Input, 0.4, 0.4, false),
        _ => PreprocessingFnConfig::None,
    };
    TrainPipelineConfig {
        preprocessing: PreprocessingConfig::Global(pre),
        task: TrainTaskConfig::WhitespaceCorrection(false, tok),
        postprocessing: PostprocessingConfig::Global(PostprocessingFnConfig::None),
    }
}

fn ous(v: &Value) -> Option<usize> {
    v.as_u64().map(|x| x as usize).or_else(|| v.as_str().and_then(|s| s.parse::<usize>().ok()))
}

pub fn dispatch(op: &str, req: &Value) -> Result<Value, String> {
    match op {
        "train_loader" => {
            // files: list of files, each a list of raw jsonl lines
            let dir = std::path::PathBuf::from(std::env::var("VERIF_SCRATCH").unwrap_or("/var/tmp/verif-scratch".to_string()))
                .join(format!("loader-{}", std::process::id()));
            std::fs::create_dir_all(&dir).map_err(|e| e.to_string())?;
            let mut files = vec![];
            for (i, f) in req["files"].as_array().ok_or("files")?.iter().enumerate() {
                let p = dir.join(format!("f{i}.jsonl"));
                let mut content = String::new();
                for l in f.as_array().ok_or("file lines")? {
                    content.push_str(l.as_str().ok_or("line")?);
                    content.push('\n');
                }
                std::fs::write(&p, content).map_err(|e| e.to_string())?;
                files.push(p.to_string_lossy().to_string());
            }
            let args = LoaderArgs {
                files,
                pipeline: pipeline(req["pipeline"].as_str().unwrap_or("plain")),
                strategy: match req["strategy"].as_str().unwrap_or("Sequential") {
                    "Interleaved" => GenerationStrategy::Interleaved,
                    "Weighted" => GenerationStrategy::Weighted,
                    _ => GenerationStrategy::Sequential,
                },
                num_threads: req["threads"].as_u64().unwrap_or(0) as u8,
                buffer_size: ous(&req["buffer"]).unwrap_or(4),
                batch_limit: ous(&req["batch_limit"]).unwrap_or(2),
                batch_limit_type: if req["limit_type"].as_str() == Some("PaddedItemSize") {
                    BatchLimitType::PaddedItemSize
                } else {
                    BatchLimitType::BatchSize
                },
                max_length: ous(&req["max_length"]).unwrap_or(512),
                shuffle: req["shuffle"].as_bool().unwrap_or(false),
                prefetch_factor: ous(&req["prefetch"]).unwrap_or(1),
                sort: req["sort"].as_bool().unwrap_or(false),
                seed: req["seed"].as_u64().or_else(|| req["seed"].as_str().and_then(|s| s.parse::<u64>().ok())),
                skip: ous(&req["skip"]).unwrap_or(0),
                limit: ous(&req["limit"]),
                distributed: match (ous(&req["rank"]), ous(&req["world"])) {
                    (Some(r), Some(w)) => Some((r, w)),
                    _ => None,
                },
                epoch: ous(&req["epoch"]).unwrap_or(0),
                fast_forward: ous(&req["ff"]).unwrap_or(0),
            };
            let r = train_loader_batches(args);
            let _ = std::fs::remove_dir_all(&dir);
            let (min_items, batches) = r.map_err(|e| e.to_string())?;
            Ok(json!({"min_items": min_items, "batches": batches}))
        }
        "preproc_repeat" => {
            // runs a randomised preprocessing closure `n` times on the same (item, info) and returns the distinct results
            let cfg = match req["kind"].as_str().ok_or("kind")? {
                "switch" => {
                    let k = req["fns"].as_u64().unwrap_or(2) as usize;
                    let fns: Vec<_> = (0..k).map(|i| PreprocessingFnConfig::Prefix(Part::Input, format!("{i}:"))).collect();
                    let probs: Vec<f64> = req["probs"].as_array().ok_or("probs")?.iter().map(|p| p.as_f64().unwrap()).collect();
                    PreprocessingFnConfig::Switch(fns, probs)
                }
                "CharSubstring" => PreprocessingFnConfig::CharSubstring(ous(&req["max"]).ok_or("max")?, false),
                "ByteSubstring" => PreprocessingFnConfig::ByteSubstring(ous(&req["max"]).ok_or("max")?, false),
                k => return Err(format!("unknown preprocessing {k}")),
            };
            let f = text_utils::data::preprocessing::preprocessing(cfg);
            let seed = req["seed"].as_u64().or_else(|| req["seed"].as_str().and_then(|s| s.parse::<u64>().ok())).ok_or("seed")?;
            let mut outs: Vec<String> = vec![];
            for _ in 0..req["n"].as_u64().unwrap_or(16) {
                let item = text_utils::data::TrainData::new(
                    req["input"].as_str().ok_or("input")?.to_string(),
                    Some(req["target"].as_str().ok_or("target")?.to_string()),
                );
                let info = text_utils::data::TextDataInfo { seed, file_idx: 1, ..Default::default() };
                let o = match f(item, info) {
                    Ok((d, i)) => format!("{:?} seed={} file={}", d, i.seed, i.file_idx),
                    Err(e) => format!("Err {e}"),
                };
                if !outs.contains(&o) {
                    outs.push(o);
                }
            }
            Ok(json!(outs))
        }
        "corrupt_spelling_run" => {
            // artificial spelling corruption (delete / swap only: no character table) of `text` for every seed in `seeds`
            let cfg = PreprocessingFnConfig::SpellingCorruption(
                Part::Input,
                req["prob"].as_f64().unwrap_or(1.0),
                req["full_delete"].as_bool().unwrap_or(false),
                text_utils::data::preprocessing::SpellingCorruptionMode::Artificial(req["char_p"].as_f64().unwrap_or(1.0), 1.0, None),
            );
            let f = text_utils::data::preprocessing::preprocessing(cfg);
            let text = req["text"].as_str().ok_or("text")?;
            let mut outs: Vec<String> = vec![];
            for sd in req["seeds"].as_array().ok_or("seeds")? {
                let seed = sd.as_u64().ok_or("seed")?;
                let item = text_utils::data::TrainData::new(text.to_string(), Some("t".to_string()));
                let info = text_utils::data::TextDataInfo { seed, ..Default::default() };
                let (d, _) = f(item, info).map_err(|e| e.to_string())?;
                outs.push(crate::ops9::parts_of(&d).0);
            }
            Ok(json!(outs))
        }
        _ => crate::ops17::dispatch(op, req),
    }
}
