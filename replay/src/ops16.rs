use serde_json::{json, Value};
use text_utils::data::loading::{BatchLimitType, GenerationStrategy};
use text_utils::data::preprocessing::{Part, PreprocessingFnConfig};
use text_utils::data::postprocessing::PostprocessingFnConfig;
use text_utils::data::task::TrainTaskConfig;
use text_utils::data::verif_hooks::{train_loader_batches, LoaderArgs};
use text_utils::data::{PostprocessingConfig, PreprocessingConfig, TrainPipelineConfig};
use text_utils::tokenization::{ByteGroups, ByteTokenizerConfig, GroupAggregation, SpecialConfig, TokenizeConfig, TokenizerConfig};

fn pipeline(kind: &str) -> TrainPipelineConfig {
    let tok = TokenizerConfig {
        tokenize: TokenizeConfig::Byte(ByteTokenizerConfig {
            use_graphemes: false,
            pad_to_multiple_of: None,
            groups: ByteGroups::Bytes,
            aggregation: GroupAggregation::Mean,
        }),
        special: SpecialConfig::default(),
    };
    let pre = match kind {
        "wscorrupt" => PreprocessingFnConfig::WhitespaceCorruption(Part::Input, 0.4, 0.4, false),
        _ => PreprocessingFnConfig::None,
    };
    TrainPipelineConfig {
        preprocessing: PreprocessingConfig::Global(pre),
        task: TrainTaskConfig::WhitespaceCorrection(false, tok),
        postprocessing: PostprocessingConfig::Global(PostprocessingFnConfig::None),
    }
}

fn ous(v: &Value) -> Option<usize> {
    v.as_u64().map(|x| x as usize).or_else(|| v.as_str().and_then(|s| s.parse::<usize>().ok()))
}

pub fn dispatch(op: &str, req: &Value) -> Result<Value, String> {
    match op {
        "train_loader" => {
            // files: list of files, each a list of raw jsonl lines
            let dir = std::path::PathBuf::from(std::env::var("VERIF_SCRATCH").unwrap_or("/var/tmp/verif-scratch".to_string()))
                .join(format!("loader-{}", std::process::id()));
            std::fs::create_dir_all(&dir).map_err(|e| e.to_string())?;
            let mut files = vec![];
            for (i, f) in req["files"].as_array().ok_or("files")?.iter().enumerate() {
                let p = dir.join(format!("f{i}.jsonl"));
                let mut content = String::new();
                for l in f.as_array().ok_or("file lines")? {
                    content.push_str(l.as_str().ok_or("line")?);
                    content.push('\n');
                }
                std::fs::write(&p, content).map_err(|e| e.to_string())?;
                files.push(p.to_string_lossy().to_string());
            }
            let args = LoaderArgs {
                files,
                pipeline: pipeline(req["pipeline"].as_str().unwrap_or("plain")),
                strategy: match req["strategy"].as_str().unwrap_or("Sequential") {
                    "Interleaved" => GenerationStrategy::Interleaved,
                    "Weighted" => GenerationStrategy::Weighted,
                    _ => GenerationStrategy::Sequential,
                },
                num_threads: req["threads"].as_u64().unwrap_or(0) as u8,
                buffer_size: ous(&req["buffer"]).unwrap_or(4),
                batch_limit: ous(&req["batch_limit"]).unwrap_or(2),
                batch_limit_type: if req["limit_type"].as_str() == Some("PaddedItemSize") {
                    BatchLimitType::PaddedItemSize
                } else {
                    BatchLimitType::BatchSize
                },
                max_length: ous(&req["max_length"]).unwrap_or(512),
                shuffle: req["shuffle"].as_bool().unwrap_or(false),
                prefetch_factor: ous(&req["prefetch"]).unwrap_or(1),
                sort: req["sort"].as_bool().unwrap_or(false),
                seed: req["seed"].as_u64().or_else(|| req["seed"].as_str().and_then(|s| s.parse::<u64>().ok())),
                skip: ous(&req["skip"]).unwrap_or(0),
                limit: ous(&req["limit"]),
                distributed: match (ous(&req["rank"]), ous(&req["world"])) {
                    (Some(r), Some(w)) => Some((r, w)),
                    _ => None,
                },
                epoch: ous(&req["epoch"]).unwrap_or(0),
                fast_forward: ous(&req["ff"]).unwrap_or(0),
            };
            let r = train_loader_batches(args);
            let _ = std::fs::remove_dir_all(&dir);
            let (min_items, batches) = r.map_err(|e| e.to_string())?;
            Ok(json!({"min_items": min_items, "batches": batches}))
        }
        _ => Err(format!("unknown op {op}")),
    }
}
