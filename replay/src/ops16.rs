use serde_json::Value;

pub fn dispatch(op: &str, _req: &Value) -> Result<Value, String> {
    Err(format!("unknown op {op}"))
}
