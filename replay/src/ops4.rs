use crate::ops::{b, s};
use serde_json::{json, Value};
use text_utils::{edit, text};

pub fn dispatch(op: &str, req: &Value) -> Result<Value, String> {
    match op {
        "match_words" => {
            let (m, la, lb) = text::match_words(&s(req, "a")?, &s(req, "b")?, b(req, "ic")?);
            Ok(json!([m, la, lb]))
        }
        "match_words_rel" => {
            // words are single letters a.. / A..; relation given as a boolean matrix
            let rel: Vec<Vec<bool>> = req.get("m").and_then(|v| v.as_array()).ok_or("missing m")?
                .iter().map(|r| r.as_array().unwrap().iter().map(|x| x.as_bool().unwrap()).collect()).collect();
            let f = |x: &str, y: &str| {
                let i = (x.as_bytes()[0] - b'a') as usize;
                let j = (y.as_bytes()[0] - b'A') as usize;
                rel[i][j]
            };
            let (m, la, lb) = text::match_words_with(&s(req, "a")?, &s(req, "b")?, f);
            Ok(json!([m, la, lb]))
        }
        "edited_words" => {
            let (ea, eb) = edit::edited_words(&s(req, "a")?, &s(req, "b")?);
            let mut ea: Vec<usize> = ea.into_iter().collect();
            let mut eb: Vec<usize> = eb.into_iter().collect();
            ea.sort();
            eb.sort();
            Ok(json!([ea, eb]))
        }
        _ => crate::ops5::dispatch(op, req),
    }
}
