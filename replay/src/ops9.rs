use crate::ops::{b, cps, s};
use serde_json::{json, Value};
use std::collections::HashMap;
use text_utils::data::preprocessing::{preprocessing, Part, PreprocessingFnConfig};
use text_utils::data::{TextDataInfo, TrainData};

/// Parse a Rust `{:?}`-escaped string literal starting right after the opening quote; returns (string, rest).
fn unescape(src: &str) -> (String, &str) {
    let mut out = String::new();
    let mut it = src.char_indices();
    while let Some((i, c)) = it.next() {
        match c {
            '"' => return (out, &src[i + 1..]),
            '\\' => {
                let (_, e) = it.next().unwrap();
                match e {
                    'n' => out.push('\n'),
                    'r' => out.push('\r'),
                    't' => out.push('\t'),
                    '0' => out.push('\0'),
                    '\\' => out.push('\\'),
                    '"' => out.push('"'),
                    '\'' => out.push('\''),
                    'u' => {
                        let mut hex = String::new();
                        it.next(); // {
                        for (_, h) in it.by_ref() {
                            if h == '}' {
                                break;
                            }
                            hex.push(h);
                        }
                        out.push(char::from_u32(u32::from_str_radix(&hex, 16).unwrap()).unwrap());
                    }
                    other => out.push(other),
                }
            }
            c => out.push(c),
        }
    }
    (out, "")
}

/// (input, target) of a TrainData via its Debug rendering (the fields are private)
pub fn parts_of(d: &TrainData) -> (String, String) {
    let dbg = format!("{:?}", d);
    let a = dbg.find("input: \"").unwrap() + 8;
    let (input, rest) = unescape(&dbg[a..]);
    let b2 = rest.find("target: \"").unwrap() + 9;
    let (target, _) = unescape(&rest[b2..]);
    (input, target)
}

pub fn dispatch(op: &str, req: &Value) -> Result<Value, String> {
    match op {
        "corrupt_ws" => {
            let text = s(req, "s")?;
            let part_in = req["part"].as_str().ok_or("part")? == "Input";
            let cfg = PreprocessingFnConfig::WhitespaceCorruption(
                if part_in { Part::Input } else { Part::Target },
                req["iw"].as_f64().ok_or("iw")?,
                req["dw"].as_f64().ok_or("dw")?,
                b(req, "g")?,
            );
            let f = preprocessing(cfg);
            let other = "o t h e r".to_string();
            let item = if part_in { TrainData::new(text, Some(other)) } else { TrainData::new(other, Some(text)) };
            let seed: u64 = req["seed"].as_str().ok_or("seed")?.parse().map_err(|_| "seed")?;
            let file_idx = req["file_idx"].as_str().and_then(|s| s.parse::<usize>().ok()).unwrap_or(0);
            let info = TextDataInfo { seed, file_idx, marks: HashMap::new() };
            let (item, _) = f(item, info).map_err(|e| e.to_string())?;
            let (i, t) = parts_of(&item);
            let (cor, oth) = if part_in { (i, t) } else { (t, i) };
            Ok(json!({"corrupted": cps(&cor), "other": cps(&oth)}))
        }
        _ => crate::ops10::dispatch(op, req),
    }
}
