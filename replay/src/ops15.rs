use serde_json::{json, Value};
use std::collections::HashMap;
use text_utils::tokenization::train_bpe;
use text_utils::utils::SerializeMsgPack;

pub fn dispatch(op: &str, req: &Value) -> Result<Value, String> {
    match op {
        "train_bpe" => {
            let dir = std::path::PathBuf::from(std::env::var("VERIF_SCRATCH").unwrap_or("/var/tmp/verif-scratch".to_string()))
                .join(format!("bpe-{}", std::process::id()));
            std::fs::create_dir_all(&dir).map_err(|e| e.to_string())?;
            let corpus = dir.join("corpus.txt");
            let mut content = String::new();
            for l in req["lines"].as_array().ok_or("lines")? {
                content.push_str(l.as_str().unwrap());
                content.push('\n');
            }
            std::fs::write(&corpus, content).map_err(|e| e.to_string())?;
            let out = dir.join("merges.bin");
            let r = train_bpe(&[corpus], req["vocab"].as_u64().ok_or("vocab")? as usize, req["nst"].as_u64().ok_or("nst")? as usize,
                &out, None, None, req["threads"].as_u64().unwrap_or(1) as u8, false);
            if let Err(e) = r {
                let _ = std::fs::remove_dir_all(&dir);
                return Err(e.to_string());
            }
            let table: HashMap<Vec<u8>, u32> = HashMap::load(&out).map_err(|e| e.to_string())?;
            let _ = std::fs::remove_dir_all(&dir);
            Ok(json!(table.into_iter().map(|(k, v)| json!([k, v])).collect::<Vec<_>>()))
        }
        _ => crate::ops16::dispatch(op, req),
    }
}
