use serde_json::{json, Value};
use std::collections::HashMap;
use text_utils::tokenization::train_bpe;
use text_utils::utils::SerializeMsgPack;

pub fn dispatch(op: &str, req: &Value) -> Result<Value, String> {
    match op {
        "train_bpe" => {
            let dir = std::path::PathBuf::from(std::env::var("VERIF_SCRATCH").unwrap_or("/var/tmp/verif-scratch".to_string()))
                .join(format!("bpe-{}", std::process::id()));
            std::fs::create_dir_all(&dir).map_err(|e| e.to_string())?;
            let lines: Vec<String> = req["lines"].as_array().ok_or("lines")?.iter().map(|l| l.as_str().unwrap_or("").to_string()).collect();
            // optional: distribution of the lines over several files (lists of line indices) and max_lines_per_file
            let groups: Vec<Vec<usize>> = match req.get("files").and_then(|f| f.as_array()) {
                Some(fs) => fs.iter().map(|g| g.as_array().map(|a| a.iter().filter_map(|x| x.as_u64().map(|x| x as usize)).collect()).unwrap_or_default()).collect(),
                None => vec![(0..lines.len()).collect()],
            };
            let mut paths = vec![];
            for (fi, g) in groups.iter().enumerate() {
                let p = dir.join(format!("corpus{fi}.txt"));
                let mut content = String::new();
                for li in g {
                    content.push_str(lines.get(*li).map(|s| s.as_str()).unwrap_or(""));
                    content.push('\n');
                }
                std::fs::write(&p, content).map_err(|e| e.to_string())?;
                paths.push(p);
            }
            let max_lines = req.get("max_lines").and_then(|v| v.as_u64()).map(|v| v as usize);
            let out = dir.join("merges.bin");
            let r = train_bpe(&paths, req["vocab"].as_u64().ok_or("vocab")? as usize, req["nst"].as_u64().ok_or("nst")? as usize,
                &out, max_lines, None, req["threads"].as_u64().unwrap_or(1) as u8, false);
            if let Err(e) = r {
                let _ = std::fs::remove_dir_all(&dir);
                return Err(e.to_string());
            }
            let table: HashMap<Vec<u8>, u32> = HashMap::load(&out).map_err(|e| e.to_string())?;
            let _ = std::fs::remove_dir_all(&dir);
            Ok(json!(table.into_iter().map(|(k, v)| json!([k, v])).collect::<Vec<_>>()))
        }
        _ => crate::ops16::dispatch(op, req),
    }
}
