use serde_json::{json, Value};
#[cfg(feature = "verif")]
use text_utils::tokenization::{token_groups_to_sparse_coo_matrix, TokenGroup, TokenizationInfo};

#[cfg(feature = "verif")]
fn group_json(g: &TokenGroup) -> Value {
    match g {
        TokenGroup::Empty(n) => json!({"Empty": n}),
        TokenGroup::Full(n) => json!({"Full": n}),
        TokenGroup::Nested(gs) => json!({"Nested": gs.iter().map(group_json).collect::<Vec<_>>()}),
    }
}

#[cfg(feature = "verif")]
fn group_from(v: &Value) -> Result<TokenGroup, String> {
    if let Some(n) = v.get("Full").and_then(|x| x.as_u64()) {
        return Ok(TokenGroup::Full(n as usize));
    }
    if let Some(n) = v.get("Empty").and_then(|x| x.as_u64()) {
        return Ok(TokenGroup::Empty(n as usize));
    }
    let subs = v.get("Nested").and_then(|x| x.as_array()).ok_or("group")?;
    Ok(TokenGroup::Nested(subs.iter().map(group_from).collect::<Result<Vec<_>, _>>()?))
}

pub fn dispatch(op: &str, req: &Value) -> Result<Value, String> {
    match op {
        #[cfg(feature = "verif")]
        "sparse_coo_trees" => {
            // groupings given as trees (arbitrary nesting depth)
            let agg = if req["agg"].as_str() == Some("Sum") {
                text_utils::tokenization::GroupAggregation::Sum
            } else {
                text_utils::tokenization::GroupAggregation::Mean
            };
            let mut owned = vec![];
            for t in req["trees"].as_array().ok_or("trees")? {
                let gs = t.as_array().ok_or("tree")?.iter().map(group_from).collect::<Result<Vec<_>, _>>()?;
                owned.push((gs, agg));
            }
            let lengths: Vec<usize> = req["lengths"].as_array().ok_or("lengths")?.iter().map(|x| x.as_u64().unwrap_or(0) as usize).collect();
            let groupings: Vec<_> = owned.iter().collect();
            let sc = token_groups_to_sparse_coo_matrix(&groupings, &lengths).map_err(|e| e.to_string())?;
            let (idx, shape, values, size, gl) = text_utils::verif_hooks::sparse_coo_parts(&sc);
            Ok(json!({"coo": {"indices": idx, "shape": [shape.0, shape.1], "values": values, "size": size, "group_lengths": gl}}))
        }
        #[cfg(feature = "verif")]
        "sparse_coo" => {
            let tok = crate::ops11::build(&req["shape"])?;
            let mut infos = vec![];
            let mut lengths = vec![];
            for t in req["texts"].as_array().ok_or("texts")? {
                let text: String = t.as_array().unwrap().iter().map(|c| char::from_u32(c.as_u64().unwrap() as u32).unwrap()).collect();
                let tk = tok.tokenize(&text, false).map_err(|e| e.to_string())?;
                lengths.push(tk.token_ids.len());
                infos.push(tk.info);
            }
            let mut groupings = vec![];
            for i in &infos {
                if let TokenizationInfo::TokenGroups(m) = i {
                    groupings.push(m.values().next().ok_or("no grouping")?);
                }
            }
            let sc = token_groups_to_sparse_coo_matrix(&groupings, &lengths).map_err(|e| e.to_string())?;
            let (idx, shape, values, size, gl) = text_utils::verif_hooks::sparse_coo_parts(&sc);
            Ok(json!({"coo": {"indices": idx, "shape": [shape.0, shape.1], "values": values, "size": size, "group_lengths": gl},
                      "groups": groupings.iter().map(|g| g.0.iter().map(group_json).collect::<Vec<_>>()).collect::<Vec<_>>(),
                      "lengths": lengths}))
        }
        #[cfg(feature = "verif")]
        "padding_mask" => {
            let l: Vec<usize> = req["lengths"].as_array().ok_or("lengths")?.iter().map(|x| x.as_u64().unwrap() as usize).collect();
            let (shape, data) = text_utils::verif_hooks::padding_mask_vec(&l);
            Ok(json!({"shape": [shape.0, shape.1], "data": data}))
        }
        #[cfg(feature = "verif")]
        "tensorize" => {
            use text_utils::data::{TrainData, TrainItem, TrainTaskInput};
            let kind = req["kind"].as_str().ok_or("kind")?;
            let pad = req["pad"].as_u64().ok_or("pad")? as u32;
            let tpad = req["tpad"].as_u64().ok_or("tpad")? as u32;
            let mut batch = vec![];
            for r in req["rows"].as_array().ok_or("rows")? {
                let ids: Vec<u32> = r["ids"].as_array().unwrap().iter().map(|x| x.as_u64().unwrap() as u32).collect();
                let labels: Vec<i32> = r["labels"].as_array().unwrap().iter().map(|x| x.as_i64().unwrap() as i32).collect();
                let tids: Vec<u32> = r["tids"].as_array().unwrap().iter().map(|x| x.as_u64().unwrap() as u32).collect();
                let input = match kind {
                    "Classification" => TrainTaskInput::Classification { token_ids: ids, pad_token_id: pad, label: labels.first().copied().unwrap_or(7) },
                    "SequenceClassification" => TrainTaskInput::SequenceClassification { token_ids: ids, pad_token_id: pad, labels },
                    "Generation" => TrainTaskInput::Generation { token_ids: ids, pad_token_id: pad, labels },
                    _ => TrainTaskInput::ConditionalGeneration { token_ids: ids, pad_token_id: pad, target_token_ids: tids, target_pad_token_id: tpad, labels },
                };
                batch.push(TrainItem::new(TrainData::new("x".to_string(), Some("y".to_string())), input));
            }
            let (k, tensors) = text_utils::verif_hooks::tensorize_to_vecs(&batch);
            Ok(json!({"kind": k, "tensors": tensors.iter().map(|(s, d)| json!([s, d])).collect::<Vec<_>>()}))
        }
        _ => crate::ops14::dispatch(op, req),
    }
}
