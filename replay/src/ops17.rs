use crate::ops::s;
use serde_json::{json, Value};
use text_utils::data::task::{train_task, TrainTaskConfig};
use text_utils::data::{TrainData, TrainTaskInput};
use text_utils::tokenization::{
    ByteGroups, ByteTokenizerConfig, CharTokenizerConfig, GroupAggregation, SpecialConfig, TokenizeConfig, TokenizerConfig,
};

fn strs(v: &Value) -> Vec<String> {
    v.as_array().map(|a| a.iter().filter_map(|x| x.as_str().map(|s| s.to_string())).collect()).unwrap_or_default()
}

pub fn dispatch(op: &str, req: &Value) -> Result<Value, String> {
    match op {
        "ws_task" => {
            // the whitespace-correction task function of data/task.rs on (input, target)
            let g = req["g"].as_bool().unwrap_or(false);
            let tok_g = req["tok_g"].as_bool().unwrap_or(g);
            let special = SpecialConfig {
                pad: req["pad"].as_str().ok_or("pad")?.to_string(),
                tokens: strs(&req["tokens"]),
                prefix: strs(&req["prefix"]),
                suffix: strs(&req["suffix"]),
            };
            let tokenize = match req["kind"].as_str().unwrap_or("char") {
                "byte" => TokenizeConfig::Byte(ByteTokenizerConfig {
                    use_graphemes: tok_g,
                    pad_to_multiple_of: None,
                    groups: ByteGroups::Bytes,
                    aggregation: GroupAggregation::Mean,
                }),
                _ => TokenizeConfig::Character(CharTokenizerConfig { use_graphemes: tok_g, unk_token: "<unk>".to_string() }),
            };
            let f = train_task(TrainTaskConfig::WhitespaceCorrection(g, TokenizerConfig { tokenize, special }));
            let item = TrainData::new(s(req, "input")?, Some(s(req, "target")?));
            match f(&item) {
                Ok(TrainTaskInput::SequenceClassification { token_ids, pad_token_id, labels }) => {
                    Ok(json!({"token_ids": token_ids, "pad": pad_token_id, "labels": labels}))
                }
                Ok(_) => Err("unexpected task input kind".to_string()),
                Err(e) => Ok(json!({"err": e.to_string()})),
            }
        }
        "task_consistency" => {
            // builds the task function `trials` times (independent pipeline instances: another rank, a restart, a second
            // loader) and applies each instance to the same item; returns the distinct results
            let special = SpecialConfig { pad: "<pad>".to_string(), tokens: vec!["<pad>".to_string()], prefix: vec![], suffix: vec![] };
            let tok = TokenizerConfig {
                tokenize: TokenizeConfig::Byte(ByteTokenizerConfig {
                    use_graphemes: false,
                    pad_to_multiple_of: None,
                    groups: ByteGroups::Bytes,
                    aggregation: GroupAggregation::Mean,
                }),
                special,
            };
            let classes = strs(&req["classes"]);
            let mut outs: Vec<String> = vec![];
            for _ in 0..req["trials"].as_u64().unwrap_or(12) {
                let cfg = match req["task"].as_str().unwrap_or("Classification") {
                    "WhitespaceCorrection" => TrainTaskConfig::WhitespaceCorrection(false, tok.clone()),
                    _ => TrainTaskConfig::Classification(tok.clone(), true, classes.clone()),
                };
                let f = train_task(cfg);
                let item = TrainData::new(s(req, "input")?, Some(s(req, "target")?));
                let o = match f(&item) {
                    Ok(t) => format!("{:?}", t),
                    Err(e) => format!("Err {e}"),
                };
                if !outs.contains(&o) {
                    outs.push(o);
                }
            }
            Ok(json!(outs))
        }
        _ => Err(format!("unknown op {op}")),
    }
}
