use serde_json::{json, Value};
use text_utils::data::loading::{GenerationStrategy, MultiTrainDataGenerator, TrainDataGenerator};
use text_utils::data::TrainData;

struct Gen {
    items: std::vec::IntoIter<anyhow::Result<TrainData>>,
    len: usize,
}

impl Iterator for Gen {
    type Item = anyhow::Result<TrainData>;
    fn next(&mut self) -> Option<Self::Item> {
        self.items.next()
    }
    fn size_hint(&self) -> (usize, Option<usize>) {
        (self.len, Some(self.len))
    }
}

impl ExactSizeIterator for Gen {}

pub fn seed_of(req: &Value) -> Result<Option<u64>, String> {
    match req.get("seed") {
        None | Some(Value::Null) => Ok(None),
        Some(v) => v.as_str().ok_or("seed must be a string")?.parse::<u64>().map(Some).map_err(|e| e.to_string()),
    }
}

/// input of a TrainData via its Debug rendering (fields are private)
pub fn input_of(d: &TrainData) -> String {
    let s = format!("{:?}", d);
    let a = s.find("input: \"").map(|i| i + 8).unwrap_or(0);
    let b = s[a..].find('"').map(|i| i + a).unwrap_or(a);
    s[a..b].to_string()
}

pub fn dispatch(op: &str, req: &Value) -> Result<Value, String> {
    match op {
        "multi_gen" => {
            let lengths: Vec<usize> = req.get("lengths").and_then(|v| v.as_array()).ok_or("missing lengths")?
                .iter().map(|x| x.as_u64().unwrap() as usize).collect();
            let strategy = match req.get("strategy").and_then(|v| v.as_str()).ok_or("missing strategy")? {
                "Sequential" => GenerationStrategy::Sequential,
                "Interleaved" => GenerationStrategy::Interleaved,
                _ => GenerationStrategy::Weighted,
            };
            let gens: Vec<TrainDataGenerator> = lengths.iter().enumerate().map(|(s, n)| {
                // optional: one item of one source is an Err (a malformed line in the middle of a file)
                let err = req.get("err").and_then(|e| e.as_array()).map(|e| (e[0].as_u64().unwrap_or(0) as usize, e[1].as_u64().unwrap_or(0) as usize));
                let items: Vec<anyhow::Result<TrainData>> = (0..*n)
                    .map(|j| if err == Some((s, j)) { Err(anyhow::anyhow!("s{s}_{j}")) } else { Ok(TrainData::new(format!("s{s}_{j}"), None)) })
                    .collect();
                Box::new(Gen { items: items.into_iter(), len: *n }) as TrainDataGenerator
            }).collect();
            let total: usize = lengths.iter().sum();
            let gen = match MultiTrainDataGenerator::new(gens, strategy, seed_of(req)?) {
                Ok(g) => g,
                Err(_) => return Ok(json!("Err")),
            };
            let mut out = vec![];
            for (item, src) in gen.take(total + 3) {
                let name = match item {
                    Ok(d) => input_of(&d),
                    Err(e) => e.to_string(),
                };
                let mut it = name[1..].split('_');
                let s: usize = it.next().unwrap().parse().unwrap();
                let j: usize = it.next().unwrap().parse().unwrap();
                out.push(json!([s, j, src]));
            }
            Ok(json!(out))
        }
        _ => crate::ops7::dispatch(op, req),
    }
}
