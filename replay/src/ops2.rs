use crate::ops::{b, cps, s};
use serde_json::{json, Value};
use text_utils::whitespace;

fn ops_from(req: &Value, k: &str) -> Result<Vec<whitespace::Operation>, String> {
    let arr = req.get(k).and_then(|v| v.as_array()).ok_or(format!("missing {k}"))?;
    arr.iter()
        .map(|v| match v.as_str() {
            Some("Keep") => Ok(whitespace::Operation::Keep),
            Some("Insert") => Ok(whitespace::Operation::Insert),
            Some("Delete") => Ok(whitespace::Operation::Delete),
            _ => Err("bad op".to_string()),
        })
        .collect()
}

fn op_name(o: &whitespace::Operation) -> &'static str {
    match o {
        whitespace::Operation::Keep => "Keep",
        whitespace::Operation::Insert => "Insert",
        whitespace::Operation::Delete => "Delete",
    }
}

pub fn dispatch(op: &str, req: &Value) -> Result<Value, String> {
    match op {
        "ws_operations" => Ok(match whitespace::operations(&s(req, "a")?, &s(req, "b")?, b(req, "g")?) {
            Ok(v) => json!({"Ok": v.iter().map(op_name).collect::<Vec<_>>()}),
            Err(_) => json!({"Err": true}),
        }),
        "ws_repair" => Ok(match whitespace::repair(&s(req, "s")?, &ops_from(req, "ops")?, b(req, "g")?) {
            Ok(v) => json!({"Ok": cps(&v)}),
            Err(_) => json!({"Err": true}),
        }),
        _ => crate::ops3::dispatch(op, req),
    }
}
