//! Native replay / differential-validation service.
//! Reads one JSON request per line on stdin, writes one JSON response per line on stdout.
//! Every response is {"ok": <value>} | {"panic": "<message>"} | {"error": "<message>"}.
use serde_json::{json, Value};
use std::io::{BufRead, Write};
use std::panic::{catch_unwind, AssertUnwindSafe};

mod ops;
mod ops2;
mod ops3;
mod ops4;
mod ops5;
mod ops6;
mod ops7;
mod ops8;
mod ops9;
mod ops10;
mod ops11;
mod ops12;
mod ops13;
mod ops14;
mod ops15;
mod ops16;
mod ops17;

fn main() {
    std::panic::set_hook(Box::new(|_| {}));
    let stdin = std::io::stdin();
    let stdout = std::io::stdout();
    let mut out = stdout.lock();
    for line in stdin.lock().lines() {
        let line = match line {
            Ok(l) => l,
            Err(_) => break,
        };
        if line.trim().is_empty() {
            continue;
        }
        let req: Value = match serde_json::from_str(&line) {
            Ok(v) => v,
            Err(e) => {
                writeln!(out, "{}", json!({"error": format!("bad request: {e}")})).unwrap();
                continue;
            }
        };
        let resp = match catch_unwind(AssertUnwindSafe(|| ops::dispatch(&req))) {
            Ok(Ok(v)) => json!({"ok": v}),
            Ok(Err(e)) => json!({"error": e}),
            Err(p) => {
                let msg = if let Some(s) = p.downcast_ref::<&str>() {
                    s.to_string()
                } else if let Some(s) = p.downcast_ref::<String>() {
                    s.clone()
                } else {
                    "panic".to_string()
                };
                json!({"panic": msg})
            }
        };
        writeln!(out, "{}", resp).unwrap();
        out.flush().unwrap();
    }
}
