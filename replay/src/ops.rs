use serde_json::{json, Value};
use text_utils::{text, whitespace};
use unicode_segmentation::UnicodeSegmentation;

pub fn s(req: &Value, k: &str) -> Result<String, String> {
    // strings are passed as arrays of code points so that any scalar value survives JSON
    let arr = req.get(k).and_then(|v| v.as_array()).ok_or(format!("missing {k}"))?;
    let mut out = String::new();
    for c in arr {
        let cp = c.as_u64().ok_or("bad code point")? as u32;
        out.push(char::from_u32(cp).ok_or("not a scalar value")?);
    }
    Ok(out)
}

pub fn b(req: &Value, k: &str) -> Result<bool, String> {
    req.get(k).and_then(|v| v.as_bool()).ok_or(format!("missing {k}"))
}

pub fn u(req: &Value, k: &str) -> Result<usize, String> {
    req.get(k).and_then(|v| v.as_u64()).map(|v| v as usize).ok_or(format!("missing {k}"))
}

pub fn cps(st: &str) -> Value {
    Value::Array(st.chars().map(|c| json!(c as u32)).collect())
}

pub fn dispatch(req: &Value) -> Result<Value, String> {
    let op = req.get("op").and_then(|v| v.as_str()).ok_or("missing op")?;
    match op {
        "ping" => Ok(json!("pong")),
        // ---- model validation
        "ws_table" => {
            // every scalar value for which std's char::is_whitespace is true
            let mut v = vec![];
            for cp in 0u32..0x110000 {
                if let Some(c) = char::from_u32(cp) {
                    if c.is_whitespace() {
                        v.push(cp);
                    }
                }
            }
            Ok(json!(v))
        }
        "utf8_len" => {
            // boundaries of len_utf8 classes
            let mut v = vec![];
            let mut last = 0usize;
            for cp in 0u32..0x110000 {
                if let Some(c) = char::from_u32(cp) {
                    if c.len_utf8() != last {
                        last = c.len_utf8();
                        v.push(json!([cp, last]));
                    }
                }
            }
            Ok(json!(v))
        }
        "graphemes" => {
            let st = s(req, "s")?;
            let v: Vec<usize> = st.graphemes(true).map(|g| g.chars().count()).collect();
            Ok(json!(v))
        }
        // ---- C11
        "clean" => Ok(cps(&text::clean(&s(req, "s")?, b(req, "g")?))),
        "word_boundaries" => Ok(json!(text::word_boundaries(&s(req, "s")?, b(req, "g")?))),
        "remove" => Ok(cps(&whitespace::remove(&s(req, "s")?, b(req, "g")?))),
        "full" => Ok(cps(&whitespace::full(&s(req, "s")?, b(req, "g")?))),
        _ => crate::ops2::dispatch(op, req),
    }
}
