use crate::ops::b;
use crate::ops6::seed_of;
use serde_json::{json, Value};
use text_utils::data::loading::{BatchLimitType, BatchedIterator, ItemSize};

struct It {
    size: usize,
    id: usize,
}

impl ItemSize for It {
    fn size(&self) -> usize {
        self.size
    }
}

fn big(req: &Value, k: &str) -> Result<usize, String> {
    req.get(k).and_then(|v| v.as_str()).ok_or(format!("missing {k}"))?.parse::<usize>().map_err(|e| e.to_string())
}

pub fn dispatch(op: &str, req: &Value) -> Result<Value, String> {
    match op {
        "batched" => {
            let sizes: Vec<usize> = req.get("sizes").and_then(|v| v.as_array()).ok_or("missing sizes")?
                .iter().map(|x| x.as_str().unwrap().parse::<usize>().unwrap()).collect();
            let n = sizes.len();
            let items: Vec<It> = sizes.into_iter().enumerate().map(|(id, size)| It { size, id }).collect();
            let lt = match req.get("limit_type").and_then(|v| v.as_str()).ok_or("missing limit_type")? {
                "BatchSize" => BatchLimitType::BatchSize,
                _ => BatchLimitType::PaddedItemSize,
            };
            let it = items.into_iter().batched(b(req, "sort")?, b(req, "shuffle")?, big(req, "prefetch")?,
                big(req, "limit")?, lt, seed_of(req)?);
            let out: Vec<Vec<usize>> = it.take(n + 3).map(|bt| bt.iter().map(|i| i.id).collect()).collect();
            Ok(json!(out))
        }
        _ => crate::ops8::dispatch(op, req),
    }
}
