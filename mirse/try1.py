import sys, time, json
sys.path.insert(0,'.')
import engine
hname=sys.argv[1]
import harnesses
h=harnesses.get(hname)
tier=sys.argv[2] if len(sys.argv)>2 else 'quick'
shapes=h.shapes(tier)
if len(sys.argv)>3: shapes=shapes[:int(sys.argv[3])]
opts={'mir':__import__('build').mir_dump()[0],'repo':'/repo'}
t0=time.time()
res=engine.run_harness(hname, shapes, opts, procs=int(sys.argv[4]) if len(sys.argv)>4 else 16)
tot=engine.summarize(res)
print('shapes',tot['shapes'],'paths',tot['paths'],'ok',tot['ok_paths'],'infeasible',tot['infeasible'],'checks',tot['checks'],'solver_s %.1f'%tot['solver_s'],'wall %.1f'%(time.time()-t0))
print('violations',len(tot['violations'])); 
for v in tot['violations'][:5]: print('  ',json.dumps(v,default=str)[:600])
print('bounds',tot['bounds'][:3])
print('unsupported',len(tot['unsupported']))
for u in tot['unsupported'][:8]: print('  ',u[:1500])
print('models',sorted(tot['models'].items()))
