"""Parser for rustc's `-Zunpretty=mir` text dump.

The dump is regenerated from /repo's working tree on every run (see mirdump.py);
this module turns it into Python objects that the symbolic interpreter executes.
Bodies are parsed lazily (only the functions that are actually reached).
"""
import re
import sys

sys.setrecursionlimit(100000)

OPEN = {'(': ')', '[': ']', '{': '}', '<': '>'}
CLOSE = {')', ']', '}', '>'}


class ParseError(Exception):
    pass


def split_top(s, sep=','):
    """Split s at top-level occurrences of sep (brackets and quotes respected).
    '<' / '>' are treated as brackets except in '->' and comparison-free MIR
    contexts (MIR text has no infix comparisons)."""
    out = []
    depth = 0
    cur = []
    i = 0
    n = len(s)
    while i < n:
        c = s[i]
        if c == '"' or (c == "'" and _is_char_lit(s, i)):
            j = _skip_quote(s, i)
            cur.append(s[i:j])
            i = j
            continue
        if c == 'b' and i + 1 < n and s[i + 1] == '"' and (i == 0 or not (s[i - 1].isalnum() or s[i - 1] == '_')):
            j = _skip_quote(s, i + 1)
            cur.append(s[i:j])
            i = j
            continue
        if c in '([{':
            depth += 1
        elif c in ')]}':
            depth -= 1
        elif c == '<':
            depth += 1
        elif c == '>':
            if i > 0 and s[i - 1] == '-':
                pass
            else:
                depth -= 1
        if c == sep and depth == 0:
            out.append(''.join(cur).strip())
            cur = []
        else:
            cur.append(c)
        i += 1
    last = ''.join(cur).strip()
    if last or out:
        out.append(last)
    return out


def _is_char_lit(s, i):
    # distinguish 'a' / '\n' / '\u{..}' char literal from lifetime 'a
    n = len(s)
    if i + 2 < n and s[i + 1] != '\\' and s[i + 2] == "'":
        return True
    if i + 1 < n and s[i + 1] == '\\':
        return True
    # multi-byte char literal (python str is unicode, so 1 char) handled above
    return False


def _skip_quote(s, i):
    q = s[i]
    j = i + 1
    n = len(s)
    while j < n:
        if s[j] == '\\':
            j += 2
            continue
        if s[j] == q:
            return j + 1
        j += 1
    raise ParseError('unterminated quote in ' + s[:80])


def find_matching(s, i):
    """s[i] is an opening bracket; return index of matching close."""
    depth = 0
    n = len(s)
    j = i
    while j < n:
        c = s[j]
        if c == '"' or (c == "'" and _is_char_lit(s, j)):
            j = _skip_quote(s, j)
            continue
        if c in '([{<':
            depth += 1
        elif c in ')]}':
            depth -= 1
        elif c == '>':
            if not (j > 0 and s[j - 1] == '-'):
                depth -= 1
        if depth == 0:
            return j
        j += 1
    raise ParseError('unbalanced: ' + s[:120])


# ---------------------------------------------------------------- AST nodes

class Place:
    __slots__ = ('local', 'proj')

    def __init__(self, local, proj=()):
        self.local = local
        self.proj = tuple(proj)

    def __repr__(self):
        return 'Place(_%d%s)' % (self.local, ''.join(map(repr, self.proj)))


# projection elements: ('deref',), ('field', idx, ty), ('downcast', variant),
# ('index', local), ('constindex', k, fromend), ('subslice', a, b, fromend)

class Operand:
    __slots__ = ('kind', 'place', 'const')

    def __init__(self, kind, place=None, const=None):
        self.kind = kind  # 'copy' 'move' 'const'
        self.place = place
        self.const = const

    def __repr__(self):
        return 'Op(%s %r)' % (self.kind, self.place if self.place is not None else self.const)


class Const:
    __slots__ = ('text', 'kind', 'value', 'ty')

    def __init__(self, text, kind, value, ty=None):
        self.text = text
        self.kind = kind
        self.value = value
        self.ty = ty

    def __repr__(self):
        return 'Const(%s:%r)' % (self.kind, self.value if self.kind != 'path' else self.text)


class Rvalue:
    __slots__ = ('kind', 'a')

    def __init__(self, kind, *a):
        self.kind = kind
        self.a = a

    def __repr__(self):
        return 'Rv(%s %r)' % (self.kind, self.a)


class Stmt:
    __slots__ = ('kind', 'place', 'rv', 'text')

    def __init__(self, kind, place=None, rv=None, text=None):
        self.kind = kind
        self.place = place
        self.rv = rv
        self.text = text


class Term:
    __slots__ = ('kind', 'a', 'text')

    def __init__(self, kind, text, **a):
        self.kind = kind
        self.a = a
        self.text = text


class Block:
    __slots__ = ('stmts', 'term', 'cleanup')

    def __init__(self):
        self.stmts = []
        self.term = None
        self.cleanup = False


class Function:
    def __init__(self, name, header, lines, lineno):
        self.name = name
        self.header = header
        self.raw = lines
        self.lineno = lineno
        self.parsed = False
        self.nargs = 0
        self.arg_types = []
        self.ret_type = None
        self.local_types = {}
        self.blocks = {}
        self.debug = {}

    def parse(self):
        if self.parsed:
            return self
        _parse_body(self)
        self.parsed = True
        self.raw = None
        return self


# ---------------------------------------------------------------- program

HEADER_RE = re.compile(r'^(fn|const|static(?: mut)?) (.*)$')


class Program:
    def __init__(self, path):
        self.functions = {}      # printed name -> Function
        self.closure_by_type = {}  # '{closure@src/..}' -> Function
        self.order = []
        self.static_allocs = {}   # allocN -> name of the static it is
        self._index(path)

    def _index(self, path):
        with open(path, encoding='utf-8') as f:
            lines = f.read().split('\n')
        i = 0
        n = len(lines)
        while i < n:
            ln = lines[i]
            m = HEADER_RE.match(ln)
            if m and ln.endswith('{') and not ln.startswith(' '):
                j = i + 1
                while j < n and lines[j] != '}':
                    j += 1
                kind = m.group(1)
                rest = m.group(2)
                name = self._header_name(kind, rest)
                fn = Function(name, ln, lines[i:j + 1], i + 1)
                fn.kind = kind
                self.functions[name] = fn
                self.order.append(name)
                i = j + 1
                continue
            if m and not ln.startswith(' ') and ln.endswith(';') and ' = const ' in ln:
                # one-line constant:  const NAME: TYPE = const VALUE;
                rest = m.group(2)
                name = self._header_name(m.group(1), rest)
                val = ln[ln.index(' = const ') + len(' = const '):-1]
                fn = Function(name, ln, [ln], i + 1)
                fn.kind = 'constval'
                fn.value = parse_const(val.strip())
                fn.parsed = True
                self.functions[name] = fn
                i += 1
                continue
            if ln.startswith('alloc') and '(static: ' in ln:
                am = re.match(r'^(alloc\d+) \(static: ([^,)]+)', ln)
                if am:
                    self.static_allocs[am.group(1)] = am.group(2).strip()
            if ln.startswith('promoted['):
                # "promoted[0] in foo::bar: &T = {"
                j = i + 1
                while j < n and lines[j] != '}':
                    j += 1
                m2 = re.match(r'^promoted\[(\d+)\] in (.*?): ', ln)
                if m2:
                    name = '%s::promoted[%s]' % (m2.group(2), m2.group(1))
                    fn = Function(name, ln, lines[i:j + 1], i + 1)
                    fn.kind = 'promoted'
                    self.functions[name] = fn
                i = j + 1
                continue
            i += 1
        # closures: map closure type -> body by first parameter type
        for name, fn in self.functions.items():
            if '{closure#' in name and fn.kind == 'fn':
                m = re.search(r'\(_1: (?:&mut |&)?(\{closure@[^}]*\})', fn.header)
                if m:
                    self.closure_by_type[m.group(1)] = fn

    @staticmethod
    def _header_name(kind, rest):
        if kind == 'fn':
            # name is everything before the top-level '(' that starts the arg list
            depth = 0
            i = 0
            n = len(rest)
            while i < n:
                c = rest[i]
                if c in '<{[':
                    depth += 1
                elif c in '>}]':
                    if not (c == '>' and rest[i - 1] == '-'):
                        depth -= 1
                elif c == '(' and depth == 0:
                    return rest[:i]
                i += 1
            return rest
        # const/static NAME: TYPE = {
        depth = 0
        for i, c in enumerate(rest):
            if c in '<{[(':
                depth += 1
            elif c in '>}])':
                depth -= 1
            elif c == ':' and depth == 0 and rest[i:i + 2] != '::' and rest[i - 1] != ':':
                return rest[:i]
        return rest

    def get(self, name):
        fn = self.functions.get(name)
        if fn is None:
            return None
        return fn.parse()


# ---------------------------------------------------------------- body parser

BB_RE = re.compile(r'^    bb(\d+)( \(cleanup\))?: \{$')
LET_RE = re.compile(r'^\s*let (?:mut )?_(\d+): (.*);$')


def _parse_body(fn):
    lines = fn.raw
    header = lines[0]
    if fn.kind == 'fn':
        # args
        i = header.index('(', header.index(fn.name) + len(fn.name))
        j = find_matching(header, i)
        args = split_top(header[i + 1:j])
        fn.nargs = 0
        for a in args:
            if not a:
                continue
            m = re.match(r'^_(\d+): (.*)$', a)
            if not m:
                raise ParseError('arg ' + a)
            fn.local_types[int(m.group(1))] = m.group(2)
            fn.arg_types.append(m.group(2))
            fn.nargs += 1
        rest = header[j + 1:].strip()
        if rest.startswith('->'):
            fn.ret_type = rest[2:].rstrip('{').strip()
        else:
            fn.ret_type = '()'
    else:
        fn.nargs = 0
    cur = None
    k = 1
    n = len(lines)
    while k < n:
        ln = lines[k]
        k += 1
        if not ln.strip():
            continue
        m = BB_RE.match(ln)
        if m:
            cur = Block()
            cur.cleanup = bool(m.group(2))
            fn.blocks[int(m.group(1))] = cur
            body = []
            while k < n and lines[k] != '    }':
                body.append(lines[k])
                k += 1
            k += 1
            # statements may span multiple lines only for string consts with newlines (escaped), so 1 line each
            for t in body:
                t = t.strip()
                if not t:
                    continue
                if t.endswith(';'):
                    t = t[:-1]
                cur.stmts.append(t)
            if cur.stmts:
                cur.term = cur.stmts.pop()
            continue
        m = LET_RE.match(ln)
        if m:
            fn.local_types[int(m.group(1))] = m.group(2)
            continue
        s = ln.strip()
        if s.startswith('debug '):
            m2 = re.match(r'^debug (\S+) => (.*);$', s)
            if m2:
                fn.debug[m2.group(1)] = m2.group(2)
            continue
    # now parse statements/terminators (only non-cleanup blocks are executed)
    for bid, b in fn.blocks.items():
        if b.cleanup:
            b.stmts = []
            b.term = Term('cleanup', b.term)
            continue
        b.stmts = [parse_stmt(t) for t in b.stmts]
        b.term = parse_term(b.term)


def parse_stmt(t):
    if t.startswith('StorageLive(') or t.startswith('StorageDead(') or t in ('nop', 'ConstEvalCounter') \
            or t.startswith('FakeRead(') or t.startswith('PlaceMention(') or t.startswith('AscribeUserType(') \
            or t.startswith('Coverage::') or t.startswith('Retag(') or t.startswith('Deinit(') \
            or t.startswith('BackwardIncompatibleDropHint('):
        return Stmt('nop', text=t)
    if t.startswith('assume('):
        return Stmt('nop', text=t)
    if t.startswith('discriminant('):
        # discriminant(PLACE) = N
        j = find_matching(t, len('discriminant'))
        pl = parse_place(t[len('discriminant('):j])
        val = int(t[j + 1:].strip().lstrip('=').strip())
        return Stmt('setdiscr', place=pl, rv=val, text=t)
    # PLACE = RVALUE
    eq = _find_assign(t)
    if eq < 0:
        raise ParseError('stmt: ' + t)
    pl = parse_place(t[:eq].strip())
    rv = parse_rvalue(t[eq + 3:].strip())
    return Stmt('assign', place=pl, rv=rv, text=t)


def _find_assign(t):
    depth = 0
    i = 0
    n = len(t)
    while i < n - 2:
        c = t[i]
        if c in '([{<':
            depth += 1
        elif c in ')]}':
            depth -= 1
        elif c == '>' and t[i - 1] != '-':
            depth -= 1
        elif c == '"' or (c == "'" and _is_char_lit(t, i)):
            i = _skip_quote(t, i)
            continue
        if depth == 0 and t[i:i + 3] == ' = ':
            return i
        i += 1
    return -1


PLACE_LOCAL = re.compile(r'^_(\d+)$')


def parse_place(s):
    s = s.strip()
    m = PLACE_LOCAL.match(s)
    if m:
        return Place(int(m.group(1)))
    # index / subslice suffix:  X[_3]  X[2 of 4]  X[1..3]  X[-1 of 3]
    if s.endswith(']'):
        # find matching '[' from the end
        depth = 0
        i = len(s) - 1
        while i >= 0:
            if s[i] == ']':
                depth += 1
            elif s[i] == '[':
                depth -= 1
                if depth == 0:
                    break
            i -= 1
        base = parse_place(s[:i])
        inner = s[i + 1:-1].strip()
        m = PLACE_LOCAL.match(inner)
        if m:
            return Place(base.local, base.proj + (('index', int(m.group(1))),))
        m = re.match(r'^(-?)(\d+) of (\d+)$', inner)
        if m:
            return Place(base.local, base.proj + (('constindex', int(m.group(2)), m.group(1) == '-'),))
        m = re.match(r'^(\d+):(-?)(\d*)$', inner) or re.match(r'^(\d+)\.\.(-?)(\d*)$', inner)
        if m:
            return Place(base.local, base.proj + (('subslice', int(m.group(1)), int(m.group(3) or 0), m.group(2) == '-'),))
        raise ParseError('place index: ' + s)
    if s.startswith('(') and s.endswith(')'):
        inner = s[1:-1].strip()
        if inner.startswith('*'):
            base = parse_place(inner[1:])
            return Place(base.local, base.proj + (('deref',),))
        # (BASE as Variant)   or   (BASE.N: TYPE)
        # find top-level ' as ' or '.N: '
        depth = 0
        i = 0
        n = len(inner)
        last_dot = -1
        as_pos = -1
        while i < n:
            c = inner[i]
            if c in '([{<':
                depth += 1
            elif c in ')]}':
                depth -= 1
            elif c == '>' and inner[i - 1] != '-':
                depth -= 1
            elif depth == 0 and c == '.' and last_dot < 0 and as_pos < 0:
                # field projection begins; base is everything before
                m = re.match(r'^\.(\d+): ', inner[i:])
                if m:
                    last_dot = i
                    break
            elif depth == 0 and inner[i:i + 4] == ' as ' and as_pos < 0:
                as_pos = i
                break
            i += 1
        if last_dot >= 0:
            base = parse_place(inner[:last_dot])
            m = re.match(r'^\.(\d+): (.*)$', inner[last_dot:], re.S)
            return Place(base.local, base.proj + (('field', int(m.group(1)), m.group(2)),))
        if as_pos >= 0:
            base = parse_place(inner[:as_pos])
            return Place(base.local, base.proj + (('downcast', inner[as_pos + 4:].strip()),))
        return parse_place(inner)
    raise ParseError('place: ' + s)


BINOPS = {'Add', 'Sub', 'Mul', 'Div', 'Rem', 'BitXor', 'BitAnd', 'BitOr', 'Shl', 'Shr', 'Eq', 'Lt', 'Le', 'Ne',
          'Ge', 'Gt', 'Cmp', 'Offset', 'AddWithOverflow', 'SubWithOverflow', 'MulWithOverflow',
          'AddUnchecked', 'SubUnchecked', 'MulUnchecked', 'ShlUnchecked', 'ShrUnchecked'}
UNOPS = {'Not', 'Neg', 'PtrMetadata'}


def parse_operand(s):
    s = s.strip()
    if s.startswith('copy '):
        return Operand('copy', parse_place(s[5:]))
    if s.startswith('move '):
        return Operand('move', parse_place(s[5:]))
    if s.startswith('no_retag '):
        return parse_operand(s[9:])
    if s.startswith('const '):
        return Operand('const', const=parse_const(s[6:].strip()))
    # bare fn item (zero-sized function value), printed without `const`
    return Operand('const', const=Const(s, 'path', s))


INT_CONST = re.compile(r'^(-?\d+)_(u8|u16|u32|u64|u128|usize|i8|i16|i32|i64|i128|isize)$')
FLOAT_CONST = re.compile(r'^(-?[0-9.eE+\-]+|-?inf|NaN)(f32|f64)$')


def unescape_rust(body, is_bytes=False):
    out = []
    i = 0
    n = len(body)
    while i < n:
        c = body[i]
        if c != '\\':
            out.append(ord(c))
            i += 1
            continue
        d = body[i + 1]
        if d == 'n':
            out.append(10); i += 2
        elif d == 't':
            out.append(9); i += 2
        elif d == 'r':
            out.append(13); i += 2
        elif d == '0':
            out.append(0); i += 2
        elif d == '\\':
            out.append(92); i += 2
        elif d == '"':
            out.append(34); i += 2
        elif d == "'":
            out.append(39); i += 2
        elif d == 'x':
            out.append(int(body[i + 2:i + 4], 16)); i += 4
        elif d == 'u':
            j = body.index('}', i)
            out.append(int(body[i + 3:j], 16)); i = j + 1
        else:
            raise ParseError('escape ' + body[i:i + 6])
    return out


def parse_const(s):
    m = INT_CONST.match(s)
    if m:
        return Const(s, 'int', int(m.group(1)), m.group(2))
    if s == 'true':
        return Const(s, 'bool', True)
    if s == 'false':
        return Const(s, 'bool', False)
    if s == '()':
        return Const(s, 'unit', None)
    m = FLOAT_CONST.match(s)
    if m:
        return Const(s, 'float', float(m.group(1).replace('NaN', 'nan')), m.group(2))
    if s.startswith('"'):
        j = _skip_quote(s, 0)
        return Const(s, 'str', unescape_rust(s[1:j - 1]))
    if s.startswith('b"'):
        j = _skip_quote(s, 1)
        return Const(s, 'bytes', unescape_rust(s[2:j - 1], True))
    if s.startswith("'") and _is_char_lit(s, 0):
        j = _skip_quote(s, 0)
        v = unescape_rust(s[1:j - 1])
        return Const(s, 'char', v[0])
    if s.startswith("b'"):
        j = _skip_quote(s, 1)
        v = unescape_rust(s[2:j - 1])
        return Const(s, 'int', v[0], 'u8')
    return Const(s, 'path', s)


def parse_rvalue(s):
    s = s.strip()
    if s.startswith('copy ') or s.startswith('move ') or s.startswith('no_retag '):
        # may be a cast:  move _5 as u32 (IntToInt)
        c = _find_cast(s)
        if c:
            return c
        return Rvalue('use', parse_operand(s))
    if s.startswith('const '):
        c = _find_cast(s)
        if c:
            return c
        return Rvalue('use', parse_operand(s))
    if s.startswith('&raw const (fake) '):
        # address taken only for the borrow checker (match guards / pointer comparisons in the lowering)
        return Rvalue('ref', 'raw', parse_place(s[len('&raw const (fake) '):]))
    if s.startswith('&raw const '):
        return Rvalue('ref', 'raw', parse_place(s[len('&raw const '):]))
    if s.startswith('&raw mut '):
        return Rvalue('ref', 'raw', parse_place(s[len('&raw mut '):]))
    if s.startswith('&mut '):
        return Rvalue('ref', 'mut', parse_place(s[5:]))
    if s.startswith('&fake shallow '):
        return Rvalue('ref', 'shared', parse_place(s[len('&fake shallow '):]))
    if s.startswith('&') and not s.startswith('&&'):
        return Rvalue('ref', 'shared', parse_place(s[1:]))
    m = re.match(r'^([A-Za-z]+)\(', s)
    if m and s.endswith(')'):
        name = m.group(1)
        j = find_matching(s, len(name))
        if j == len(s) - 1:
            inner = s[len(name) + 1:-1]
            if name in BINOPS:
                a, b = split_top(inner)
                return Rvalue('binop', name, parse_operand(a), parse_operand(b))
            if name in UNOPS:
                return Rvalue('unop', name, parse_operand(inner))
            if name == 'discriminant':
                return Rvalue('discriminant', parse_place(inner))
            if name == 'Len':
                return Rvalue('len', parse_place(inner))
            if name == 'CopyForDeref':
                return Rvalue('use', Operand('copy', parse_place(inner)))
            if name in ('SizeOf', 'AlignOf'):
                return Rvalue('nullop', name, inner)
            if name == 'ShallowInitBox':
                a, b = split_top(inner)
                return Rvalue('shallowbox', parse_operand(a), b)
    if s.startswith('('):
        j = find_matching(s, 0)
        if j == len(s) - 1:
            inner = s[1:-1].strip()
            parts = split_top(inner) if inner else []
            if inner.endswith(','):
                parts = parts[:-1]
            return Rvalue('tuple', [parse_operand(p) for p in parts if p])
    if s.startswith('['):
        j = find_matching(s, 0)
        if j == len(s) - 1:
            inner = s[1:-1].strip()
            semi = split_top(inner, ';')
            if len(semi) == 2:
                return Rvalue('repeat', parse_operand(semi[0]), semi[1].strip())
            parts = split_top(inner) if inner else []
            return Rvalue('array', [parse_operand(p) for p in parts if p])
    if s.startswith('{closure@') or s.startswith('{coroutine@'):
        j = find_matching(s, 0)
        cty = s[:j + 1]
        rest = s[j + 1:].strip()
        caps = []
        if rest:
            if not (rest.startswith('{') and rest.endswith('}')):
                raise ParseError('closure agg: ' + s)
            for p in split_top(rest[1:-1].strip()):
                if not p:
                    continue
                k = p.index(': ')
                caps.append((p[:k].strip(), parse_operand(p[k + 2:])))
        return Rvalue('closure', cty, caps)
    # aggregate: Path { f: op, .. } | Path(op, ..) | Path  (unit variant / unit struct)
    agg = _parse_adt_aggregate(s)
    if agg is not None:
        return agg
    raise ParseError('rvalue: ' + s)


def _find_cast(s):
    # OPERAND as TYPE (Kind)
    if not s.endswith(')'):
        return None
    # find last top-level '(' which opens the cast kind
    depth = 0
    i = len(s) - 1
    while i >= 0:
        c = s[i]
        if c == ')':
            depth += 1
        elif c == '(':
            depth -= 1
            if depth == 0:
                break
        i -= 1
    kind = s[i + 1:-1]
    head = s[:i].rstrip()
    if not re.match(r'^[A-Za-z]+(\(.*\))?$', kind):
        return None
    # find top-level ' as ' in head (first after operand)
    depth = 0
    k = 0
    n = len(head)
    pos = -1
    while k < n:
        c = head[k]
        if c in '([{<':
            depth += 1
        elif c in ')]}':
            depth -= 1
        elif c == '>' and head[k - 1] != '-':
            depth -= 1
        elif c == '"' or (c == "'" and _is_char_lit(head, k)):
            k = _skip_quote(head, k)
            continue
        if depth == 0 and head[k:k + 4] == ' as ':
            pos = k
            break
        k += 1
    if pos < 0:
        return None
    try:
        op = parse_operand(head[:pos])
    except ParseError:
        return None
    return Rvalue('cast', op, head[pos + 4:].strip(), kind)


def _parse_adt_aggregate(s):
    # strip a trailing brace/paren group at top level
    if s.endswith('}'):
        # find the '{' that matches the final '}' -- but path itself may contain {closure@..} generics
        depth = 0
        i = len(s) - 1
        while i >= 0:
            c = s[i]
            if c in ')]}':
                depth += 1
            elif c == '>' and s[i - 1] != '-':
                depth += 1
            elif c in '([{<':
                depth -= 1
                if depth == 0:
                    break
            i -= 1
        if s[i] == '{' and i > 0 and s[i - 1] == ' ':
            path = s[:i].strip()
            inner = s[i + 1:-1].strip()
            fields = []
            for p in split_top(inner):
                if not p:
                    continue
                k = p.index(': ')
                fields.append((p[:k].strip(), parse_operand(p[k + 2:])))
            return Rvalue('adt', path, fields, True)
    if s.endswith(')'):
        depth = 0
        i = len(s) - 1
        while i >= 0:
            c = s[i]
            if c in ')]}':
                depth += 1
            elif c == '>' and s[i - 1] != '-':
                depth += 1
            elif c in '([{<':
                depth -= 1
                if depth == 0:
                    break
            i -= 1
        if s[i] == '(' and i > 0:
            path = s[:i].strip()
            inner = s[i + 1:-1].strip()
            fields = [(str(n), parse_operand(p)) for n, p in enumerate(split_top(inner)) if p]
            return Rvalue('adt', path, fields, False)
    if re.match(r'^[A-Za-z_<]', s):
        return Rvalue('adt', s, [], False)
    return None


TARGET_RE = re.compile(r'bb(\d+)')


def parse_term(t):
    if t is None:
        raise ParseError('empty block')
    if t == 'return':
        return Term('return', t)
    if t == 'resume':
        return Term('resume', t)
    if t == 'unreachable':
        return Term('unreachable', t)
    if t.startswith('goto -> '):
        return Term('goto', t, target=int(t[len('goto -> bb'):]))
    if t.startswith('switchInt('):
        j = find_matching(t, len('switchInt'))
        op = parse_operand(t[len('switchInt('):j])
        rest = t[j + 1:].strip()
        assert rest.startswith('-> [')
        tg = rest[4:-1]
        targets = []
        otherwise = None
        for p in tg.split(','):
            k, v = p.strip().split(': ')
            b = int(v[2:])
            if k == 'otherwise':
                otherwise = b
            else:
                targets.append((int(k), b))
        return Term('switch', t, op=op, targets=targets, otherwise=otherwise)
    if t.startswith('drop('):
        j = find_matching(t, 4)
        pl = parse_place(t[5:j])
        m = re.search(r'return: bb(\d+)', t[j:])
        return Term('drop', t, place=pl, target=int(m.group(1)))
    if t.startswith('assert('):
        j = find_matching(t, 6)
        inner = split_top(t[7:j])
        cond = inner[0]
        expected = True
        if cond.startswith('!'):
            expected = False
            cond = cond[1:]
        m = re.search(r'success: bb(\d+)', t[j:])
        msg = inner[1] if len(inner) > 1 else ''
        return Term('assert', t, cond=parse_operand(cond), expected=expected, msg=msg, target=int(m.group(1)),
                    args=inner[2:])
    if t.startswith('falseEdge') or t.startswith('falseUnwind'):
        m = re.search(r'bb(\d+)', t)
        return Term('goto', t, target=int(m.group(1)))
    # call:  DEST = FUNC(ARGS) -> [return: bbN, unwind ..]   |  DEST = FUNC(ARGS) -> unwind continue
    arrow = t.rfind(' -> ')
    if arrow < 0:
        raise ParseError('term: ' + t)
    head = t[:arrow]
    tail = t[arrow + 4:]
    m = re.search(r'return: bb(\d+)', tail)
    target = int(m.group(1)) if m else None
    eq = _find_assign(head)
    if eq >= 0:
        dest = parse_place(head[:eq].strip())
        call = head[eq + 3:].strip()
    else:
        dest = None
        call = head.strip()
    if not call.endswith(')'):
        raise ParseError('call: ' + t)
    # find '(' matching last ')'
    depth = 0
    i = len(call) - 1
    in_q = False
    # scan forward to find the arg list start: the top-level '(' whose match is the final ')'
    i = _find_call_paren(call)
    func = call[:i].strip()
    args = [parse_operand(a) for a in split_top(call[i + 1:-1]) if a]
    if func.startswith('move ') or func.startswith('copy '):
        fop = parse_operand(func)
        return Term('call', t, func=None, fop=fop, args=args, dest=dest, target=target)
    if func.startswith('const '):
        func = func[6:]
    return Term('call', t, func=func, fop=None, args=args, dest=dest, target=target)


def _find_call_paren(call):
    depth = 0
    i = 0
    n = len(call)
    cand = -1
    while i < n:
        c = call[i]
        if c == '"' or (c == "'" and _is_char_lit(call, i)):
            i = _skip_quote(call, i)
            continue
        if c == 'b' and i + 1 < n and call[i + 1] == '"':
            i = _skip_quote(call, i + 1)
            continue
        if c == '(' and depth == 0:
            j = find_matching(call, i)
            if j == n - 1:
                return i
            i = j + 1
            continue
        if c in '[{<':
            depth += 1
        elif c in ']}':
            depth -= 1
        elif c == '>' and call[i - 1] != '-':
            depth -= 1
        i += 1
    raise ParseError('call paren: ' + call)


if __name__ == '__main__':
    import time
    t0 = time.time()
    p = Program(sys.argv[1])
    print(len(p.functions), 'bodies indexed in %.2fs' % (time.time() - t0))
    bad = 0
    t0 = time.time()
    for name in list(p.functions):
        try:
            p.get(name)
        except Exception as e:
            bad += 1
            if bad < 30:
                print('FAIL', name, type(e).__name__, str(e)[:300])
    print('parsed all in %.2fs, %d failures' % (time.time() - t0, bad))
