"""Environment models for text dependencies: unicode-segmentation (graphemes), unicode-normalization,
regex (the crate's fixed patterns).  Each is diff-tested against the real dependency by the replay binary."""
import z3
from values import *
from interp import model, MODELS
from models_core import as_str, substr, ListIter, char_is_whitespace, new_string_from, string_push_str

# ---------------------------------------------------------------- grapheme alphabet (Sigma_g)
# Code point ranges whose Grapheme_Cluster_Break class is uniform and known (Unicode 15/16).
# Everything else is outside the grapheme-mode claim.
G_CR = [(0x0D, 0x0D)]
G_LF = [(0x0A, 0x0A)]
G_CONTROL = [(0x00, 0x09), (0x0B, 0x0C), (0x0E, 0x1F), (0x7F, 0x9F), (0xAD, 0xAD), (0x200B, 0x200B),
             (0x2028, 0x2029)]
G_EXTEND = [(0x0300, 0x036F), (0xFE0F, 0xFE0F), (0x200C, 0x200C)]
G_ZWJ = [(0x200D, 0x200D)]
G_EXTPICT = [(0x1F600, 0x1F64F), (0x2764, 0x2764), (0x1F468, 0x1F469)]
G_OTHER = [(0x20, 0x7E), (0xA0, 0xA8), (0xAA, 0xAC), (0xAF, 0xFF), (0x0100, 0x02FF), (0x0400, 0x0482),
           (0x1680, 0x1680), (0x2000, 0x200A), (0x202F, 0x202F), (0x205F, 0x205F), (0x3000, 0x3000),
           (0x4E00, 0x9FFF), (0x1D400, 0x1D454)]
G_CLASSES = [('CR', G_CR), ('LF', G_LF), ('Control', G_CONTROL), ('Extend', G_EXTEND), ('ZWJ', G_ZWJ),
             ('ExtPict', G_EXTPICT), ('Other', G_OTHER)]


def in_ranges(c, ranges):
    if isinstance(c.v, int):
        return any(a <= c.v <= b for a, b in ranges)
    alts = []
    for a, b in ranges:
        alts.append(c.v == a if a == b else z3.And(z3.UGE(c.v, a), z3.ULE(c.v, b)))
    return z3.Or(*alts)


def in_sigma_g(c):
    allr = [r for _, rs in G_CLASSES for r in rs]
    return in_ranges(c, allr)


def gclass(ctx, c):
    key = ('g-concrete', c.v) if isinstance(c.v, int) else ('g-ast', c.v.get_id())
    k = ctx.width_cache.get(key)
    if k:
        return k[0]
    for name, rs in G_CLASSES:
        cond = in_ranges(c, rs) if isinstance(c.v, int) else ctx.char_pred('g' + name, c, lambda cc, rs=rs: in_ranges(cc, rs))
        if ctx.branch(cond):
            ctx.width_cache[key] = (name, c.v)
            return name
    raise Unsupported('character outside the grapheme-model alphabet')


def grapheme_clusters(ctx, chars):
    """Partition a char list into extended grapheme clusters (UAX #29 restricted to Sigma_g).
    Returns list of (start, end) char index pairs."""
    n = len(chars)
    if n == 0:
        return []
    cls = [gclass(ctx, c) for c in chars]
    bounds = [0]
    for i in range(1, n):
        p, q = cls[i - 1], cls[i]
        brk = True
        if p == 'CR' and q == 'LF':
            brk = False                      # GB3
        elif p in ('CR', 'LF', 'Control') or q in ('CR', 'LF', 'Control'):
            brk = True                       # GB4, GB5
        elif q in ('Extend', 'ZWJ'):
            brk = False                      # GB9
        elif q == 'ExtPict' and p == 'ZWJ':
            # GB11: ExtPict Extend* ZWJ x ExtPict
            j = i - 2
            while j >= 0 and cls[j] == 'Extend':
                j -= 1
            if j >= 0 and cls[j] == 'ExtPict':
                brk = False
        if brk:
            bounds.append(i)
    bounds.append(n)
    return [(bounds[k], bounds[k + 1]) for k in range(len(bounds) - 1)]


@model('UnicodeSegmentation::graphemes')
def _graphemes(ctx, args, ck):
    s = as_str(ctx, args[0])
    ext = args[1]
    if ext is not True:
        raise Unsupported('legacy grapheme clusters')
    cl = grapheme_clusters(ctx, s.chars())
    return ListIter([substr(s, a, b) for a, b in cl])


@model('UnicodeSegmentation::grapheme_indices')
def _grapheme_indices(ctx, args, ck):
    s = as_str(ctx, args[0])
    cl = grapheme_clusters(ctx, s.chars())
    out = []
    for a, b in cl:
        sub = substr(s, a, b)
        out.append(Tup([Int(sub.lo - s.lo, 'usize'), sub]))
    return ListIter(out)


# ---------------------------------------------------------------- unicode-normalization: identity on NFKC/NFC-stable text
import unicodedata


@model('UnicodeNormalization::nfkc', 'UnicodeNormalization::nfc', 'UnicodeNormalization::nfd',
       'UnicodeNormalization::nfkd')
def _normalize_iter(ctx, args, ck):
    from models_iter import drain_iter
    form = ck.name.upper()
    items = drain_iter(ctx, args[0])
    for c in items:
        if isinstance(c.v, int):
            if unicodedata.normalize(form, chr(c.v)) != chr(c.v):
                raise Unsupported('normalisation of a non-%s-stable character U+%04X' % (form, c.v))
        elif not ctx.must(z3.ULT(c.v, 0x80)):
            raise Unsupported('normalisation of a symbolic non-ASCII character')
    # stable single characters: a sequence can still compose (base + combining mark) - only for non-ASCII marks
    for c in items:
        if isinstance(c.v, int) and unicodedata.combining(chr(c.v)):
            raise Unsupported('normalisation of combining marks is outside the model')
    return ListIter(items)
