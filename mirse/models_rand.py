"""Environment models of rand / rand_chacha / rand_distr: every draw is a fresh solver variable in the documented
range, i.e. every stream (a superset of every seed).  Draws from a generator that was not created from a seed
(from_os_rng, thread rng) are counted separately (ctx.unseeded_draws) for the determinism claims."""
import z3
from values import *
from interp import model, MODELS
from models_core import turbofish, as_slice, to_usize
from resolve import type_head


class RngObj:
    __slots__ = ('kind', 'seed', 'count')

    def __init__(self, kind, seed=None):
        self.kind = kind
        self.seed = seed
        self.count = 0

    def __repr__(self):
        return 'Rng(%s)' % self.kind


def note_draw(ctx, rng, what, value):
    r = ctx.m.peel(rng)
    n = getattr(ctx, 'rng_draws', 0)
    ctx.rng_draws = n + 1
    if not isinstance(r, RngObj) or r.kind != 'seeded':
        ctx.unseeded_draws = getattr(ctx, 'unseeded_draws', 0) + 1
    ctx.inputs['draw_%d_%s' % (n, what)] = value


@model('SeedableRng::seed_from_u64')
def _seed_from_u64(ctx, args, ck):
    if not hasattr(ctx, 'rng_seed_terms'):
        ctx.rng_seed_terms = []
    ctx.rng_seed_terms.append(args[0])
    return RngObj('seeded', args[0])


@model('SeedableRng::from_os_rng', 'SeedableRng::from_entropy', 'rand::rng', 'rand::thread_rng', 'rngs::thread::rng', 'rng', 'thread_rng')
def _from_os_rng(ctx, args, ck):
    return RngObj('os')


@model('SeedableRng::from_seed', 'SeedableRng::from_rng')
def _from_seed(ctx, args, ck):
    return RngObj('seeded', args[0] if args else None)


@model('Clone::clone#rng')
def _unused(ctx, args, ck):
    return args[0]


@model('Rng::random_range', 'Rng::gen_range')
def _random_range(ctx, args, ck):
    r = ctx.m.peel(args[1])
    if not isinstance(r, Struct) or r.ty not in ('Range', 'RangeInclusive'):
        raise Unsupported('random_range over %r' % (r,))
    lo, hi = r.fields[0], r.fields[1]
    if isinstance(lo, FP):
        x = ctx.fresh_fp('draw', lo.ty)
        ctx.assume(ctx.m.conj([ctx.m.fp_binop('Ge', x, lo), ctx.m.fp_binop('Lt' if r.ty == 'Range' else 'Le', x, hi)]))
        note_draw(ctx, args[0], 'range_f', x)
        return x
    empty = ctx.m.int_binop('Ge' if r.ty == 'Range' else 'Gt', lo, hi)
    if ctx.branch(empty):
        raise RustPanic('cannot sample empty range', 'rand')
    x = ctx.fresh_int('draw', lo.ty)
    ctx.solver.add(ctx.m.int_binop('Ge', x, lo) if not isinstance(ctx.m.int_binop('Ge', x, lo), bool) else z3.BoolVal(True))
    up = ctx.m.int_binop('Lt' if r.ty == 'Range' else 'Le', x, hi)
    ctx.solver.add(up)
    note_draw(ctx, args[0], 'range', x)
    return x


@model('Rng::random', 'Rng::gen')
def _random(ctx, args, ck):
    t = turbofish(ck.raw, 'random') or turbofish(ck.raw, 'gen')
    ty = type_head(t[0]) if t else 'f64'
    if ty in ('f64', 'f32'):
        x = ctx.fresh_fp('draw', ty)
        ctx.solver.add(z3.fpGEQ(x.v, z3.FPVal(0.0, x.sort())), z3.fpLT(x.v, z3.FPVal(1.0, x.sort())))
        note_draw(ctx, args[0], 'unit_f', x)
        return x
    if ty == 'bool':
        b = ctx.fresh_bool('draw')
        note_draw(ctx, args[0], 'bool', b)
        return b
    if ty in INT_BITS:
        x = ctx.fresh_int('draw', ty)
        note_draw(ctx, args[0], 'int', x)
        return x
    raise Unsupported('Rng::random::<%s>' % ty)


@model('Rng::random_bool', 'Rng::gen_bool')
def _random_bool(ctx, args, ck):
    p = args[1]
    bad = ctx.m.disj([ctx.m.fp_binop('Lt', p, FP(0.0, 'f64')), ctx.m.fp_binop('Gt', p, FP(1.0, 'f64')),
                      z3.fpIsNaN(p.v) if p.sym() else (p.v != p.v)])
    if ctx.branch(bad):
        raise RustPanic('p is outside range [0.0, 1.0]', 'rand')
    if ctx.branch(ctx.m.fp_binop('Eq', p, FP(0.0, 'f64'))):
        return False
    if ctx.branch(ctx.m.fp_binop('Eq', p, FP(1.0, 'f64'))):
        return True
    b = ctx.fresh_bool('draw')
    note_draw(ctx, args[0], 'bool', b)
    return b


class WeightedIndexObj:
    __slots__ = ('weights',)

    def __init__(self, weights):
        self.weights = weights


@model('WeightedIndex::new')
def _weighted_new(ctx, args, ck):
    from models_iter import drain_iter, into_iter_value
    ws = [ctx.m.peel(w) for w in drain_iter(ctx, into_iter_value(ctx, args[0]))]
    if not ws:
        return Err(Opaque('WeightError::InvalidInput'))
    total_pos = False
    for w in ws:
        if isinstance(w, FP):
            neg = ctx.m.disj([ctx.m.fp_binop('Lt', w, FP(0.0, w.ty)), z3.fpIsNaN(w.v) if w.sym() else (w.v != w.v)])
            if ctx.branch(neg):
                return Err(Opaque('WeightError::InvalidWeight'))
            if ctx.branch(ctx.m.fp_binop('Gt', w, FP(0.0, w.ty))):
                total_pos = True
        else:
            if ctx.branch(ctx.m.int_binop('Gt', w, Int(0, w.ty))):
                total_pos = True
    if not total_pos:
        return Err(Opaque('WeightError::InsufficientNonZero'))
    return Ok(WeightedIndexObj(ws))


def sample_weighted(ctx, rng, dist):
    n = len(dist.weights)
    # any index with positive weight
    cands = []
    for i, w in enumerate(dist.weights):
        pos = ctx.m.fp_binop('Gt', w, FP(0.0, w.ty)) if isinstance(w, FP) else ctx.m.int_binop('Gt', w, Int(0, w.ty))
        if ctx.branch(pos):
            cands.append(i)
    # a generator is a function of its seed: when the harness asks for it (machine.rng_replay_streams), the k-th
    # weighted draw of two generators created from the identical seed term over the identical candidates is the same
    r = ctx.m.peel(rng)
    key = None
    if getattr(ctx.m, 'rng_replay_streams', False) and isinstance(r, RngObj) and r.kind == 'seeded' and r.seed is not None:
        sd = r.seed.v if isinstance(r.seed, Int) else r.seed
        key = (sd if isinstance(sd, int) else sd.sexpr(), r.count, tuple(cands))
        r.count += 1
        memo = getattr(ctx, 'rng_stream_memo', None)
        if memo is None:
            memo = ctx.rng_stream_memo = {}
        if key in memo:
            note_draw(ctx, rng, 'weighted', memo[key])
            return Int(memo[key], 'usize')
    k = ctx.choice(len(cands), 'weighted-sample')
    if key is not None:
        ctx.rng_stream_memo[key] = cands[k]
    note_draw(ctx, rng, 'weighted', cands[k])
    return Int(cands[k], 'usize')


@model('Rng::sample')
def _rng_sample(ctx, args, ck):
    d = ctx.m.peel(args[1])
    if isinstance(d, WeightedIndexObj):
        return sample_weighted(ctx, args[0], d)
    raise Unsupported('Rng::sample of %r' % (d,))


@model('Distribution::sample')
def _dist_sample(ctx, args, ck):
    d = ctx.m.peel(args[0])
    if isinstance(d, WeightedIndexObj):
        return sample_weighted(ctx, args[1], d)
    raise Unsupported('Distribution::sample of %r' % (d,))


@model('SliceRandom::shuffle')
def _shuffle(ctx, args, ck):
    s = as_slice(ctx, args[0])
    items = s.items()
    out = []
    perm = []
    idx = list(range(len(items)))
    while idx:
        k = ctx.choice(len(idx), 'shuffle')
        perm.append(idx.pop(k))
    s.cont[s.lo:s.hi] = [items[i] for i in perm]
    note_draw(ctx, args[1], 'shuffle', perm)
    return None


@model('IndexedRandom::choose', 'SliceRandom::choose')
def _choose(ctx, args, ck):
    s = as_slice(ctx, args[0])
    if len(s) == 0:
        return NONE()
    k = ctx.choice(len(s), 'choose')
    note_draw(ctx, args[1], 'choose', k)
    return Some(Ref(s.cont, s.lo + k))
