"""Run-time values of the MIR symbolic interpreter.

Integers / chars: Int(v, ty) with v a Python int (concrete) or a z3 bit-vector of the Rust width.
Booleans: Python bool or z3 BoolRef.  Floats: FP(v, ty) with Python float or z3 FP term.
Unit: None.  Aggregates carry a `.fields` list so that a memory location is always (list, index).
"""
import z3

INT_BITS = {'u8': 8, 'u16': 16, 'u32': 32, 'u64': 64, 'u128': 128, 'usize': 64,
            'i8': 8, 'i16': 16, 'i32': 32, 'i64': 64, 'i128': 128, 'isize': 64, 'char': 32}
SIGNED = {'i8', 'i16', 'i32', 'i64', 'i128', 'isize'}


class Unsupported(Exception):
    """Construct / callee outside the encoder: the check ends inconclusive (never an alarm)."""


class RustPanic(Exception):
    def __init__(self, msg, kind='panic'):
        Exception.__init__(self, msg)
        self.msg = msg
        self.kind = kind


class BoundExceeded(Exception):
    pass


class Infeasible(Exception):
    """Raised by assume() when the path condition becomes unsatisfiable."""


def is_sym(v):
    return isinstance(v, z3.ExprRef)


class Int:
    __slots__ = ('v', 'ty', 'w')

    def __init__(self, v, ty, w=None):
        self.v = v
        self.ty = ty
        self.w = w  # utf-8 width hint for chars

    @property
    def bits(self):
        return INT_BITS[self.ty]

    @property
    def signed(self):
        return self.ty in SIGNED

    def sym(self):
        return not isinstance(self.v, int)

    def z(self):
        if isinstance(self.v, int):
            return z3.BitVecVal(self.v, INT_BITS[self.ty])
        return self.v

    def __repr__(self):
        if isinstance(self.v, int):
            if self.ty == 'char':
                return 'char(%r)' % chr(self.v) if (self.v < 0xD800 or 0xE000 <= self.v < 0x110000) else 'char(0x%x)' % self.v
            return '%d_%s' % (self.v, self.ty)
        return '<%s:%s>' % (self.v, self.ty)


def mkint(v, ty):
    """Normalise a concrete python int into the range of ty (two's complement)."""
    bits = INT_BITS[ty]
    if isinstance(v, int):
        v &= (1 << bits) - 1
        if ty in SIGNED and v >= 1 << (bits - 1):
            v -= 1 << bits
        return Int(v, ty)
    return Int(v, ty)


def usize(v):
    return Int(v, 'usize')


class FP:
    __slots__ = ('v', 'ty')

    def __init__(self, v, ty):
        self.v = v
        self.ty = ty

    def sym(self):
        return not isinstance(self.v, float)

    def sort(self):
        return z3.Float64() if self.ty == 'f64' else z3.Float32()

    def z(self):
        if isinstance(self.v, float):
            return z3.FPVal(self.v, self.sort())
        return self.v

    def __repr__(self):
        return '%r_%s' % (self.v, self.ty)


class Tup:
    __slots__ = ('fields',)

    def __init__(self, fields):
        self.fields = list(fields)

    def __repr__(self):
        return '(' + ', '.join(map(repr, self.fields)) + ')'


class Arr:
    """Fixed-size array; also the backing store of Vec (VecObj.items is a python list)."""
    __slots__ = ('fields',)

    def __init__(self, fields):
        self.fields = list(fields)

    def __repr__(self):
        return '[' + ', '.join(map(repr, self.fields)) + ']'


class Struct:
    __slots__ = ('ty', 'fields', 'names')

    def __init__(self, ty, fields, names=None):
        self.ty = ty
        self.fields = list(fields)
        self.names = names

    def get(self, name):
        return self.fields[self.names.index(name)]

    def set(self, name, v):
        self.fields[self.names.index(name)] = v

    def __repr__(self):
        if self.names:
            return '%s{%s}' % (self.ty, ', '.join('%s: %r' % (n, f) for n, f in zip(self.names, self.fields)))
        return '%s(%s)' % (self.ty, ', '.join(map(repr, self.fields)))


class Enum:
    __slots__ = ('ty', 'variant', 'idx', 'fields')

    def __init__(self, ty, variant, idx, fields=()):
        self.ty = ty
        self.variant = variant
        self.idx = idx
        self.fields = list(fields)

    def __repr__(self):
        if self.fields:
            return '%s::%s(%s)' % (self.ty, self.variant, ', '.join(map(repr, self.fields)))
        return '%s::%s' % (self.ty, self.variant)


def Some(v):
    return Enum('Option', 'Some', 1, [v])


def NONE():
    return Enum('Option', 'None', 0, [])


def Ok(v):
    return Enum('Result', 'Ok', 0, [v])


def Err(v):
    return Enum('Result', 'Err', 1, [v])


ORDERING = {'Less': -1, 'Equal': 0, 'Greater': 1}


def Ordering(name):
    return Enum('Ordering', name, ORDERING[name], [])


class Closure:
    __slots__ = ('fn', 'fields', 'cty')

    def __init__(self, fn, caps, cty):
        self.fn = fn
        self.fields = list(caps)
        self.cty = cty

    def __repr__(self):
        return 'Closure(%s)' % self.cty


class FnRef:
    """Function item / function pointer."""
    __slots__ = ('path',)

    def __init__(self, path):
        self.path = path

    def __repr__(self):
        return 'FnRef(%s)' % self.path


class CtorRef:
    """Tuple-variant / tuple-struct constructor used as a function value."""
    __slots__ = ('ty', 'variant', 'idx')

    def __init__(self, ty, variant, idx):
        self.ty = ty
        self.variant = variant
        self.idx = idx


class PyFn:
    """A callable supplied by the harness (stands for an arbitrary user closure)."""
    __slots__ = ('f', 'name')

    def __init__(self, f, name='pyfn'):
        self.f = f
        self.name = name


class Ref:
    """Thin reference / raw pointer / Box target: a location (container list, index)."""
    __slots__ = ('cont', 'key')

    def __init__(self, cont, key):
        self.cont = cont
        self.key = key

    def get(self):
        return self.cont[self.key]

    def set(self, v):
        self.cont[self.key] = v

    def __repr__(self):
        try:
            return '&%r' % (self.cont[self.key],)
        except Exception:
            return '&<dangling>'


def ref_to(v):
    """Reference to a fresh temporary holding v."""
    return Ref([v], 0)


class SliceRef:
    """Fat reference &[T] / &mut [T]: a window [lo, hi) of a python list."""
    __slots__ = ('cont', 'lo', 'hi')

    def __init__(self, cont, lo, hi):
        self.cont = cont
        self.lo = lo
        self.hi = hi

    def __len__(self):
        return self.hi - self.lo

    def items(self):
        return self.cont[self.lo:self.hi]

    def __repr__(self):
        return '&%r' % (self.cont[self.lo:self.hi],)


class StrBuf:
    """Backing store of a String / string literal: list of chars (Int ty=char) with concrete widths."""
    __slots__ = ('chars', 'widths', '_offs')

    def __init__(self, chars, widths):
        self.chars = list(chars)
        self.widths = list(widths)
        self._offs = None

    def offsets(self):
        if self._offs is None or len(self._offs) != len(self.widths) + 1:
            o = [0]
            for w in self.widths:
                o.append(o[-1] + w)
            self._offs = o
        return self._offs

    def dirty(self):
        self._offs = None

    def byte_len(self):
        return self.offsets()[-1]


class StrRef:
    """&str: byte window [lo, hi) of a StrBuf (always on char boundaries)."""
    __slots__ = ('buf', 'lo', 'hi')

    def __init__(self, buf, lo, hi):
        self.buf = buf
        self.lo = lo
        self.hi = hi

    def char_range(self):
        offs = self.buf.offsets()
        try:
            a = offs.index(self.lo)
            b = offs.index(self.hi, a)
        except ValueError:
            raise RustPanic('str slice not on char boundary')
        return a, b

    def chars(self):
        a, b = self.char_range()
        return self.buf.chars[a:b]

    def widths(self):
        a, b = self.char_range()
        return self.buf.widths[a:b]

    def byte_len(self):
        return self.hi - self.lo

    def concrete(self):
        cs = self.chars()
        if all(isinstance(c.v, int) for c in cs):
            return ''.join(chr(c.v) for c in cs)
        return None

    def __repr__(self):
        c = self.concrete()
        if c is not None:
            return 'str(%r)' % c
        return 'str<%s>' % (','.join(repr(c) for c in self.chars()))


class StringObj:
    """std::string::String"""
    __slots__ = ('buf',)

    def __init__(self, buf=None):
        self.buf = buf if buf is not None else StrBuf([], [])

    def as_str(self):
        return StrRef(self.buf, 0, self.buf.byte_len())

    def __repr__(self):
        return 'String' + repr(self.as_str())[3:]


class VecObj:
    __slots__ = ('items',)

    def __init__(self, items=None):
        self.items = items if items is not None else []

    def as_slice(self):
        return SliceRef(self.items, 0, len(self.items))

    def __repr__(self):
        return 'vec!' + repr(self.items)


class BoxObj:
    __slots__ = ('fields',)

    def __init__(self, v):
        self.fields = [v]

    def __repr__(self):
        return 'Box(%r)' % (self.fields[0],)


class ArcObj:
    __slots__ = ('fields',)

    def __init__(self, v):
        self.fields = [v]

    def __repr__(self):
        return 'Arc(%r)' % (self.fields[0],)


class MapObj:
    """HashMap / HashSet / BTreeMap / BTreeSet as association list (insertion order kept)."""
    __slots__ = ('entries', 'kind')

    def __init__(self, kind='HashMap', entries=None):
        self.kind = kind
        self.entries = entries if entries is not None else []  # list of [k, v]

    def __repr__(self):
        return '%s%r' % (self.kind, self.entries)


class HeapObj:
    """BinaryHeap: unordered list; pop selects the maximum by the Ord model."""
    __slots__ = ('items',)

    def __init__(self, items=None):
        self.items = items if items is not None else []


class Opaque:
    """A value we never look into (formatted messages, errors, progress bars, regex handles...)."""
    __slots__ = ('what', 'data')

    def __init__(self, what, data=None):
        self.what = what
        self.data = data

    def __repr__(self):
        return 'Opaque(%s)' % self.what


class Iter:
    """Base class for modelled iterators: subclasses implement nxt(ctx) -> value or STOP."""
    double_ended = False

    def nxt(self, ctx):
        raise NotImplementedError

    def nxt_back(self, ctx):
        raise Unsupported('next_back on ' + type(self).__name__)

    def size_hint(self, ctx):
        return None


class _Stop:
    def __repr__(self):
        return 'STOP'


STOP = _Stop()


def deep_copy(v):
    """Semantics of MIR `copy` for aggregates: duplicate the aggregate shell, not what refs point to."""
    if isinstance(v, (Int, FP, bool, Ref, SliceRef, StrRef, FnRef, PyFn, Opaque, CtorRef)) or v is None:
        return v
    if isinstance(v, z3.ExprRef):
        return v
    if isinstance(v, Tup):
        return Tup([deep_copy(f) for f in v.fields])
    if isinstance(v, Arr):
        return Arr([deep_copy(f) for f in v.fields])
    if isinstance(v, Struct):
        return Struct(v.ty, [deep_copy(f) for f in v.fields], v.names)
    if isinstance(v, Enum):
        return Enum(v.ty, v.variant, v.idx, [deep_copy(f) for f in v.fields])
    if isinstance(v, Closure):
        return Closure(v.fn, [deep_copy(f) for f in v.fields], v.cty)
    # owning containers are never `copy`d by MIR (not Copy); aliasing is what `move` means
    return v
