"""Name resolution: MIR call-site paths -> crate bodies or std-model keys."""
import os
import re
from mirparse import find_matching, split_top


def strip_generics(path):
    """Remove every `::<...>` group and lifetimes from a path."""
    out = []
    i = 0
    n = len(path)
    while i < n:
        if path[i:i + 3] == '::<':
            j = find_matching(path, i + 2)
            if path[i + 3:].startswith('impl ') and path[j + 1:j + 3] == '::':
                # `core::str::<impl str>::trim`: an impl segment, not a generic argument list
                out.append(path[i:j + 1])
                i = j + 1
                continue
            i = j + 1
            continue
        out.append(path[i])
        i += 1
    return ''.join(out)


def type_head(ty):
    """Head constructor of a type: `std::vec::Vec<T>` -> 'Vec', `&'a mut [T]` -> '[]', `&str` -> 'str'."""
    ty = ty.strip()
    while True:
        if ty.startswith('&'):
            ty = ty[1:].lstrip()
            m = re.match(r"^'[A-Za-z_0-9]+\s+", ty)
            if m:
                ty = ty[m.end():]
            if ty.startswith('mut '):
                ty = ty[4:]
            continue
        if ty.startswith('*const ') or ty.startswith('*mut '):
            ty = ty.split(' ', 1)[1]
            continue
        if ty.startswith('dyn '):
            ty = ty[4:]
            continue
        if ty.startswith('impl '):
            ty = ty[5:]
            continue
        break
    if ty.startswith('['):
        return '[]'
    if ty.startswith('('):
        return '()'
    if ty.startswith('{closure@'):
        return '{closure}'
    # cut generics
    k = ty.find('<')
    if k >= 0:
        ty = ty[:k]
    k = ty.find(' ')
    if k >= 0:
        ty = ty[:k]
    return ty.split('::')[-1]


class CallKey:
    """Normalised callee."""
    __slots__ = ('kind', 'selfty', 'trait', 'name', 'raw', 'segs', 'selfty_full')

    def __init__(self, kind, selfty, trait, name, raw, segs=None, selfty_full=None):
        self.kind = kind      # 'trait' | 'path'
        self.selfty = selfty  # head of self type (trait form / inherent)
        self.trait = trait
        self.name = name
        self.raw = raw
        self.segs = segs
        self.selfty_full = selfty_full

    def key(self):
        if self.kind == 'trait':
            return '%s::%s' % (self.trait, self.name)
        return '::'.join(self.segs[-2:]) if len(self.segs) >= 2 else self.segs[-1]

    def __repr__(self):
        return 'CallKey(%s)' % self.key()


_cache = {}


def parse_callee(func):
    ck = _cache.get(func)
    if ck is not None:
        return ck
    raw = func
    f = func.strip()
    if f.startswith('<'):
        j = find_matching(f, 0)
        inner = f[1:j]
        rest = f[j + 1:]
        # inner: TYPE as TRAIT   (top-level ' as ')
        depth = 0
        pos = -1
        i = 0
        n = len(inner)
        while i < n:
            c = inner[i]
            if c in '([{<':
                depth += 1
            elif c in ')]}':
                depth -= 1
            elif c == '>' and inner[i - 1] != '-':
                depth -= 1
            if depth == 0 and inner[i:i + 4] == ' as ':
                pos = i
            i += 1
        rest = strip_generics(rest)
        segs = [s for s in rest.split('::') if s]
        if pos >= 0:
            selfty = inner[:pos]
            trait = inner[pos + 4:]
            ck = CallKey('trait', type_head(selfty), type_head(trait), segs[0] if segs else '', raw,
                         segs, selfty)
            # e.g. <T as Trait>::CONST::{closure}
        else:
            # <Type>::method  (inherent on a complex type, e.g. <[T]>::len)
            ck = CallKey('path', type_head(inner), None, segs[-1], raw, [type_head(inner)] + segs, inner)
        _cache[func] = ck
        return ck
    f2 = strip_generics(f)
    # `core::str::<impl str>::trim`
    m = re.search(r'<impl ([^>]*(?:<[^>]*>)?[^>]*)>', f2)
    segs = []
    i = 0
    # split on '::' at top level
    depth = 0
    cur = []
    k = 0
    n = len(f2)
    while k < n:
        c = f2[k]
        if c in '<([{':
            depth += 1
        elif c in ')]}':
            depth -= 1
        elif c == '>' and f2[k - 1] != '-':
            depth -= 1
        if depth == 0 and f2[k:k + 2] == '::':
            segs.append(''.join(cur))
            cur = []
            k += 2
            continue
        cur.append(c)
        k += 1
    segs.append(''.join(cur))
    segs2 = []
    selfty_full = None
    for s in segs:
        if s.startswith('<impl '):
            inner = s[6:-1]
            if ' for ' in inner:
                inner = inner.split(' for ', 1)[1]
            selfty_full = inner
            segs2 = [type_head(inner)]
        else:
            segs2.append(s)
    ck = CallKey('path', segs2[-2] if len(segs2) >= 2 else None, None, segs2[-1], raw, segs2, selfty_full)
    _cache[func] = ck
    return ck


PRIMS = {'char', 'str', 'bool', 'u8', 'u16', 'u32', 'u64', 'u128', 'usize', 'i8', 'i16', 'i32', 'i64', 'i128',
         'isize', 'f32', 'f64', '[]', '()'}
IMPL_AT = re.compile(r'<impl at (src/[^:]+):(\d+):(\d+): (\d+):(\d+)>')


class Resolver:
    def __init__(self, program, repo_root):
        self.program = program
        self.repo = repo_root
        self.src_cache = {}
        self.inherent = {}   # (TypeHead, method) -> [Function]
        self.traitimpl = {}  # (TraitHead, method) -> [(selfty_head, selfty_full, Function)]
        self.free = {}       # name -> Function (free fns, statics, consts)
        self.impl_info = {}  # impl span text -> (trait_head|None, selfty_head, selfty_full)
        self.enums = {}      # enum name -> [variant names]
        self.impl_generics = {}
        self.variant_kind = {}   # (enum, variant) -> 'unit' | 'tuple' | 'struct'
        self.aliases = {}    # alias name -> (param names, rhs text)
        self._index_aliases()
        self._index()
        self._index_enums()

    def _index_aliases(self):
        srcdir = os.path.join(self.repo, 'src')
        for root, _, files in os.walk(srcdir):
            for fn in files:
                if not fn.endswith('.rs'):
                    continue
                txt = open(os.path.join(root, fn), encoding='utf-8').read()
                for m in re.finditer(r'^\s*(?:pub(?:\([a-z]+\))?\s+)?type\s+([A-Za-z_0-9]+)\s*(<[^=]*>)?\s*=\s*([^;]+);', txt, re.M):
                    params = []
                    if m.group(2):
                        params = [x.strip().split(':')[0].strip() for x in split_top(m.group(2)[1:-1]) if x.strip()]
                        params = [x for x in params if not x.startswith("'")]
                    self.aliases[m.group(1)] = (params, ' '.join(m.group(3).split()))

    def expand_type(self, ty, depth=0):
        """Expand crate type aliases at the head of a type (recursively)."""
        ty = ty.strip()
        if depth > 8:
            return ty
        m = re.match(r'^([A-Za-z_0-9:]+)\s*(<.*>)?$', ty, re.S)
        if not m:
            return ty
        head = m.group(1).split('::')[-1]
        if head not in self.aliases:
            return ty
        params, rhs = self.aliases[head]
        args = []
        if m.group(2):
            args = [a.strip() for a in split_top(m.group(2)[1:-1]) if a.strip() and not a.strip().startswith("'")]
        out = rhs
        for pn, a in zip(params, args):
            out = re.sub(r'\b%s\b' % re.escape(pn), a, out)
        return self.expand_type(out, depth + 1)

    @staticmethod
    def type_args(ty):
        """Generic arguments of a type text (lifetimes dropped)."""
        ty = ty.strip()
        k = ty.find('<')
        if k < 0 or not ty.endswith('>'):
            return []
        return [a.strip() for a in split_top(ty[k + 1:-1]) if a.strip() and not a.strip().startswith("'")]

    def bind_generics(self, impl_ty, call_ty, generics, env=None):
        """Bind the generic parameters of an impl's self type by matching it against a concrete type text."""
        env = {} if env is None else env
        it = self.expand_type(impl_ty.strip())
        ct = self.expand_type(call_ty.strip())
        it = re.sub(r"^&\s*('[a-z_0-9]+\s+)?(mut\s+)?", '', it)
        ct = re.sub(r"^&\s*('[a-z_0-9]+\s+)?(mut\s+)?", '', ct)
        if it in generics:
            env.setdefault(it, ct)
            return env
        if it.startswith('(') and ct.startswith('('):
            for a, b in zip(split_top(it[1:-1]), split_top(ct[1:-1])):
                if a.strip() and b.strip():
                    self.bind_generics(a, b, generics, env)
            return env
        for a, b in zip(self.type_args(it), self.type_args(ct)):
            self.bind_generics(a, b, generics, env)
        return env

    @staticmethod
    def unify_args(impl_args, generics, call_args):
        """Do the call-site generic arguments fit the impl's (generic parameters are wildcards)?"""
        norm = lambda t: re.sub(r'\s+', '', re.sub(r'(?:[a-z_0-9]+::)+', '', t))
        for ia, ca in zip(impl_args, call_args):
            if ia in generics:
                continue
            if norm(ia) != norm(ca):
                # structural: compare heads, recurse into args
                if type_head(ia) != type_head(ca):
                    return False
                if not Resolver.unify_args(Resolver.type_args(ia), generics, Resolver.type_args(ca)):
                    return False
        return True

    def _src(self, rel):
        if rel not in self.src_cache:
            with open(os.path.join(self.repo, rel), encoding='utf-8') as f:
                self.src_cache[rel] = f.read().split('\n')
        return self.src_cache[rel]

    def _impl_header(self, rel, l1, c1, l2, c2):
        lines = self._src(rel)
        if l1 == l2:
            return lines[l1 - 1][c1 - 1:c2 - 1]
        parts = [lines[l1 - 1][c1 - 1:]]
        for l in range(l1, l2 - 1):
            parts.append(lines[l])
        parts.append(lines[l2 - 1][:c2 - 1])
        return ' '.join(p.strip() for p in parts)

    def _index(self):
        for name, fn in self.program.functions.items():
            m = IMPL_AT.search(name)
            if not m:
                self.free[name] = fn
                continue
            span = m.group(0)
            if span not in self.impl_info:
                hdr = self._impl_header(m.group(1), int(m.group(2)), int(m.group(3)), int(m.group(4)),
                                        int(m.group(5)))
                if re.match(r'^(unsafe\s+)?impl\b', hdr.strip()):
                    self.impl_info[span] = self._parse_impl_header(hdr)
                    gm = re.match(r'^(?:unsafe\s+)?impl\s*<', hdr.strip())
                    gens = set()
                    if gm:
                        h2 = hdr.strip()
                        j = find_matching(h2, h2.index('<'))
                        for g in split_top(h2[h2.index('<') + 1:j]):
                            g = g.strip()
                            if g and not g.startswith("'"):
                                gens.add(g.split(':')[0].strip())
                    self.impl_generics[span] = gens
                else:
                    # #[derive(Trait)]: self type is the next struct/enum item
                    lines = self._src(m.group(1))
                    ty = None
                    for l in range(int(m.group(2)) - 1, min(len(lines), int(m.group(2)) + 40)):
                        dm = re.match(r'^\s*(?:pub(?:\([a-z]+\))?\s+)?(?:struct|enum|union)\s+([A-Za-z_0-9]+)', lines[l])
                        if dm:
                            ty = dm.group(1)
                            break
                    self.impl_info[span] = (type_head(hdr.strip()), ty, ty)
                    self.derived = getattr(self, 'derived', set())
                    self.derived.add(span)
            trait, shead, sfull = self.impl_info[span]
            rest = name[m.end():]
            segs = [s for s in rest.split('::') if s]
            if not segs:
                continue
            if len(segs) > 1:
                # nested item (closure, promoted, const inside) - reachable via other means
                continue
            meth = segs[0]
            fn.impl_trait = trait
            fn.impl_self = shead
            # expand type aliases of the self type (e.g. ByteTokenizer -> BaseTokenizer<ByteTokenizerConfig>)
            if sfull:
                ex = self.expand_type(sfull)
                if ex != sfull:
                    sfull = ex
                    shead = type_head(ex)
            fn.impl_self = shead
            fn.impl_self_full = sfull
            fn.impl_generics = self.impl_generics.get(span, set())
            if trait is None:
                self.inherent.setdefault((shead, meth), []).append(fn)
            else:
                self.traitimpl.setdefault((trait, meth), []).append((shead, sfull, fn))

    @staticmethod
    def _parse_impl_header(hdr):
        h = hdr.strip()
        assert h.startswith('impl') or h.startswith('unsafe impl'), h
        if h.startswith('unsafe '):
            h = h[7:]
        h = h[4:].lstrip()
        if h.startswith('<'):
            j = find_matching(h, 0)
            h = h[j + 1:].strip()
        # cut where clause / brace
        h = re.split(r'\s+where\s|\{', h)[0].strip()
        # top-level ' for '
        depth = 0
        pos = -1
        for i, c in enumerate(h):
            if c in '<([':
                depth += 1
            elif c in ')]':
                depth -= 1
            elif c == '>' and h[i - 1] != '-':
                depth -= 1
            if depth == 0 and h[i:i + 5] == ' for ':
                pos = i
                break
        if pos >= 0:
            return (type_head(h[:pos]), type_head(h[pos + 5:]), h[pos + 5:].strip())
        return (None, type_head(h), h)

    def _index_enums(self):
        srcdir = os.path.join(self.repo, 'src')
        for root, _, files in os.walk(srcdir):
            for fn in files:
                if not fn.endswith('.rs'):
                    continue
                txt = open(os.path.join(root, fn), encoding='utf-8').read()
                for m in re.finditer(r'\benum\s+([A-Za-z_0-9]+)\s*(<[^{]*>)?\s*(where[^{]*)?\{', txt):
                    name = m.group(1)
                    i = m.end() - 1
                    # match braces
                    depth = 0
                    j = i
                    while j < len(txt):
                        if txt[j] == '{':
                            depth += 1
                        elif txt[j] == '}':
                            depth -= 1
                            if depth == 0:
                                break
                        j += 1
                    body = txt[i + 1:j]
                    body = re.sub(r'//[^\n]*', '', body)
                    body = re.sub(r'#\[[^\]]*\]', '', body)
                    variants = []
                    for part in split_top(body):
                        part = part.strip()
                        if not part:
                            continue
                        vm = re.match(r'^([A-Za-z_0-9]+)\s*([({])?', part)
                        if vm:
                            variants.append(vm.group(1))
                            self.variant_kind[(name, vm.group(1))] = {'(': 'tuple', '{': 'struct'}.get(vm.group(2), 'unit')
                    mod = os.path.relpath(os.path.join(root, fn), srcdir)[:-3].replace('/', '::')
                    self.enums.setdefault(name, []).append((mod, variants))

    def enum_variants(self, path):
        """path like `whitespace::Operation` or `Operation` -> variant list."""
        segs = [s for s in strip_generics(path).split('::') if s]
        name = segs[-1]
        cands = self.enums.get(name)
        if not cands:
            return None
        if len(cands) == 1:
            return cands[0][1]
        if len(segs) >= 2:
            for mod, vs in cands:
                if mod.split('::')[-1] == segs[-2] or mod.endswith('::'.join(segs[:-1])):
                    return vs
        return None

    def resolve_path(self, ck):
        """Return crate Function for a 'path' callee or None."""
        segs = ck.segs
        if segs and (segs[0] in ('std', 'core', 'alloc', 'itertools', 'regex', 'rand', 'anyhow', 'pyo3', 'log',
                                 'rayon', 'serde', 'indicatif', 'numpy', 'unicode_segmentation',
                                 'unicode_normalization', 'rand_chacha', 'rand_distr', 'rmp_serde', 'serde_json')
                     or any(s in PRIMS for s in segs[:-1])):
            return None
        full = '::'.join(segs)
        fn = self.free.get(full)
        if fn is not None:
            return fn
        if len(segs) >= 2:
            c = self.inherent.get((segs[-2], segs[-1]))
            if c:
                if len(c) == 1:
                    return c[0]
                # several impl blocks of the same (alias-expanded) type: pick by the call's generic arguments
                m = re.search(r'\b%s::<' % re.escape(segs[-2]), ck.raw)
                if m:
                    i = m.end() - 1
                    j = find_matching(ck.raw, i)
                    cargs = [a.strip() for a in split_top(ck.raw[i + 1:j]) if a.strip() and not a.strip().startswith("'")]
                    good = [f for f in c if self.unify_args(self.type_args(f.impl_self_full or ''), f.impl_generics, cargs)]
                    # prefer the most specific impl (fewest wildcard arguments)
                    good.sort(key=lambda f: sum(1 for a in self.type_args(f.impl_self_full or '') if a in f.impl_generics))
                    if good:
                        return good[0]
                # disambiguate by module segment
                for f in c:
                    mod = f.name.split('::<impl')[0]
                    if len(segs) >= 3 and mod.split('::')[-1] == segs[-3]:
                        return f
                return c[0]
        # suffix match on free functions
        suffix = '::' + full
        c = [f for n, f in self.free.items() if n.endswith(suffix)]
        if len(c) == 1:
            return c[0]
        if len(segs) > 1:
            # call path may be longer than the printed body name (e.g. data::loading::foo vs loading::foo)
            for k in range(1, len(segs)):
                sub = '::'.join(segs[k:])
                fn = self.free.get(sub)
                if fn is not None and fn.kind in ('fn', 'const', 'static', 'promoted', 'constval'):
                    # only accept if the dropped prefix are module names (lowercase)
                    if all(s and (s[0].islower() or s[0] == '_') for s in segs[:k]):
                        return fn
        return None

    def trait_impls(self, trait, method):
        return self.traitimpl.get((trait, method), [])
