"""Models of the Iterator protocol: sources, lazy adaptors, consumers, itertools extras."""
import re
import z3
from values import *
from interp import model, MODELS
from resolve import type_head
from models_core import (as_str, as_slice, as_vec, new_string_from, string_push_str, to_usize, ListIter,
                         turbofish, checked_arith, val_max, val_min, range_next, range_next_back,
                         display_value)


class SliceIter(Iter):
    double_ended = True

    def __init__(self, cont, lo, hi):
        self.cont = cont
        self.i = lo
        self.j = hi

    def nxt(self, ctx):
        if self.i >= self.j:
            return STOP
        r = Ref(self.cont, self.i)
        self.i += 1
        return r

    def nxt_back(self, ctx):
        if self.i >= self.j:
            return STOP
        self.j -= 1
        return Ref(self.cont, self.j)

    def remaining(self):
        return self.j - self.i


def nxt(ctx, it):
    return ctx.m.iter_next(it)


def nth(ctx, it, n):
    """Iterator::nth as std's adaptors use it (Skip::next, StepBy::next, and through Enumerate / Take): an iterator type of the
    crate that overrides `nth` gets its own implementation called; everything else is n times next() and one more."""
    it0 = it
    it = ctx.m.peel(it)
    if isinstance(it, BoxObj):
        return nth(ctx, it.fields[0], n)
    if isinstance(it, Iter) and hasattr(it, 'nth_'):
        return it.nth_(ctx, n)
    if isinstance(it, Struct) and it.ty not in ('Range', 'RangeInclusive'):
        impls = [g for (sh, sf, g) in ctx.m.res.trait_impls('Iterator', 'nth') if sh == it.ty]
        if impls:
            r = ctx.m.call_fn(impls[0], [it0 if isinstance(it0, Ref) else ref_to(it), n])
            return STOP if r.variant == 'None' else r.fields[0]
    k = n
    while ctx.branch(ctx.m.int_binop('Gt', k, Int(0, 'usize'))):
        k = ctx.m.int_binop('Sub', k, Int(1, 'usize'))
        if nxt(ctx, it0) is STOP:
            return STOP
    return nxt(ctx, it0)


def nxt_back(ctx, it):
    it = ctx.m.peel(it)
    if isinstance(it, BoxObj):
        return nxt_back(ctx, it.fields[0])
    if isinstance(it, Iter):
        return it.nxt_back(ctx)
    if isinstance(it, Struct) and it.ty == 'Range':
        return range_next_back(ctx, it)
    raise Unsupported('next_back on ' + type(it).__name__)


def drain_iter(ctx, it):
    out = []
    while True:
        v = nxt(ctx, it)
        if v is STOP:
            return out
        out.append(v)


def into_iter_value(ctx, v):
    """IntoIterator::into_iter semantics by run-time type."""
    if isinstance(v, Iter):
        return v
    if isinstance(v, VecObj):
        return ListIter(v.items)
    if isinstance(v, Arr):
        return ListIter(v.fields)
    if isinstance(v, SliceRef):
        return SliceIter(v.cont, v.lo, v.hi)
    if isinstance(v, Struct):
        return v  # Range or a crate iterator
    if isinstance(v, MapObj):
        from models_coll import MapIter
        return MapIter(ctx, v, 'into' if v.kind in ('HashMap', 'BTreeMap') else 'into_keys')
    if isinstance(v, HeapObj):
        return ListIter(v.items)
    if isinstance(v, Enum) and v.ty == 'Option':
        return ListIter(v.fields[:1] if v.variant == 'Some' else [])
    if isinstance(v, BoxObj):
        inner = v.fields[0]
        if isinstance(inner, SliceRef):
            return ListIter(inner.items())
        return into_iter_value(ctx, inner)
    if isinstance(v, Ref):
        t = v.get()
        if isinstance(t, VecObj):
            return SliceIter(t.items, 0, len(t.items))
        if isinstance(t, Arr):
            return SliceIter(t.fields, 0, len(t.fields))
        if isinstance(t, MapObj):
            from models_coll import MapIter
            return MapIter(ctx, t, 'iter' if t.kind in ('HashMap', 'BTreeMap') else 'keys')
        if isinstance(t, (Iter, Struct)):
            return v  # &mut I is an iterator
        if isinstance(t, Enum) and t.ty == 'Option':
            return ListIter([Ref(t.fields, 0)] if t.variant == 'Some' else [])
        if isinstance(t, SliceRef):
            return SliceIter(t.cont, t.lo, t.hi)
    raise Unsupported('into_iter of ' + type(v).__name__)


@model('IntoIterator::into_iter')
def _into_iter(ctx, args, ck):
    return into_iter_value(ctx, args[0])


@model('Iterator::next')
def _next(ctx, args, ck):
    v = nxt(ctx, args[0])
    return NONE() if v is STOP else Some(v)


@model('DoubleEndedIterator::next_back')
def _next_back(ctx, args, ck):
    v = nxt_back(ctx, args[0])
    return NONE() if v is STOP else Some(v)


@model('Iterator::by_ref')
def _by_ref(ctx, args, ck):
    return args[0]


@model('Iterator::size_hint')
def _size_hint(ctx, args, ck):
    return Tup([Int(0, 'usize'), NONE()])


@model('ExactSizeIterator::len')
def _exact_len(ctx, args, ck):
    it = ctx.m.peel(args[0])
    n = iter_len(ctx, it)
    if n is None:
        raise Unsupported('ExactSizeIterator::len on ' + type(it).__name__)
    return n


def iter_len(ctx, it):
    it = ctx.m.peel(it)
    if isinstance(it, BoxObj):
        return iter_len(ctx, it.fields[0])
    if isinstance(it, (ListIter, SliceIter)):
        return Int(it.remaining(), 'usize')
    if isinstance(it, Struct) and it.ty == 'Range':
        s, e = it.fields
        if ctx.branch(ctx.m.int_binop('Lt', s, e)):
            return ctx.m.int_binop('Sub', e, s)
        return Int(0, s.ty)
    if isinstance(it, (MapI, EnumerateI, RevI, ClonedI)):
        return iter_len(ctx, it.inner)
    if isinstance(it, TakeI):
        ln = iter_len(ctx, it.inner)
        if ln is None:
            return None
        from models_core import val_min
        return val_min(ctx, ln, it.n)
    return None


# ---------------------------------------------------------------- adaptors

class MapI(Iter):
    def __init__(self, inner, f):
        self.inner = inner
        self.f = f

    def nxt(self, ctx):
        v = nxt(ctx, self.inner)
        if v is STOP:
            return STOP
        return ctx.m.call_value(self.f, [v])

    def nxt_back(self, ctx):
        v = nxt_back(ctx, self.inner)
        if v is STOP:
            return STOP
        return ctx.m.call_value(self.f, [v])


class FilterI(Iter):
    def __init__(self, inner, f):
        self.inner = inner
        self.f = f
        self.hashed = getattr(inner, 'hashed', False)   # a filtered hash iteration is still in arbitrary order

    def _step(self, ctx, get):
        while True:
            v = get(ctx, self.inner)
            if v is STOP:
                return STOP
            cell = [v]
            if ctx.branch(ctx.m.call_value(self.f, [Ref(cell, 0)])):
                return cell[0]

    def nxt(self, ctx):
        return self._step(ctx, nxt)

    def nxt_back(self, ctx):
        return self._step(ctx, nxt_back)


class FilterMapI(Iter):
    def __init__(self, inner, f):
        self.inner = inner
        self.f = f

    def _step(self, ctx, get):
        while True:
            v = get(ctx, self.inner)
            if v is STOP:
                return STOP
            r = ctx.m.call_value(self.f, [v])
            if r.variant == 'Some':
                return r.fields[0]

    def nxt(self, ctx):
        return self._step(ctx, nxt)

    def nxt_back(self, ctx):
        return self._step(ctx, nxt_back)


class EnumerateI(Iter):
    def __init__(self, inner):
        self.inner = inner
        self.n = Int(0, 'usize')

    def nxt(self, ctx):
        v = nxt(ctx, self.inner)
        if v is STOP:
            return STOP
        i = self.n
        self.n = checked_arith(ctx, 'Add', self.n, Int(1, 'usize'))
        return Tup([i, v])

    def nth_(self, ctx, n):
        v = nth(ctx, self.inner, n)
        if v is STOP:
            return STOP
        i = ctx.m.int_binop('Add', self.n, n)
        self.n = ctx.m.int_binop('Add', i, Int(1, 'usize'))
        return Tup([i, v])

    def nxt_back(self, ctx):
        ln = iter_len(ctx, self.inner)
        if ln is None:
            raise Unsupported('rev of enumerate over unsized iterator')
        v = nxt_back(ctx, self.inner)
        if v is STOP:
            return STOP
        # index = count + remaining_len (after removing the back element)
        ln2 = iter_len(ctx, self.inner)
        return Tup([ctx.m.int_binop('Add', self.n, ln2), v])


class ZipI(Iter):
    def __init__(self, a, b):
        self.a = a
        self.b = b

    def nxt(self, ctx):
        x = nxt(ctx, self.a)
        if x is STOP:
            return STOP
        y = nxt(ctx, self.b)
        if y is STOP:
            return STOP
        return Tup([x, y])


class RevI(Iter):
    def __init__(self, inner):
        self.inner = inner

    def nxt(self, ctx):
        return nxt_back(ctx, self.inner)

    def nxt_back(self, ctx):
        return nxt(ctx, self.inner)


class SkipI(Iter):
    def __init__(self, inner, n):
        self.inner = inner
        self.n = n

    def nxt(self, ctx):
        if self.n is not None:
            n, self.n = self.n, None
            if ctx.branch(ctx.m.int_binop('Gt', n, Int(0, 'usize'))):
                return nth(ctx, self.inner, n)           # std: self.iter.nth(take(&mut self.n))
        return nxt(ctx, self.inner)

    def nth_(self, ctx, n):
        # std Skip::nth: the pending skip and n go to the inner iterator in one nth call (two on overflow)
        if self.n is not None:
            k, self.n = self.n, None
            if ctx.branch(ctx.m.int_binop('Gt', k, Int(0, 'usize'))):
                tot = ctx.m.int_binop('Add', k, n)
                if ctx.branch(ctx.m.int_binop('Lt', tot, k)):        # k + n wrapped
                    if nth(ctx, self.inner, ctx.m.int_binop('Sub', k, Int(1, 'usize'))) is STOP:
                        return STOP
                    return nth(ctx, self.inner, n)
                return nth(ctx, self.inner, tot)
        return nth(ctx, self.inner, n)


class TakeI(Iter):
    def __init__(self, inner, n):
        self.inner = inner
        self.n = n

    def nxt(self, ctx):
        if ctx.branch(ctx.m.int_binop('Eq', self.n, Int(0, 'usize'))):
            return STOP
        self.n = ctx.m.int_binop('Sub', self.n, Int(1, 'usize'))
        return nxt(ctx, self.inner)

    def nth_(self, ctx, n):
        if ctx.branch(ctx.m.int_binop('Gt', self.n, n)):
            self.n = ctx.m.int_binop('Sub', self.n, ctx.m.int_binop('Add', n, Int(1, 'usize')))
            return nth(ctx, self.inner, n)
        if ctx.branch(ctx.m.int_binop('Gt', self.n, Int(0, 'usize'))):
            nth(ctx, self.inner, ctx.m.int_binop('Sub', self.n, Int(1, 'usize')))
            self.n = Int(0, 'usize')
        return STOP


def _take_nxt_back(self, ctx):
    if ctx.branch(ctx.m.int_binop('Eq', self.n, Int(0, 'usize'))):
        return STOP
    ln = iter_len(ctx, self.inner)
    if ln is None:
        raise Unsupported('rev of take over an iterator of unknown length')
    # drop the elements beyond the first n from the back
    while ctx.branch(ctx.m.int_binop('Gt', ln, self.n)):
        if nxt_back(ctx, self.inner) is STOP:
            return STOP
        ln = ctx.m.int_binop('Sub', ln, Int(1, 'usize'))
    v = nxt_back(ctx, self.inner)
    if v is STOP:
        return STOP
    self.n = ctx.m.int_binop('Sub', self.n, Int(1, 'usize'))
    return v


TakeI.nxt_back = _take_nxt_back


class StepByI(Iter):
    def __init__(self, inner, step):
        self.inner = inner
        self.step = step
        self.first = True

    def nxt(self, ctx):
        if self.first:
            self.first = False
            return nxt(ctx, self.inner)
        # skip step-1 elements, then yield (std: self.iter.nth(self.step_minus_one))
        return nth(ctx, self.inner, ctx.m.int_binop('Sub', self.step, Int(1, 'usize')))


class ScanI(Iter):
    def __init__(self, inner, state, f):
        self.inner = inner
        self.cell = [state]
        self.f = f
        self.done = False

    def nxt(self, ctx):
        if self.done:
            return STOP
        v = nxt(ctx, self.inner)
        if v is STOP:
            return STOP
        r = ctx.m.call_value(self.f, [Ref(self.cell, 0), v])
        if r.variant == 'None':
            self.done = True
            return STOP
        return r.fields[0]


class ChainI(Iter):
    def __init__(self, a, b):
        self.a = a
        self.b = b

    def nxt(self, ctx):
        if self.a is not None:
            v = nxt(ctx, self.a)
            if v is not STOP:
                return v
            self.a = None
        return nxt(ctx, self.b)

    def nxt_back(self, ctx):
        if self.b is not None:
            v = nxt_back(ctx, self.b)
            if v is not STOP:
                return v
            self.b = None
        if self.a is None:
            return STOP
        return nxt_back(ctx, self.a)


class FlattenI(Iter):
    def __init__(self, inner, f=None):
        self.inner = inner
        self.f = f
        self.cur = None

    def nxt(self, ctx):
        while True:
            if self.cur is not None:
                v = nxt(ctx, self.cur)
                if v is not STOP:
                    return v
                self.cur = None
            x = nxt(ctx, self.inner)
            if x is STOP:
                return STOP
            if self.f is not None:
                x = ctx.m.call_value(self.f, [x])
            self.cur = into_iter_value(ctx, x)


class PeekableI(Iter):
    def __init__(self, inner):
        self.inner = inner
        self.peeked = None  # None = nothing peeked; else [value or STOP]

    def nxt(self, ctx):
        if self.peeked is not None:
            v = self.peeked[0]
            self.peeked = None
            return v
        return nxt(ctx, self.inner)

    def peek(self, ctx):
        if self.peeked is None:
            self.peeked = [nxt(ctx, self.inner)]
        return self.peeked


class ClonedI(Iter):
    def __init__(self, inner):
        self.inner = inner

    def nxt(self, ctx):
        v = nxt(ctx, self.inner)
        if v is STOP:
            return STOP
        return ctx.m.clone(ctx.m.peel(v) if isinstance(v, Ref) else v)

    def nxt_back(self, ctx):
        v = nxt_back(ctx, self.inner)
        if v is STOP:
            return STOP
        return ctx.m.clone(ctx.m.peel(v) if isinstance(v, Ref) else v)


class TakeWhileI(Iter):
    def __init__(self, inner, f):
        self.inner = inner
        self.f = f
        self.done = False

    def nxt(self, ctx):
        if self.done:
            return STOP
        v = nxt(ctx, self.inner)
        if v is STOP:
            return STOP
        cell = [v]
        if ctx.branch(ctx.m.call_value(self.f, [Ref(cell, 0)])):
            return cell[0]
        self.done = True
        return STOP


class SkipWhileI(Iter):
    def __init__(self, inner, f):
        self.inner = inner
        self.f = f
        self.started = False

    def nxt(self, ctx):
        while True:
            v = nxt(ctx, self.inner)
            if v is STOP:
                return STOP
            if self.started:
                return v
            cell = [v]
            if not ctx.branch(ctx.m.call_value(self.f, [Ref(cell, 0)])):
                self.started = True
                return cell[0]


class InspectI(Iter):
    def __init__(self, inner, f):
        self.inner = inner
        self.f = f

    def nxt(self, ctx):
        v = nxt(ctx, self.inner)
        if v is STOP:
            return STOP
        cell = [v]
        ctx.m.call_value(self.f, [Ref(cell, 0)])
        return cell[0]


class CycleI(Iter):
    def __init__(self, ctx, inner):
        self.items = drain_iter(ctx, inner)
        self.i = 0

    def nxt(self, ctx):
        if not self.items:
            return STOP
        v = self.items[self.i % len(self.items)]
        self.i += 1
        return ctx.m.clone(v)


class RepeatI(Iter):
    def __init__(self, v):
        self.v = v

    def nxt(self, ctx):
        return ctx.m.clone(self.v)


def _adaptor(name, cls, nargs):
    def f(ctx, args, ck):
        return cls(*args[:nargs])
    MODELS['Iterator::' + name] = f


_adaptor('map', MapI, 2)
_adaptor('filter', FilterI, 2)
_adaptor('filter_map', FilterMapI, 2)
_adaptor('enumerate', EnumerateI, 1)
_adaptor('rev', RevI, 1)
_adaptor('skip', SkipI, 2)
_adaptor('take', TakeI, 2)
_adaptor('scan', ScanI, 3)
_adaptor('peekable', PeekableI, 1)
_adaptor('cloned', ClonedI, 1)
_adaptor('copied', ClonedI, 1)
_adaptor('take_while', TakeWhileI, 2)
_adaptor('skip_while', SkipWhileI, 2)
_adaptor('inspect', InspectI, 2)
_adaptor('fuse', lambda x: x, 1)


@model('Iterator::zip')
def _zip(ctx, args, ck):
    return ZipI(args[0], into_iter_value(ctx, args[1]))


@model('Iterator::chain')
def _chain(ctx, args, ck):
    return ChainI(args[0], into_iter_value(ctx, args[1]))


@model('Iterator::flatten')
def _flatten(ctx, args, ck):
    return FlattenI(args[0])


@model('Iterator::flat_map')
def _flat_map(ctx, args, ck):
    return FlattenI(args[0], args[1])


@model('Iterator::step_by')
def _step_by(ctx, args, ck):
    if ctx.branch(ctx.m.int_binop('Eq', args[1], Int(0, 'usize'))):
        raise RustPanic('assertion failed: step != 0', 'assert')
    return StepByI(args[0], args[1])


@model('Iterator::cycle')
def _cycle(ctx, args, ck):
    return CycleI(ctx, args[0])


@model('iter::repeat')
def _repeat(ctx, args, ck):
    return RepeatI(args[0])


@model('iter::once')
def _once(ctx, args, ck):
    return ListIter([args[0]])


@model('iter::empty')
def _empty(ctx, args, ck):
    return ListIter([])


@model('iter::zip')
def _iter_zip(ctx, args, ck):
    return ZipI(into_iter_value(ctx, args[0]), into_iter_value(ctx, args[1]))


@model('iter::repeat_n')
def _repeat_n(ctx, args, ck):
    n = to_usize(ctx, args[1])
    return ListIter([ctx.m.clone(args[0]) for _ in range(n)])


@model('Peekable::peek', 'Peekable::peek_mut')
def _peek(ctx, args, ck):
    p = ctx.m.peel(args[0])
    cell = p.peek(ctx)
    if cell[0] is STOP:
        return NONE()
    return Some(Ref(cell, 0))


@model('Peekable::next_if')
def _next_if(ctx, args, ck):
    p = ctx.m.peel(args[0])
    cell = p.peek(ctx)
    if cell[0] is STOP:
        return NONE()
    if ctx.branch(ctx.m.call_value(args[1], [Ref(cell, 0)])):
        return Some(p.nxt(ctx))
    return NONE()


# ---------------------------------------------------------------- consumers

def collect_into(ctx, it, tyfull):
    head = type_head(tyfull)
    if head == 'Vec' or head == 'Box' or head == 'VecDeque':
        items = drain_iter(ctx, it)
        v = VecObj(items)
        if head == 'Box':
            return BoxObj(v.as_slice())
        return v
    if head == 'String':
        out = StringObj()
        for x in drain_iter(ctx, it):
            px = ctx.m.peel(x)
            if isinstance(px, Int):
                out.buf.chars.append(px)
                out.buf.widths.append(ctx.char_width(px))
                out.buf.dirty()
            else:
                string_push_str(ctx, out, as_str(ctx, px))
        return out
    if head in ('HashMap', 'BTreeMap'):
        from models_coll import map_insert
        mp = MapObj(head)
        for x in drain_iter(ctx, it):
            map_insert(ctx, mp, x.fields[0], x.fields[1])
        return mp
    if head in ('HashSet', 'BTreeSet'):
        from models_coll import map_find
        mp = MapObj(head)
        for x in drain_iter(ctx, it):
            if map_find(ctx, mp, x) is None:
                mp.entries.append([x, None])
        return mp
    if head == 'BinaryHeap':
        return HeapObj(drain_iter(ctx, it))
    if head in ('Result', 'Option'):
        # Result<C, E>: stop at first Err
        inner = tyfull[tyfull.index('<') + 1:tyfull.rindex('>')]
        from mirparse import split_top
        cty = split_top(inner)[0]
        items = []
        while True:
            x = nxt(ctx, it)
            if x is STOP:
                break
            if x.variant in ('Err', 'None'):
                return x
            items.append(x.fields[0])
        r = collect_into(ctx, ListIter(items), cty)
        return Ok(r) if head == 'Result' else Some(r)
    if head == '()':
        drain_iter(ctx, it)
        return None
    raise Unsupported('collect into ' + tyfull)


@model('Iterator::collect')
def _collect(ctx, args, ck):
    t = turbofish(ck.raw, 'collect')
    if not t:
        raise Unsupported('collect without target type')
    return collect_into(ctx, args[0], t[0])


@model('FromIterator::from_iter')
def _from_iter(ctx, args, ck):
    return collect_into(ctx, into_iter_value(ctx, args[0]), ck.selfty_full)


@model('Iterator::count')
def _count(ctx, args, ck):
    return Int(len(drain_iter(ctx, args[0])), 'usize')


@model('Iterator::last')
def _last(ctx, args, ck):
    items = drain_iter(ctx, args[0])
    return Some(items[-1]) if items else NONE()


@model('Iterator::nth')
def _nth(ctx, args, ck):
    v = nth(ctx, args[0], args[1])
    return NONE() if v is STOP else Some(v)


@model('Iterator::for_each')
def _for_each(ctx, args, ck):
    while True:
        v = nxt(ctx, args[0])
        if v is STOP:
            return None
        ctx.m.call_value(args[1], [v])


@model('Iterator::fold')
def _fold(ctx, args, ck):
    acc = args[1]
    while True:
        v = nxt(ctx, args[0])
        if v is STOP:
            return acc
        acc = ctx.m.call_value(args[2], [acc, v])


@model('Iterator::reduce')
def _reduce(ctx, args, ck):
    acc = nxt(ctx, args[0])
    if acc is STOP:
        return NONE()
    while True:
        v = nxt(ctx, args[0])
        if v is STOP:
            return Some(acc)
        acc = ctx.m.call_value(args[1], [acc, v])


@model('Iterator::try_fold')
def _try_fold(ctx, args, ck):
    acc = args[1]
    while True:
        v = nxt(ctx, args[0])
        if v is STOP:
            raise Unsupported('try_fold completion (Try::from_output type unknown)')
        r = ctx.m.call_value(args[2], [acc, v])
        if r.variant in ('Err', 'None', 'Break'):
            return r
        acc = r.fields[0]


@model('Iterator::all')
def _all(ctx, args, ck):
    while True:
        v = nxt(ctx, args[0])
        if v is STOP:
            return True
        if not ctx.branch(ctx.m.call_value(args[1], [v])):
            return False


@model('Iterator::any')
def _any(ctx, args, ck):
    while True:
        v = nxt(ctx, args[0])
        if v is STOP:
            return False
        if ctx.branch(ctx.m.call_value(args[1], [v])):
            return True


@model('Iterator::find')
def _find(ctx, args, ck):
    while True:
        v = nxt(ctx, args[0])
        if v is STOP:
            return NONE()
        cell = [v]
        if ctx.branch(ctx.m.call_value(args[1], [Ref(cell, 0)])):
            return Some(cell[0])


@model('Iterator::find_map')
def _find_map(ctx, args, ck):
    while True:
        v = nxt(ctx, args[0])
        if v is STOP:
            return NONE()
        r = ctx.m.call_value(args[1], [v])
        if r.variant == 'Some':
            return r


@model('Iterator::position')
def _position(ctx, args, ck):
    i = 0
    while True:
        v = nxt(ctx, args[0])
        if v is STOP:
            return NONE()
        if ctx.branch(ctx.m.call_value(args[1], [v])):
            return Some(Int(i, 'usize'))
        i += 1


@model('Iterator::sum')
def _sum(ctx, args, ck):
    t = turbofish(ck.raw, 'sum')
    ty = type_head(t[0]) if t else 'usize'
    if ty in ('f64', 'f32'):
        acc = FP(0.0, ty)  # std: -0.0 start since 1.83? (f64 Sum starts from -0.0); irrelevant for == comparisons
        items = drain_iter(ctx, args[0])
        for v in items:
            acc = ctx.m.fp_binop('Add', acc, ctx.m.peel(v))
        return acc
    acc = Int(0, ty)
    for v in drain_iter(ctx, args[0]):
        acc = checked_arith(ctx, 'Add', acc, ctx.m.peel(v))
    return acc


@model('Iterator::product')
def _product(ctx, args, ck):
    t = turbofish(ck.raw, 'product')
    ty = type_head(t[0]) if t else 'usize'
    acc = Int(1, ty)
    for v in drain_iter(ctx, args[0]):
        acc = checked_arith(ctx, 'Mul', acc, ctx.m.peel(v))
    return acc


def _select(ctx, items, better):
    """generic max/min selection: better(best, cand) -> True if cand replaces best."""
    if not items:
        return NONE()
    best = items[0]
    for x in items[1:]:
        if better(best, x):
            best = x
    return Some(best)


@model('Iterator::max')
def _max(ctx, args, ck):
    # std: last maximal element
    return _select(ctx, drain_iter(ctx, args[0]), lambda b, x: ctx.m.cmp(b, x) <= 0)


@model('Iterator::min')
def _min(ctx, args, ck):
    # std: first minimal element
    return _select(ctx, drain_iter(ctx, args[0]), lambda b, x: ctx.m.cmp(b, x) > 0)


@model('Iterator::max_by')
def _max_by(ctx, args, ck):
    f = args[1]
    return _select(ctx, drain_iter(ctx, args[0]),
                   lambda b, x: ctx.m.call_value(f, [ref_to(b), ref_to(x)]).idx <= 0)


@model('Iterator::min_by')
def _min_by(ctx, args, ck):
    f = args[1]
    return _select(ctx, drain_iter(ctx, args[0]),
                   lambda b, x: ctx.m.call_value(f, [ref_to(b), ref_to(x)]).idx > 0)


@model('Iterator::max_by_key')
def _max_by_key(ctx, args, ck):
    f = args[1]
    hashed = getattr(args[0], 'hashed', False) and ctx.m.hash_ties_any
    items = [(ctx.m.call_value(f, [ref_to(x)]), x) for x in drain_iter(ctx, args[0])]
    r = _select(ctx, items, lambda b, x: ctx.m.cmp(b[0], x[0]) <= 0)
    if hashed and r.variant == 'Some':
        # the iteration order of a hash container is arbitrary: any entry with the extremal key can be the result
        best = r.fields[0]
        ties = [it for it in items if it is best or ctx.m.cmp(it[0], best[0]) == 0]
        if len(ties) > 1:
            return Some(ties[ctx.choice(len(ties), 'hash-tie')][1])
    return Some(r.fields[0][1]) if r.variant == 'Some' else r


@model('Iterator::min_by_key')
def _min_by_key(ctx, args, ck):
    f = args[1]
    items = [(ctx.m.call_value(f, [ref_to(x)]), x) for x in drain_iter(ctx, args[0])]
    r = _select(ctx, items, lambda b, x: ctx.m.cmp(b[0], x[0]) > 0)
    return Some(r.fields[0][1]) if r.variant == 'Some' else r


@model('Iterator::unzip')
def _unzip(ctx, args, ck):
    t = turbofish(ck.raw, 'unzip')
    items = drain_iter(ctx, args[0])
    a = collect_into(ctx, ListIter([x.fields[0] for x in items]), t[2] if len(t) > 2 else 'Vec')
    b = collect_into(ctx, ListIter([x.fields[1] for x in items]), t[3] if len(t) > 3 else 'Vec')
    return Tup([a, b])


@model('Iterator::partition')
def _partition(ctx, args, ck):
    a, b = [], []
    for x in drain_iter(ctx, args[0]):
        cell = [x]
        (a if ctx.branch(ctx.m.call_value(args[1], [Ref(cell, 0)])) else b).append(cell[0])
    return Tup([VecObj(a), VecObj(b)])


@model('Iterator::eq')
def _iter_eq(ctx, args, ck):
    a = drain_iter(ctx, args[0])
    b = drain_iter(ctx, into_iter_value(ctx, args[1]))
    if len(a) != len(b):
        return False
    return ctx.m.conj([ctx.m.eq(x, y) for x, y in zip(a, b)])


# ---------------------------------------------------------------- itertools

@model('Itertools::join')
def _it_join(ctx, args, ck):
    sep = as_str(ctx, args[1])
    out = StringObj()
    first = True
    while True:
        v = nxt(ctx, args[0])
        if v is STOP:
            return out
        if not first:
            string_push_str(ctx, out, sep)
        first = False
        if not display_value(ctx, v, out):
            raise Unsupported('Itertools::join of non-renderable element')


@model('Itertools::collect_vec')
def _it_collect_vec(ctx, args, ck):
    return VecObj(drain_iter(ctx, args[0]))


@model('Itertools::unique')
def _it_unique(ctx, args, ck):
    out = []
    for x in drain_iter(ctx, args[0]):
        if not any(ctx.branch(ctx.m.eq(x, y)) for y in out):
            out.append(x)
    return ListIter(out)


@model('Itertools::sorted')
def _it_sorted(ctx, args, ck):
    from models_coll import sort_items
    return ListIter(sort_items(ctx, drain_iter(ctx, args[0])))


@model('Itertools::sorted_by_key')
def _it_sorted_by_key(ctx, args, ck):
    from models_coll import sort_items
    f = args[1]
    return ListIter(sort_items(ctx, drain_iter(ctx, args[0]), keyf=lambda x: ctx.m.call_value(f, [ref_to(x)])))


@model('Itertools::sorted_by')
def _it_sorted_by(ctx, args, ck):
    from models_coll import sort_items
    f = args[1]
    return ListIter(sort_items(ctx, drain_iter(ctx, args[0]),
                               cmpf=lambda a, b: ctx.m.call_value(f, [ref_to(a), ref_to(b)]).idx))


@model('Itertools::fold_while')
def _it_fold_while(ctx, args, ck):
    acc = args[1]
    while True:
        v = nxt(ctx, args[0])
        if v is STOP:
            return Enum('FoldWhile', 'Continue', 0, [acc])
        r = ctx.m.call_value(args[2], [acc, v])
        if r.variant == 'Done':
            return r
        acc = r.fields[0]


@model('FoldWhile::into_inner')
def _fw_into_inner(ctx, args, ck):
    return args[0].fields[0]


@model('FoldWhile::is_done')
def _fw_is_done(ctx, args, ck):
    return ctx.m.peel(args[0]).variant == 'Done'


@model('Itertools::find_position')
def _it_find_position(ctx, args, ck):
    i = 0
    while True:
        v = nxt(ctx, args[0])
        if v is STOP:
            return NONE()
        cell = [v]
        if ctx.branch(ctx.m.call_value(args[1], [Ref(cell, 0)])):
            return Some(Tup([Int(i, 'usize'), cell[0]]))
        i += 1


@model('Itertools::multiunzip')
def _it_multiunzip(ctx, args, ck):
    items = drain_iter(ctx, args[0])
    t = turbofish(ck.raw, 'multiunzip')
    n = len(items[0].fields) if items else None
    if n is None:
        # arity from the target tuple type
        from mirparse import split_top
        n = len(split_top(t[0].strip()[1:-1])) if t else 0
    return Tup([VecObj([x.fields[k] for x in items]) for k in range(n)])


@model('Itertools::all_equal')
def _it_all_equal(ctx, args, ck):
    items = drain_iter(ctx, args[0])
    return ctx.m.conj([ctx.m.eq(items[0], x) for x in items[1:]]) if items else True


@model('Itertools::tuple_windows')
def _it_tuple_windows(ctx, args, ck):
    items = drain_iter(ctx, args[0])
    t = turbofish(ck.raw, 'tuple_windows')
    from mirparse import split_top
    n = len(split_top(t[0].strip()[1:-1])) if t else 2
    return ListIter([Tup([ctx.m.clone(y) for y in items[i:i + n]]) for i in range(len(items) - n + 1)])


@model('Itertools::dedup')
def _it_dedup(ctx, args, ck):
    out = []
    for x in drain_iter(ctx, args[0]):
        if out and ctx.branch(ctx.m.eq(out[-1], x)):
            continue
        out.append(x)
    return ListIter(out)


@model('Itertools::counts')
def _it_counts(ctx, args, ck):
    from models_coll import map_find
    mp = MapObj('HashMap')
    for x in drain_iter(ctx, args[0]):
        e = map_find(ctx, mp, x)
        if e is None:
            mp.entries.append([x, Int(1, 'usize')])
        else:
            e[1] = checked_arith(ctx, 'Add', e[1], Int(1, 'usize'))
    return mp


@model('Itertools::zip_eq')
def _it_zip_eq(ctx, args, ck):
    a = drain_iter(ctx, args[0])
    b = drain_iter(ctx, into_iter_value(ctx, args[1]))
    if len(a) != len(b):
        raise RustPanic('itertools: .zip_eq() reached end of one iterator before the other')
    return ListIter([Tup([x, y]) for x, y in zip(a, b)])


@model('itertools::zip_eq')
def _it_zip_eq2(ctx, args, ck):
    return _it_zip_eq(ctx, [into_iter_value(ctx, args[0]), args[1]], ck)


# ---------------------------------------------------------------- rayon: sequential map in index order (its contract)
for _k in ('map', 'zip', 'enumerate', 'filter', 'filter_map', 'sum', 'collect', 'count', 'for_each', 'fold', 'all', 'any'):
    if ('Iterator::' + _k) in MODELS:
        MODELS['ParallelIterator::' + _k] = MODELS['Iterator::' + _k]
        MODELS['IndexedParallelIterator::' + _k] = MODELS['Iterator::' + _k]


@model('IntoParallelIterator::into_par_iter', 'IntoParallelRefIterator::par_iter')
def _into_par_iter(ctx, args, ck):
    return into_iter_value(ctx, args[0])
