import sys, time, json
sys.path.insert(0,'.')
import engine, harnesses, build
hn=sys.argv[1]; tier=sys.argv[2]; budget=float(sys.argv[3])
h=harnesses.get(hn)
shapes=h.shapes(tier)
opts={'mir':build.mir_dump()[0],'repo':'/repo','stop_on_violation':True,'known_active':list(getattr(h,'KNOWN_MATCHERS',{})),'deadline':time.time()+budget}
opts.update(getattr(h,'OPTS',{}).get(tier,{}))
t0=time.time()
res=engine.run_harness(hn, shapes, opts, procs=16)
print('shapes',len(shapes),'wall',round(time.time()-t0,1),'paths',sum(r['paths'] for r in res),'cpu',round(sum(r['wall'] for r in res)))
res.sort(key=lambda r:-r['wall'])
for r in res[:int(sys.argv[4]) if len(sys.argv)>4 else 12]:
    print(round(r['wall'],1), r['paths'], r['shape'], r['unsupported'][:1], len(r['violations']))
