"""Regenerates the MIR dump and the native replay binaries from /repo's current working tree."""
import fcntl
import hashlib
import json
import os
import shutil
import subprocess
import sys
import time

REPO = os.environ.get('VERIF_REPO', '/repo')
SCRATCH = os.environ.get('VERIF_SCRATCH', '/var/tmp/verif-scratch')
VERIF = os.path.dirname(os.path.dirname(os.path.abspath(__file__)))
ENV = dict(os.environ, CARGO_NET_OFFLINE='true')


def tree_hash(repo=REPO):
    h = hashlib.sha1()
    files = []
    for root, dirs, fs in os.walk(os.path.join(repo, 'src')):
        for f in fs:
            files.append(os.path.join(root, f))
    for f in ('Cargo.toml', 'Cargo.lock'):
        files.append(os.path.join(repo, f))
    for f in sorted(files):
        h.update(os.path.relpath(f, repo).encode())
        h.update(b'\0')
        with open(f, 'rb') as fh:
            h.update(fh.read())
        h.update(b'\0')
    return h.hexdigest()[:16]


class Lock:
    def __init__(self, name):
        os.makedirs(SCRATCH, exist_ok=True)
        self.path = os.path.join(SCRATCH, name + '.lock')

    def __enter__(self):
        self.f = open(self.path, 'w')
        fcntl.flock(self.f, fcntl.LOCK_EX)
        return self

    def __exit__(self, *a):
        fcntl.flock(self.f, fcntl.LOCK_UN)
        self.f.close()


def _sync_src(dst, repo=REPO):
    os.makedirs(dst, exist_ok=True)
    subprocess.check_call(['rsync', '-a', '--delete', '--exclude', '/target', '--exclude', '/.git', '--exclude',
                           '/python', '--exclude', '/data', '--exclude', '/resources', '--exclude', '/scripts',
                           repo + '/', dst + '/'])


def _expire(d, match, max_age_s=4 * 3600, keep=40):
    """Removes cached artefacts of other source trees: only entries not used for max_age_s (a concurrent check of
    another tree may still be reading a younger one), and at most `keep` entries are left."""
    now = time.time()
    ents = sorted(((os.path.getmtime(os.path.join(d, f)), f) for f in os.listdir(d) if match(f)), reverse=True)
    for i, (mt, f) in enumerate(ents):
        if now - mt > max_age_s or i >= keep:
            try:
                os.remove(os.path.join(d, f))
            except OSError:
                pass


def _sweep_scratch():
    """stale per-process scratch directories of killed native runs"""
    now = time.time()
    try:
        for f in os.listdir(SCRATCH):
            p = os.path.join(SCRATCH, f)
            if (f.startswith(('loader-', 'bpe-', 'dict-')) or f.endswith('.smt2')) and now - os.path.getmtime(p) > 3600:
                shutil.rmtree(p, ignore_errors=True) if os.path.isdir(p) else os.remove(p)
    except OSError:
        pass


def mir_dump(repo=REPO, log=None):
    """Returns (path of MIR dump, seconds).  Cached per source-tree hash."""
    th = tree_hash(repo)
    _sweep_scratch()
    out = os.path.join(SCRATCH, 'mir', 'crate-%s-v2.mir' % th)
    with Lock('mir'):
        if os.path.exists(out) and os.path.getsize(out) > 1000:
            os.utime(out, None)
            return out, 0.0
        t0 = time.time()
        os.makedirs(os.path.dirname(out), exist_ok=True)
        _expire(os.path.dirname(out), lambda f: f.startswith('crate-') and f.endswith('.mir'))
        src = os.path.join(SCRATCH, 'mir', 'src-copy')
        _sync_src(src, repo)
        lib = os.path.join(src, 'src', 'lib.rs')
        os.utime(lib, None)
        env = dict(ENV, CARGO_TARGET_DIR=os.path.join(SCRATCH, 'mir', 'target'))
        tmp = out + '.tmp'
        with open(tmp, 'w') as fo:
            p = subprocess.run(['cargo', '+nightly', 'rustc', '--offline', '--lib', '--', '-Zunpretty=mir',
                                '-C', 'overflow-checks=on', '-C', 'debug-assertions=off', '-Awarnings'], cwd=src, env=env, stdout=fo,
                               stderr=subprocess.PIPE, text=True)
        shutil.rmtree(src, ignore_errors=True)
        if p.returncode != 0 or os.path.getsize(tmp) < 1000:
            err = p.stderr[-3000:]
            raise RuntimeError('MIR dump failed (does the tree compile?):\n' + err)
        os.rename(tmp, out)
        return out, time.time() - t0


def replay_binary(profile='dev', repo=REPO):
    """Builds /verif/replay against the current tree; returns path of the binary (cached per tree hash)."""
    th = tree_hash(repo)
    rh = hashlib.sha1()
    rdir = os.path.join(VERIF, 'replay')
    for root, _, fs in os.walk(os.path.join(rdir, 'src')):
        for f in sorted(fs):
            rh.update(open(os.path.join(root, f), 'rb').read())
    rh.update(open(os.path.join(rdir, 'Cargo.toml'), 'rb').read())
    key = '%s-%s-%s' % (th, rh.hexdigest()[:10], profile)
    bdir = os.path.join(SCRATCH, 'replay-bin')
    out = os.path.join(bdir, 'verif-replay-' + key)
    with Lock('replay-' + profile):
        if os.path.exists(out):
            os.utime(out, None)
            return out, 0.0
        t0 = time.time()
        os.makedirs(bdir, exist_ok=True)
        _expire(bdir, lambda f: f.endswith('-' + profile))
        # build from a copy of the harness crate whose path dependency points at the tree under test
        crate = os.path.join(SCRATCH, 'replay-crate-' + profile)
        shutil.rmtree(crate, ignore_errors=True)
        shutil.copytree(rdir, crate, ignore=shutil.ignore_patterns('target'))
        toml = open(os.path.join(crate, 'Cargo.toml')).read().replace('path = "/repo"', 'path = "%s"' % repo)
        open(os.path.join(crate, 'Cargo.toml'), 'w').write(toml)
        shutil.copy(os.path.join(repo, 'Cargo.lock'), os.path.join(crate, 'Cargo.lock'))
        env = dict(ENV, CARGO_TARGET_DIR=os.path.join(SCRATCH, 'replay-target'))
        cmd = ['cargo', 'build', '--offline', '--features', 'verif'] + (['--release'] if profile == 'release' else [])
        p = subprocess.run(cmd, cwd=crate, env=env, stdout=subprocess.PIPE, stderr=subprocess.STDOUT, text=True)
        if p.returncode != 0 and 'verif' in p.stdout and 'feature' in p.stdout:
            # tree without the hook feature: build without it
            cmd = [c for c in cmd if c not in ('--features', 'verif')]
            p = subprocess.run(cmd, cwd=crate, env=env, stdout=subprocess.PIPE, stderr=subprocess.STDOUT, text=True)
        shutil.rmtree(crate, ignore_errors=True)
        if p.returncode != 0:
            raise RuntimeError('replay binary build failed:\n' + p.stdout[-3000:])
        built = os.path.join(SCRATCH, 'replay-target', 'release' if profile == 'release' else 'debug', 'verif-replay')
        shutil.copy(built, out)
        return out, time.time() - t0


class Native:
    """Persistent native replay process."""

    def __init__(self, profile='dev'):
        self.profile = profile
        self.bin, self.build_s = replay_binary(profile)
        self.p = None
        self.calls = 0

    def _start(self):
        self.p = subprocess.Popen([self.bin], stdin=subprocess.PIPE, stdout=subprocess.PIPE, text=True, bufsize=1)

    def call(self, op, _timeout=20.0, **args):
        import select
        if self.p is None or self.p.poll() is not None:
            self._start()
        req = dict(args, op=op)
        self.p.stdin.write(json.dumps(req) + '\n')
        self.p.stdin.flush()
        ready, _, _ = select.select([self.p.stdout], [], [], _timeout)
        if not ready:
            # the real code did not answer: treat as non-termination of this call
            self.p.kill()
            self.p.wait()
            self.p = None
            self.calls += 1
            return {'timeout': _timeout}
        line = self.p.stdout.readline()
        self.calls += 1
        if not line:
            # process died (abort / stack overflow / exit): restart lazily
            rc = self.p.wait()
            self.p = None
            return {'crash': rc}
        return json.loads(line)

    def close(self):
        if self.p is not None:
            try:
                self.p.stdin.close()
                self.p.wait(timeout=5)
            except Exception:
                self.p.kill()
            self.p = None


if __name__ == '__main__':
    what = sys.argv[1] if len(sys.argv) > 1 else 'all'
    if what in ('mir', 'all'):
        print('mir', mir_dump())
    if what in ('replay', 'all'):
        print('replay dev', replay_binary('dev'))
        print('replay release', replay_binary('release'))
