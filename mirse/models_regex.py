"""Model of the `regex` crate for the pattern subset this crate builds: literals (regex::escape), \\s \\S, ^ $,
greedy * + ? on single atoms, top-level alternation.  Semantics: leftmost-first (Perl-like) as documented by the
regex crate; \\s = Unicode White_Space.  Diff-tested against the real crate by the replay binary."""
import z3
from values import *
from interp import model, MODELS
from models_core import as_str, substr, ListIter, char_is_whitespace, new_string_from, string_push_str

META = set('\\.+*?()|[]{}^$#&-~')


@model('regex::escape', 'escape')
def _escape(ctx, args, ck):
    s = as_str(ctx, args[0])
    out = StringObj()
    for c, w in zip(s.chars(), s.widths()):
        if not isinstance(c.v, int):
            raise Unsupported('regex::escape of a symbolic character')
        if chr(c.v) in META:
            out.buf.chars.append(Int(ord('\\'), 'char'))
            out.buf.widths.append(1)
        out.buf.chars.append(c)
        out.buf.widths.append(w)
    out.buf.dirty()
    return out


class RegexObj:
    __slots__ = ('alts', 'src')

    def __init__(self, alts, src):
        self.alts = alts   # list of sequences of (atom, quant)
        self.src = src


WORD_PARTS = r'\b[\p{Alphabetic}\p{M}\p{Pc}\p{Join_Control}]+\b'
PUNCT = r'^\p{P}+$'
ASCII_P = set('!"#%&\'()*,-./:;?@[\\]_{}')


def parse_regex(src):
    """src: python str.  Returns list of alternatives; each a list of (atom, quant) with atom =
    ('lit', cp) | ('ws',) | ('nws',) | ('bol',) | ('eol',)."""
    if src == WORD_PARTS:
        return 'WORD_PARTS'
    if src == PUNCT:
        return 'PUNCT'
    alts = [[]]
    i = 0
    n = len(src)
    while i < n:
        c = src[i]
        if c == '|':
            alts.append([])
            i += 1
            continue
        if c == '\\':
            d = src[i + 1]
            if d == 's':
                atom = ('ws',)
            elif d == 'S':
                atom = ('nws',)
            elif d in META or d in ' \t\n':
                atom = ('lit', ord(d))
            else:
                raise Unsupported('regex escape \\%s in %r' % (d, src))
            i += 2
        elif c == '^':
            atom = ('bol',)
            i += 1
        elif c == '$':
            atom = ('eol',)
            i += 1
        elif c == '.':
            atom = ('any',)
            i += 1
        elif c in '()[]{}':
            raise Unsupported('regex construct %r in %r' % (c, src))
        else:
            atom = ('lit', ord(c))
            i += 1
        q = ''
        if i < n and src[i] in '*+?':
            q = src[i]
            i += 1
        alts[-1].append((atom, q))
    return alts


@model('Regex::new')
def _regex_new(ctx, args, ck):
    s = as_str(ctx, args[0])
    c = s.concrete()
    if c is None:
        raise Unsupported('regex pattern with symbolic characters')
    return Ok(RegexObj(parse_regex(c), c))


def atom_test(ctx, atom, chars, pos):
    """does atom match the char at pos (consuming one char)?  -> bool / z3"""
    if pos >= len(chars):
        return False
    c = chars[pos]
    k = atom[0]
    if k == 'lit':
        return ctx.m.eq(c, Int(atom[1], 'char'))
    if k == 'ws':
        return char_is_whitespace(c)
    if k == 'nws':
        return ctx.m.bnot(char_is_whitespace(c))
    if k == 'any':
        return ctx.m.bnot(ctx.m.eq(c, Int(0x0A, 'char')))      # `.` without the s flag: any character but \n
    raise Unsupported('atom ' + k)


def match_seq(ctx, seq, chars, pos, k=0):
    """Backtracking match of seq[k:] at pos; returns end position or None."""
    if k == len(seq):
        return pos
    atom, q = seq[k]
    if atom[0] == 'bol':
        return match_seq(ctx, seq, chars, pos, k + 1) if pos == 0 else None
    if atom[0] == 'eol':
        return match_seq(ctx, seq, chars, pos, k + 1) if pos == len(chars) else None
    if q == '':
        if ctx.branch(atom_test(ctx, atom, chars, pos)):
            return match_seq(ctx, seq, chars, pos + 1, k + 1)
        return None
    # greedy: consume as many as possible, then backtrack
    cnt = 0
    while (q != '?' or cnt < 1) and ctx.branch(atom_test(ctx, atom, chars, pos + cnt)):
        cnt += 1
    lo = 1 if q == '+' else 0
    while cnt >= lo:
        r = match_seq(ctx, seq, chars, pos + cnt, k + 1)
        if r is not None:
            return r
        cnt -= 1
    return None


def ascii_class(ctx, c):
    """Class of an ASCII character for the two Unicode-class patterns (anything else is outside the model):
    'L' letter, 'P' punctuation (Unicode P), 'O' other non-word character (space, symbols)."""
    if isinstance(c.v, int):
        v = c.v
    else:
        if not ctx.must(z3.ULT(c.v, 0x80)):
            raise Unsupported('Unicode-class regex on a symbolic non-ASCII character')
        for lo, hi in ((0x41, 0x5A), (0x61, 0x7A)):
            if ctx.branch(z3.And(z3.UGE(c.v, lo), z3.ULE(c.v, hi))):
                return 'L'
        for p in sorted(ASCII_P):
            if p != '_' and ctx.branch(c.v == ord(p)):
                return 'P'
        if ctx.branch(z3.Or(c.v == 0x5F, z3.And(z3.UGE(c.v, 0x30), z3.ULE(c.v, 0x39)))):
            raise Unsupported('digits / underscore inside word-part matching are outside the model')
        return 'O'
    if v >= 0x80:
        raise Unsupported('Unicode-class regex on a non-ASCII character')
    ch = chr(v)
    if ch.isalpha():
        return 'L'
    if ch == '_' or ch.isdigit():
        raise Unsupported('digits / underscore inside word-part matching are outside the model')
    if ch in ASCII_P:
        return 'P'
    return 'O'


def find_all_special(ctx, kind, chars):
    cls = [ascii_class(ctx, c) for c in chars]
    if kind == 'PUNCT':
        return [(0, len(chars))] if chars and all(k == 'P' for k in cls) else []
    out, st = [], None
    for i, k in enumerate(cls):
        if k == 'L':
            if st is None:
                st = i
        elif st is not None:
            out.append((st, i))
            st = None
    if st is not None:
        out.append((st, len(chars)))
    return out


def find_at(ctx, rx, chars, start):
    """Leftmost-first match starting the scan at `start`; returns (s, e) or None."""
    if isinstance(rx.alts, str):
        for (s, e) in find_all_special(ctx, rx.alts, chars):
            if s >= start:
                return s, e
        return None
    for s in range(start, len(chars) + 1):
        for alt in rx.alts:
            e = match_seq(ctx, alt, chars, s)
            if e is not None:
                return s, e
    return None


def find_all(ctx, rx, chars):
    if isinstance(rx.alts, str):
        return find_all_special(ctx, rx.alts, chars)
    out = []
    pos = 0
    last_end = -1
    while pos <= len(chars):
        m = find_at(ctx, rx, chars, pos)
        if m is None:
            break
        s, e = m
        if e == s:
            # empty match: the regex crate does not report an empty match adjacent to the previous match's end
            if s != last_end:
                out.append((s, e))
            pos = s + 1
        else:
            out.append((s, e))
            pos = e
        last_end = e
    return out


class MatchObj:
    __slots__ = ('s', 'a', 'b')

    def __init__(self, s, a, b):
        self.s = s      # StrRef haystack
        self.a = a      # char indices
        self.b = b

    def sub(self):
        return substr(self.s, self.a, self.b)


@model('Regex::find_iter')
def _find_iter(ctx, args, ck):
    rx = ctx.m.peel(args[0])
    s = as_str(ctx, args[1])
    return ListIter([MatchObj(s, a, b) for a, b in find_all(ctx, rx, s.chars())])


@model('Regex::find')
def _find(ctx, args, ck):
    rx = ctx.m.peel(args[0])
    s = as_str(ctx, args[1])
    m = find_at(ctx, rx, s.chars(), 0)
    return NONE() if m is None else Some(MatchObj(s, m[0], m[1]))


@model('Regex::is_match')
def _is_match(ctx, args, ck):
    rx = ctx.m.peel(args[0])
    s = as_str(ctx, args[1])
    return find_at(ctx, rx, s.chars(), 0) is not None


@model('Match::start')
def _m_start(ctx, args, ck):
    mo = ctx.m.peel(args[0])
    return Int(mo.sub().lo - mo.s.lo, 'usize')


@model('Match::end')
def _m_end(ctx, args, ck):
    mo = ctx.m.peel(args[0])
    return Int(mo.sub().hi - mo.s.lo, 'usize')


@model('Match::as_str')
def _m_as_str(ctx, args, ck):
    return ctx.m.peel(args[0]).sub()


@model('Match::len')
def _m_len(ctx, args, ck):
    mo = ctx.m.peel(args[0])
    return Int(mo.sub().byte_len(), 'usize')
