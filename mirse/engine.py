"""Path exploration driver: depth-first over decision prefixes, parallel over harness shapes."""
import multiprocessing as mp
import os
import sys
import time
import traceback

sys.path.insert(0, os.path.dirname(os.path.abspath(__file__)))

from values import Unsupported
from interp import Machine, Stats, Violation
from mirparse import Program
from resolve import Resolver
import models_core, models_coll, models_iter, models_text, models_rand, models_regex, models_env  # noqa: F401 (register models)

_G = {}


def load(mir_path, repo):
    prog = Program(mir_path)
    res = Resolver(prog, repo)
    return prog, res


def explore(machine, harness, max_paths=None, deadline=None, stop_on_violation=True):
    """Run harness over all paths.  Returns dict with stats, violations, inconclusive reasons."""
    stats = Stats()
    work = [[]]
    violations = []
    bounds = []
    unsupported = []
    ok_paths = 0
    infeasible = 0
    samples = []
    while work:
        if max_paths is not None and stats.paths >= max_paths:
            unsupported.append('path budget %d exhausted with %d prefixes pending' % (max_paths, len(work)))
            break
        if deadline is not None and time.time() > deadline:
            unsupported.append('time budget exhausted with %d prefixes pending' % len(work))
            break
        prefix = work.pop()
        try:
            ctx, (kind, payload) = machine.run_path(harness, prefix, stats)
        except Unsupported as e:
            unsupported.append(str(e))
            stats.paths += 1
            # pending branches discovered before the failure are still explored
            ctx = machine.ctx
            work.extend(ctx.pending)
            if len(unsupported) > 20:
                break
            continue
        work.extend(ctx.pending)
        if ctx.unknown:
            unsupported.append('solver returned unknown on a branch query')
        if kind == 'ok':
            ok_paths += 1
            if len(samples) < 3 and getattr(ctx, 'sample', None) is not None:
                samples.append(ctx.sample)
        elif kind == 'infeasible':
            infeasible += 1
        elif kind == 'violation':
            violations.append({'what': payload.what, 'inputs': payload.inputs, 'decisions': list(ctx.taken)})
            if stop_on_violation:
                break
        elif kind == 'bound':
            bounds.append({'what': payload.what, 'inputs': payload.inputs})
            if stop_on_violation:
                break
    return {'stats': stats, 'violations': violations, 'bounds': bounds, 'unsupported': unsupported,
            'ok_paths': ok_paths, 'infeasible_paths': infeasible, 'samples': samples}


def _worker(job):
    hname, shape, opts = job
    try:
        if 'machine' not in _G:
            prog, res = load(opts['mir'], opts['repo'])
            _G['prog'], _G['res'] = prog, res
        import harnesses
        hmod = harnesses.get(hname)
        machine = Machine(_G['prog'], _G['res'], step_budget=opts.get('step_budget', 200000),
                          hash_order=opts.get('hash_order', 'all'),
                          solver_timeout_ms=opts.get('solver_timeout_ms', 20000))
        if hasattr(hmod, 'setup_machine'):
            hmod.setup_machine(machine, shape, opts)
        t0 = time.time()
        deadline = opts.get('deadline')
        def hfun(ctx):
            hmod.run(ctx, shape, opts)
            if opts.get('twin'):
                ctx.fail('reachability witness')   # vacuity twin: must come back violated
        r = explore(machine, hfun, max_paths=opts.get('max_paths'),
                    deadline=deadline, stop_on_violation=opts.get('stop_on_violation', True))
        st = r['stats']
        return {'shape': shape, 'paths': st.paths, 'ok_paths': r['ok_paths'], 'infeasible': r['infeasible_paths'],
                'pruned': st.infeasible_pruned, 'checks': st.solver_checks, 'solver_s': st.solver_time,
                'requires': st.requires, 'blocks': st.blocks, 'violations': r['violations'], 'bounds': r['bounds'],
                'unsupported': r['unsupported'], 'encoded': dict(machine.encoded), 'models': dict(st.models),
                'samples': r['samples'], 'wall': time.time() - t0, 'max_depth': st.max_depth}
    except Exception as e:  # machinery error: inconclusive, never an alarm
        return {'shape': shape, 'paths': 0, 'ok_paths': 0, 'infeasible': 0, 'pruned': 0, 'checks': 0, 'solver_s': 0.0,
                'requires': 0, 'blocks': 0, 'violations': [], 'bounds': [],
                'unsupported': ['internal error: %s: %s\n%s' % (type(e).__name__, e, traceback.format_exc()[-1500:])],
                'encoded': {}, 'models': {}, 'samples': [], 'wall': 0.0, 'max_depth': 0}


def run_harness(hname, shapes, opts, procs=16):
    """Explore every shape (in parallel).  Returns the list of per-shape results."""
    jobs = [(hname, s, opts) for s in shapes]
    if procs <= 1 or len(jobs) <= 1:
        return [_worker(j) for j in jobs]
    ctxm = mp.get_context('fork')
    with ctxm.Pool(min(procs, len(jobs))) as pool:
        out = []
        for r in pool.imap_unordered(_worker, jobs, chunksize=1):
            out.append(r)
            if (r['violations'] or r['bounds']) and opts.get('stop_on_violation', True) and opts.get('first_only', False):
                pool.terminate()
                break
        return out


def summarize(results):
    tot = {'paths': 0, 'ok_paths': 0, 'infeasible': 0, 'pruned': 0, 'checks': 0, 'solver_s': 0.0, 'requires': 0,
           'violations': [], 'bounds': [], 'unsupported': [], 'encoded': {}, 'models': {}, 'samples': [],
           'shapes': len(results), 'max_depth': 0}
    for r in results:
        for k in ('paths', 'ok_paths', 'infeasible', 'pruned', 'checks', 'solver_s', 'requires'):
            tot[k] += r[k]
        tot['max_depth'] = max(tot['max_depth'], r.get('max_depth', 0))
        for v in r['violations']:
            v = dict(v)
            v['shape'] = r['shape']
            tot['violations'].append(v)
        for v in r['bounds']:
            v = dict(v)
            v['shape'] = r['shape']
            tot['bounds'].append(v)
        for u in r['unsupported']:
            if u not in tot['unsupported']:
                tot['unsupported'].append(u)
        for k, v in r['encoded'].items():
            tot['encoded'][k] = tot['encoded'].get(k, 0) + v
        for k, v in r['models'].items():
            tot['models'][k] = tot['models'].get(k, 0) + v
        if len(tot['samples']) < 5:
            tot['samples'].extend(r['samples'][:2])
    return tot
