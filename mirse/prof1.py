import sys, time, cProfile, pstats
sys.path.insert(0,'.')
import engine, harnesses
from interp import Machine
prog,res=engine.load(__import__('build').mir_dump()[0],'/repo')
h=harnesses.get(sys.argv[1])
shape=eval(sys.argv[2])
m=Machine(prog,res)
if hasattr(h,'setup_machine'): h.setup_machine(m, shape, {})
def go():
    r=engine.explore(m, lambda ctx: h.run(ctx, shape, {'known_active': list(getattr(h,'KNOWN_MATCHERS',{}))}))
    st=r['stats']; print('paths',st.paths,'checks',st.solver_checks,'solver_s',round(st.solver_time,2),'viol',len(r['violations']),r['unsupported'][:2])
    for v in r['violations'][:2]: print(v)
t0=time.time()
if len(sys.argv)>3:
    cProfile.run('go()','/tmp/prof.out'); pstats.Stats('/tmp/prof.out').sort_stats('cumtime').print_stats(35)
else: go()
print('wall',round(time.time()-t0,2))
