"""Semantic models of std (and a few dependency) functions called from the crate's MIR.
Every model is part of the trusted base and is listed in the evidence by its key when used."""
import re
import z3
from values import *
from interp import model, MODELS, Machine, FAT
from resolve import type_head, strip_generics
from mirparse import find_matching, split_top

WS_RANGES = [(0x09, 0x0D), (0x20, 0x20), (0x85, 0x85), (0xA0, 0xA0), (0x1680, 0x1680), (0x2000, 0x200A),
             (0x2028, 0x2029), (0x202F, 0x202F), (0x205F, 0x205F), (0x3000, 0x3000)]


def is_ws_py(cp):
    return any(a <= cp <= b for a, b in WS_RANGES)


def char_is_whitespace(c, ctx=None):
    """char::is_whitespace: Unicode White_Space (validated exhaustively against std by the replay binary)."""
    if isinstance(c.v, int):
        return is_ws_py(c.v)
    if ctx is None:
        import interp
        ctx = interp.CURRENT[0]
    return ctx.char_pred('ws', c, _ws_term)


def _ws_term(c):
    v = c.v
    alts = []
    for a, b in WS_RANGES:
        if a == b:
            alts.append(v == a)
        else:
            alts.append(z3.And(z3.UGE(v, a), z3.ULE(v, b)))
    return z3.Or(*alts)


def turbofish(raw, method):
    """Generic arguments written after `::method` in a call path (list of strings) or []."""
    k = raw.rfind('::' + method + '::<')
    if k < 0:
        return []
    i = k + len(method) + 4
    j = find_matching(raw, i)
    return split_top(raw[i + 1:j])


def as_str(ctx, v):
    v = ctx.m.peel(v)
    if isinstance(v, StringObj):
        return v.as_str()
    if isinstance(v, StrRef):
        return v
    if isinstance(v, Enum) and v.ty == 'Cow':
        return as_str(ctx, v.fields[0])
    if isinstance(v, BoxObj):
        return as_str(ctx, v.fields[0])
    raise Unsupported('expected str, got %s' % type(v).__name__)


def as_slice(ctx, v):
    v = ctx.m.peel(v)
    if isinstance(v, SliceRef):
        return v
    if isinstance(v, VecObj):
        return v.as_slice()
    if isinstance(v, Arr):
        return SliceRef(v.fields, 0, len(v.fields))
    if isinstance(v, BoxObj):
        return as_slice(ctx, v.fields[0])
    raise Unsupported('expected slice, got %s' % type(v).__name__)


def as_vec(ctx, v):
    v = ctx.m.peel(v)
    if isinstance(v, VecObj):
        return v
    raise Unsupported('expected Vec, got %s' % type(v).__name__)


def substr(s, a, b):
    """sub-&str by char indices relative to s."""
    ca, _ = s.char_range()
    offs = s.buf.offsets()
    return StrRef(s.buf, offs[ca + a], offs[ca + b])


def new_string_from(chars, widths):
    return StringObj(StrBuf(chars, widths))


def string_push_str(ctx, st, s):
    st.buf.chars.extend(s.chars())
    st.buf.widths.extend(s.widths())
    st.buf.dirty()


def opt(v):
    return NONE() if v is STOP or v is None and False else Some(v)


def to_usize(ctx, x, bound=64, what='length'):
    """Concretise a usize that determines a container size."""
    if isinstance(x.v, int):
        return x.v
    k = ctx.concretize(x, 0, bound + 1, what)
    if k is None:
        raise BoundExceeded('symbolic %s above %d' % (what, bound))
    return k


# =============================================================== fmt / errors / logging (opaque)

class FmtArg:
    __slots__ = ('kind', 'val')

    def __init__(self, kind, val):
        self.kind = kind
        self.val = val


@model('Argument::new_display')
def _arg_display(ctx, args, ck):
    return FmtArg('display', args[0])


@model('Argument::new_debug', 'Argument::new_lower_exp', 'Argument::new_lower_hex', 'Argument::new_upper_hex',
       'Argument::new_pointer', 'Argument::new_binary', 'Argument::new_debug_noop')
def _arg_debug(ctx, args, ck):
    return FmtArg('debug', args[0])


class FmtArguments:
    __slots__ = ('template', 'args')

    def __init__(self, template, args):
        self.template = template
        self.args = args


@model('Arguments::new')
def _arguments_new(ctx, args, ck):
    tpl = ctx.m.peel(args[0])
    arr = ctx.m.peel(args[1])
    return FmtArguments([b.v for b in tpl.fields], list(arr.fields))


@model('Arguments::from_str', 'Arguments::from_str_nonconst', 'Arguments::new_const')
def _arguments_from_str(ctx, args, ck):
    s = as_str(ctx, args[0])
    return FmtArguments(None, [FmtArg('display', s)])


def display_value(ctx, v, out):
    """Append Display rendering of v to StringObj out; returns False if not renderable (opaque)."""
    m = ctx.m
    v = m.peel(v)
    if isinstance(v, (StrRef, StringObj)):
        string_push_str(ctx, out, as_str(ctx, v))
        return True
    if isinstance(v, Int):
        if v.ty == 'char':
            out.buf.chars.append(v)
            out.buf.widths.append(ctx.char_width(v))
            out.buf.dirty()
            return True
        if isinstance(v.v, int):
            string_push_str(ctx, out, m.str_lit(str(v.v)))
            return True
        return False
    if isinstance(v, bool):
        string_push_str(ctx, out, m.str_lit('true' if v else 'false'))
        return True
    if isinstance(v, (Struct, Enum)):
        impls = [g for (sh, sf, g) in m.res.trait_impls('Display', 'fmt') if sh == v.ty]
        if impls:
            f = Formatter(out)
            m.call_fn(impls[0], [ref_to(v), ref_to(f)])
            return not f.opaque
    if isinstance(v, Enum) and v.ty == 'Cow':
        return display_value(ctx, v.fields[0], out)
    return False


class Formatter:
    __slots__ = ('out', 'opaque')

    def __init__(self, out):
        self.out = out
        self.opaque = False


def render_arguments(ctx, fa, out):
    """Render core::fmt::Arguments into StringObj out; returns False when some piece is opaque."""
    ok = True
    if not isinstance(fa, FmtArguments):
        return False
    if fa.template is None:
        return display_value(ctx, fa.args[0].val, out)
    t = fa.template
    i = 0
    argi = 0
    n = len(t)
    while i < n:
        b = t[i]
        if b == 0:
            break
        if b < 0x80:
            lit = bytes(t[i + 1:i + 1 + b]).decode('utf-8')
            string_push_str(ctx, out, ctx.m.str_lit(lit))
            i += 1 + b
        elif b == 0x80:
            ln = t[i + 1] | (t[i + 2] << 8)
            lit = bytes(t[i + 3:i + 3 + ln]).decode('utf-8')
            string_push_str(ctx, out, ctx.m.str_lit(lit))
            i += 3 + ln
        elif b == 0xC0:
            a = fa.args[argi]
            argi += 1
            if a.kind == 'display':
                if not display_value(ctx, a.val, out):
                    ok = False
            else:
                ok = False
            i += 1
        else:
            # placeholder with explicit options: not decoded
            ok = False
            break
    return ok


@model('Formatter::write_fmt')
def _formatter_write_fmt(ctx, args, ck):
    f = ctx.m.peel(args[0])
    if not isinstance(f, Formatter):
        return Ok(None)
    if not render_arguments(ctx, args[1], f.out):
        f.opaque = True
    return Ok(None)


@model('Formatter::write_str', 'Formatter::pad')
def _formatter_write_str(ctx, args, ck):
    f = ctx.m.peel(args[0])
    if isinstance(f, Formatter):
        string_push_str(ctx, f.out, as_str(ctx, args[1]))
    return Ok(None)


def format_to_value(ctx, fa):
    out = StringObj()
    if render_arguments(ctx, fa, out):
        return out
    return Opaque('formatted-string')


@model('fmt::format', 'format::format_inner', 'must_use', '__private::must_use', 'hint::must_use')
def _fmt_format(ctx, args, ck):
    if ck.name == 'must_use':
        return args[0]
    return format_to_value(ctx, args[0])


@model('__private::format_err', 'Error::msg', 'Error::new', 'Error::from', 'Error::context')
def _anyhow(ctx, args, ck):
    return Opaque('anyhow::Error')


@model('panic_fmt', 'panicking::panic_fmt', 'panicking::panic', 'panic', 'panicking::panic_display',
       'panicking::unreachable_display', 'panicking::panic_explicit', 'begin_panic', 'rt::begin_panic',
       'panicking::assert_failed', 'assert_failed', 'panicking::panic_nounwind', 'option::expect_failed',
       'result::unwrap_failed', 'unwrap_failed', 'expect_failed')
def _panic(ctx, args, ck):
    msg = ''
    try:
        if args and isinstance(args[0], FmtArguments):
            v = format_to_value(ctx, args[0])
            if isinstance(v, StringObj):
                msg = v.as_str().concrete() or ''
        elif args and isinstance(args[0], StrRef):
            msg = args[0].concrete() or ''
    except Exception:
        pass
    raise RustPanic('explicit panic: ' + msg[:120], 'panic')


@model('log::__private_api::log', '__private_api::log', '__private_api::enabled', 'log::max_level',
       '__private_api::loc', 'log::__private_api::loc', 'GlobalLogger::enabled')
def _log(ctx, args, ck):
    if ck.name == 'enabled':
        return False
    if ck.name == 'max_level':
        return Enum('LevelFilter', 'Off', 0, [])
    return None


@model('io::_print', '_print', 'io::_eprint', '_eprint')
def _print(ctx, args, ck):
    return None


# =============================================================== generic traits

@model('PartialEq::eq')
def _eq(ctx, args, ck):
    return ctx.m.eq(args[0], args[1])


@model('PartialEq::ne')
def _ne(ctx, args, ck):
    return ctx.m.bnot(ctx.m.eq(args[0], args[1]))


@model('Clone::clone', 'ToOwned::to_owned')
def _clone(ctx, args, ck):
    v = ctx.m.peel(args[0]) if isinstance(args[0], Ref) else args[0]
    if isinstance(v, StrRef):
        if ck.name == 'to_owned':
            return new_string_from(v.chars(), v.widths())
        return v
    if isinstance(v, SliceRef) and ck.name == 'to_owned':
        return VecObj([ctx.m.clone(x) for x in v.items()])
    return ctx.m.clone(v)


@model('Ord::cmp', 'PartialOrd::partial_cmp')
def _cmp(ctx, args, ck):
    a, b = ctx.m.peel(args[0]), ctx.m.peel(args[1])
    if isinstance(a, FP):
        if ctx.branch(ctx.m.fp_binop('Lt', a, b)):
            r = 'Less'
        elif ctx.branch(ctx.m.fp_binop('Eq', a, b)):
            r = 'Equal'
        elif ctx.branch(ctx.m.fp_binop('Gt', a, b)):
            r = 'Greater'
        else:
            return NONE()
        return Some(Ordering(r))
    c = ctx.m.cmp(a, b)
    o = Ordering({-1: 'Less', 0: 'Equal', 1: 'Greater'}[c])
    if ck.name == 'partial_cmp':
        return Some(o)
    return o


def _ord_helper(op):
    def f(ctx, args, ck):
        a, b = ctx.m.peel(args[0]), ctx.m.peel(args[1])
        if isinstance(a, (Int, FP)):
            return ctx.m.binop(op, a, b)
        c = ctx.m.cmp(a, b)
        return {'Lt': c < 0, 'Le': c <= 0, 'Gt': c > 0, 'Ge': c >= 0}[op]
    return f


MODELS['PartialOrd::lt'] = _ord_helper('Lt')
MODELS['PartialOrd::le'] = _ord_helper('Le')
MODELS['PartialOrd::gt'] = _ord_helper('Gt')
MODELS['PartialOrd::ge'] = _ord_helper('Ge')


def val_max(ctx, a, b):
    """std Ord::max: returns b when a <= b (b on ties)."""
    if isinstance(a, Int) and isinstance(b, Int):
        if isinstance(a.v, int) and isinstance(b.v, int):
            return b if a.v <= b.v else a
        return b if ctx.branch(ctx.m.int_binop('Le', a, b)) else a
    c = ctx.m.cmp(a, b)
    return b if c <= 0 else a


def val_min(ctx, a, b):
    if isinstance(a, Int) and isinstance(b, Int):
        if isinstance(a.v, int) and isinstance(b.v, int):
            return a if a.v <= b.v else b
        return a if ctx.branch(ctx.m.int_binop('Le', a, b)) else b
    c = ctx.m.cmp(a, b)
    return a if c <= 0 else b


@model('Ord::max')
def _ord_max(ctx, args, ck):
    return val_max(ctx, args[0], args[1])


@model('Ord::min')
def _ord_min(ctx, args, ck):
    return val_min(ctx, args[0], args[1])


@model('Ord::clamp')
def _ord_clamp(ctx, args, ck):
    return val_min(ctx, val_max(ctx, args[0], args[1]), args[2])


@model('Ordering::reverse')
def _ordering_reverse(ctx, args, ck):
    o = args[0]
    return Ordering({'Less': 'Greater', 'Equal': 'Equal', 'Greater': 'Less'}[o.variant])


@model('Ordering::then')
def _ordering_then(ctx, args, ck):
    return args[1] if args[0].variant == 'Equal' else args[0]


@model('Ordering::then_with')
def _ordering_then_with(ctx, args, ck):
    if args[0].variant == 'Equal':
        return ctx.m.call_value(args[1], [])
    return args[0]


@model('Ordering::is_lt', 'Ordering::is_le', 'Ordering::is_gt', 'Ordering::is_ge', 'Ordering::is_eq',
       'Ordering::is_ne')
def _ordering_is(ctx, args, ck):
    o = ctx.m.peel(args[0]).idx
    return {'is_lt': o < 0, 'is_le': o <= 0, 'is_gt': o > 0, 'is_ge': o >= 0, 'is_eq': o == 0,
            'is_ne': o != 0}[ck.name]


@model('Default::default')
def _default(ctx, args, ck):
    t = ck.selfty
    full = ck.selfty_full or ''
    if t in INT_BITS:
        return Int(0, t)
    if t == 'bool':
        return False
    if t in ('f64', 'f32'):
        return FP(0.0, t)
    if t == 'String':
        return StringObj()
    if t == 'Vec':
        return VecObj()
    if t in ('HashMap', 'HashSet', 'BTreeMap', 'BTreeSet'):
        return MapObj(t)
    if t == 'Option':
        return NONE()
    if t == '()':
        if full.strip() == '()':
            return None
    raise Unsupported('Default for ' + full)


@model('From::from', 'Into::into')
def _from(ctx, args, ck):
    v = args[0]
    if ck.name == 'from':
        dst = ck.selfty
        dfull = ck.selfty_full or ''
    else:
        g = re.search(r' as (?:std::convert::|core::convert::)?Into<(.*)>>::into$', ck.raw)
        dfull = g.group(1) if g else ''
        dst = type_head(dfull) if dfull else ''
    if dst in INT_BITS and isinstance(v, (Int, bool, z3.BoolRef)):
        if isinstance(v, z3.BoolRef):
            v = ctx.branch(v)   # keep integers derived from flags concrete (forks)
        return ctx.m.cast(v, dst, 'IntToInt')
    if dst in ('f64', 'f32'):
        if isinstance(v, FP):
            return ctx.m.cast(v, dst, 'FloatToFloat')
        return ctx.m.cast(v, dst, 'IntToFloat')
    if dst == 'String':
        if isinstance(v, Int) and v.ty == 'char':
            return new_string_from([v], [ctx.char_width(v)])
        s = as_str(ctx, v)
        return new_string_from(s.chars(), s.widths())
    if dst == 'Vec':
        pv = ctx.m.peel(v)
        if isinstance(pv, VecObj):
            return pv
        if isinstance(pv, StringObj) or isinstance(pv, StrRef):
            return VecObj(str_bytes(ctx, as_str(ctx, pv)))
        sl = as_slice(ctx, pv)
        return VecObj([ctx.m.clone(x) for x in sl.items()])
    if dst == 'Option':
        return Some(v)
    if dst in ('HashSet', 'BTreeSet', 'HashMap', 'BTreeMap') and isinstance(v, Arr):
        from models_coll import map_find
        mp = MapObj(dst)
        for x in v.fields:
            if dst.endswith('Set'):
                if map_find(ctx, mp, x) is None:
                    mp.entries.append([x, None])
            else:
                e = map_find(ctx, mp, x.fields[0])
                if e is None:
                    mp.entries.append([x.fields[0], x.fields[1]])
                else:
                    e[1] = x.fields[1]
        return mp
    if dst in ('Box', 'Arc', 'Rc'):
        return BoxObj(v) if dst == 'Box' else ArcObj(v)
    if dst in ('Error', 'PyErr'):
        return Opaque(dst)
    if dst == 'Cow':
        pv = ctx.m.peel(v)
        if isinstance(pv, StringObj):
            return Enum('Cow', 'Owned', 1, [pv])
        return Enum('Cow', 'Borrowed', 0, [pv])
    if dst == 'PathBuf' or dst == 'OsString':
        return v
    # identity conversion (T: From<T>)
    return v


@model('TryFrom::try_from', 'TryInto::try_into')
def _try_from(ctx, args, ck):
    v = args[0]
    if ck.name == 'try_from':
        dst = ck.selfty
    else:
        g = re.search(r'TryInto<(.*)>>::try_into$', ck.raw)
        dst = type_head(g.group(1)) if g else ''
    if dst in INT_BITS and isinstance(v, Int):
        bits = INT_BITS[dst]
        lo = -(1 << (bits - 1)) if dst in SIGNED else 0
        hi = (1 << (bits - 1)) - 1 if dst in SIGNED else (1 << bits) - 1
        if isinstance(v.v, int):
            return Ok(Int(v.v, dst)) if lo <= v.v <= hi else Err(Opaque('TryFromIntError'))
        # compare in a width that holds both
        wide = max(bits, v.bits) + 1
        ext = z3.SignExt(wide - v.bits, v.v) if v.signed else z3.ZeroExt(wide - v.bits, v.v)
        inr = z3.And(ext >= z3.BitVecVal(lo, wide), ext <= z3.BitVecVal(hi, wide))
        if ctx.branch(inr):
            return Ok(ctx.m.int_cast(v, dst))
        return Err(Opaque('TryFromIntError'))
    raise Unsupported('TryFrom to ' + dst)


@model('AsRef::as_ref', 'Borrow::borrow', 'Deref::deref', 'DerefMut::deref_mut', 'AsMut::as_mut',
       'BorrowMut::borrow_mut')
def _deref(ctx, args, ck):
    r = args[0]
    v = ctx.m.peel(r)
    if isinstance(v, VecObj):
        return v.as_slice()
    if isinstance(v, StringObj):
        return v.as_str()
    if isinstance(v, (StrRef, SliceRef)):
        return v
    if isinstance(v, (BoxObj, ArcObj)):
        inner = v.fields[0]
        if isinstance(inner, (StrRef, SliceRef)):
            return inner
        return Ref(v.fields, 0)
    if isinstance(v, Arr):
        return SliceRef(v.fields, 0, len(v.fields))
    if isinstance(v, Enum) and v.ty == 'Cow':
        return _deref(ctx, [ref_to(v.fields[0])], ck)
    if isinstance(v, Struct):
        if v.ty == 'MutexGuard':
            return v.fields[0]
        if v.ty == 'Reverse':
            return Ref(v.fields, 0)
        # AsRef<T> for T etc.
        return r if isinstance(r, Ref) else ref_to(v)
    if isinstance(v, Opaque):
        return r
    return r if isinstance(r, Ref) else ref_to(v)


@model('Add::add', 'Sub::sub', 'Mul::mul', 'Div::div', 'Rem::rem', 'BitAnd::bitand', 'BitOr::bitor',
       'BitXor::bitxor', 'Shl::shl', 'Shr::shr')
def _arith(ctx, args, ck):
    a, b = ctx.m.peel(args[0]), ctx.m.peel(args[1])
    if isinstance(a, StringObj) and ck.name == 'add':
        string_push_str(ctx, a, as_str(ctx, b))
        return a
    op = {'add': 'Add', 'sub': 'Sub', 'mul': 'Mul', 'div': 'Div', 'rem': 'Rem', 'bitand': 'BitAnd',
          'bitor': 'BitOr', 'bitxor': 'BitXor', 'shl': 'Shl', 'shr': 'Shr'}[ck.name]
    return checked_arith(ctx, op, a, b)


def checked_arith(ctx, op, a, b):
    """Arithmetic through the operator traits: overflow panics (debug profile / overflow-checks=on)."""
    if isinstance(a, Int) and op in ('Add', 'Sub', 'Mul'):
        r = ctx.m.int_binop(op + 'WithOverflow', a, b)
        if ctx.branch(r.fields[1]):
            raise RustPanic('attempt to %s with overflow' % op.lower(), 'overflow')
        return r.fields[0]
    if isinstance(a, Int) and op in ('Div', 'Rem'):
        if ctx.branch(ctx.m.int_binop('Eq', b, Int(0, b.ty))):
            raise RustPanic('attempt to divide by zero', 'div0')
    return ctx.m.binop(op, a, b)


@model('AddAssign::add_assign', 'SubAssign::sub_assign', 'MulAssign::mul_assign', 'DivAssign::div_assign')
def _arith_assign(ctx, args, ck):
    r = args[0]
    a = r.get()
    b = ctx.m.peel(args[1])
    if isinstance(a, StringObj):
        string_push_str(ctx, a, as_str(ctx, b))
        return None
    op = {'add_assign': 'Add', 'sub_assign': 'Sub', 'mul_assign': 'Mul', 'div_assign': 'Div'}[ck.name]
    r.set(checked_arith(ctx, op, a, b))
    return None


@model('Not::not')
def _not(ctx, args, ck):
    return ctx.m.unop('Not', ctx.m.peel(args[0]))


@model('Neg::neg')
def _neg(ctx, args, ck):
    return ctx.m.unop('Neg', ctx.m.peel(args[0]))


@model('mem::swap')
def _swap(ctx, args, ck):
    a, b = args
    x, y = a.get(), b.get()
    a.set(y)
    b.set(x)
    return None


@model('mem::replace')
def _replace(ctx, args, ck):
    old = args[0].get()
    args[0].set(args[1])
    return old


@model('mem::take')
def _take(ctx, args, ck):
    old = args[0].get()
    if isinstance(old, VecObj):
        new = VecObj()
    elif isinstance(old, StringObj):
        new = StringObj()
    elif isinstance(old, Enum) and old.ty == 'Option':
        new = NONE()
    elif isinstance(old, Int):
        new = Int(0, old.ty)
    elif isinstance(old, MapObj):
        new = MapObj(old.kind)
    else:
        raise Unsupported('mem::take of ' + type(old).__name__)
    args[0].set(new)
    return old


@model('mem::drop', 'mem::forget')
def _drop(ctx, args, ck):
    return None


@model('Box::new', 'Box::pin')
def _box_new(ctx, args, ck):
    return BoxObj(args[0])


@model('Arc::new', 'Rc::new')
def _arc_new(ctx, args, ck):
    return ArcObj(args[0])


@model('boxed::box_new')
def _box_new2(ctx, args, ck):
    return BoxObj(args[0])


# =============================================================== Option / Result

def _some(v):
    return isinstance(v, Enum) and v.variant == 'Some'


@model('Option::is_some')
def _o_is_some(ctx, args, ck):
    return ctx.m.peel(args[0]).variant == 'Some'


@model('Option::is_none')
def _o_is_none(ctx, args, ck):
    return ctx.m.peel(args[0]).variant == 'None'


@model('Option::unwrap', 'Option::expect')
def _o_unwrap(ctx, args, ck):
    o = args[0]
    if o.variant == 'Some':
        return o.fields[0]
    msg = ''
    if len(args) > 1 and isinstance(args[1], StrRef):
        msg = args[1].concrete() or ''
    raise RustPanic('called `Option::unwrap()` on a `None` value ' + msg, 'unwrap')


@model('Option::unwrap_or')
def _o_unwrap_or(ctx, args, ck):
    return args[0].fields[0] if args[0].variant == 'Some' else args[1]


@model('Option::unwrap_or_default')
def _o_unwrap_or_default(ctx, args, ck):
    if args[0].variant == 'Some':
        return args[0].fields[0]
    tf = re.search(r'Option::<(.*)>::unwrap_or_default$', ck.raw)
    t = type_head(tf.group(1)) if tf else ''
    from resolve import CallKey
    return _default(ctx, [], CallKey('trait', t, 'Default', 'default', '', [], tf.group(1) if tf else ''))


@model('Option::unwrap_or_else')
def _o_unwrap_or_else(ctx, args, ck):
    if args[0].variant == 'Some':
        return args[0].fields[0]
    return ctx.m.call_value(args[1], [])


@model('Option::map')
def _o_map(ctx, args, ck):
    if args[0].variant == 'Some':
        return Some(ctx.m.call_value(args[1], [args[0].fields[0]]))
    return NONE()


@model('Option::map_or')
def _o_map_or(ctx, args, ck):
    if args[0].variant == 'Some':
        return ctx.m.call_value(args[2], [args[0].fields[0]])
    return args[1]


@model('Option::map_or_else')
def _o_map_or_else(ctx, args, ck):
    if args[0].variant == 'Some':
        return ctx.m.call_value(args[2], [args[0].fields[0]])
    return ctx.m.call_value(args[1], [])


@model('Option::and_then')
def _o_and_then(ctx, args, ck):
    if args[0].variant == 'Some':
        return ctx.m.call_value(args[1], [args[0].fields[0]])
    return NONE()


@model('Option::filter')
def _o_filter(ctx, args, ck):
    if args[0].variant == 'Some':
        if ctx.branch(ctx.m.call_value(args[1], [Ref(args[0].fields, 0)])):
            return args[0]
    return NONE()


@model('Option::or')
def _o_or(ctx, args, ck):
    return args[0] if args[0].variant == 'Some' else args[1]


@model('Option::or_else')
def _o_or_else(ctx, args, ck):
    return args[0] if args[0].variant == 'Some' else ctx.m.call_value(args[1], [])


@model('Option::ok_or')
def _o_ok_or(ctx, args, ck):
    return Ok(args[0].fields[0]) if args[0].variant == 'Some' else Err(args[1])


@model('Option::ok_or_else')
def _o_ok_or_else(ctx, args, ck):
    return Ok(args[0].fields[0]) if args[0].variant == 'Some' else Err(ctx.m.call_value(args[1], []))


@model('Option::as_ref', 'Option::as_mut')
def _o_as_ref(ctx, args, ck):
    o = ctx.m.peel(args[0])
    if o.variant == 'Some':
        return Some(Ref(o.fields, 0))
    return NONE()


@model('Option::as_deref', 'Option::as_deref_mut')
def _o_as_deref(ctx, args, ck):
    o = ctx.m.peel(args[0])
    if o.variant == 'Some':
        return Some(_deref(ctx, [Ref(o.fields, 0)], ck))
    return NONE()


@model('Option::take')
def _o_take(ctx, args, ck):
    old = args[0].get()
    args[0].set(NONE())
    return old


@model('Option::replace')
def _o_replace(ctx, args, ck):
    old = args[0].get()
    args[0].set(Some(args[1]))
    return old


@model('Option::insert', 'Option::get_or_insert')
def _o_insert(ctx, args, ck):
    o = args[0].get()
    if ck.name == 'get_or_insert' and o.variant == 'Some':
        return Ref(o.fields, 0)
    n = Some(args[1])
    args[0].set(n)
    return Ref(n.fields, 0)


@model('Option::get_or_insert_with')
def _o_get_or_insert_with(ctx, args, ck):
    o = args[0].get()
    if o.variant == 'Some':
        return Ref(o.fields, 0)
    n = Some(ctx.m.call_value(args[1], []))
    args[0].set(n)
    return Ref(n.fields, 0)


@model('Option::cloned', 'Option::copied')
def _o_cloned(ctx, args, ck):
    if args[0].variant == 'Some':
        return Some(ctx.m.clone(ctx.m.peel(args[0].fields[0])))
    return NONE()


@model('Option::is_some_and')
def _o_is_some_and(ctx, args, ck):
    if args[0].variant == 'Some':
        return ctx.m.call_value(args[1], [args[0].fields[0]])
    return False


@model('Option::is_none_or')
def _o_is_none_or(ctx, args, ck):
    if args[0].variant == 'Some':
        return ctx.m.call_value(args[1], [args[0].fields[0]])
    return True


@model('Option::zip')
def _o_zip(ctx, args, ck):
    if args[0].variant == 'Some' and args[1].variant == 'Some':
        return Some(Tup([args[0].fields[0], args[1].fields[0]]))
    return NONE()


@model('Option::iter', 'Option::into_iter')
def _o_iter(ctx, args, ck):
    o = ctx.m.peel(args[0])
    if o.variant == 'Some':
        return ListIter([Ref(o.fields, 0) if ck.name == 'iter' else o.fields[0]])
    return ListIter([])


@model('Result::is_ok')
def _r_is_ok(ctx, args, ck):
    return ctx.m.peel(args[0]).variant == 'Ok'


@model('Result::is_err')
def _r_is_err(ctx, args, ck):
    return ctx.m.peel(args[0]).variant == 'Err'


@model('Result::unwrap', 'Result::expect')
def _r_unwrap(ctx, args, ck):
    if args[0].variant == 'Ok':
        return args[0].fields[0]
    raise RustPanic('called `Result::unwrap()` on an `Err` value', 'unwrap')


@model('Result::unwrap_err', 'Result::expect_err')
def _r_unwrap_err(ctx, args, ck):
    if args[0].variant == 'Err':
        return args[0].fields[0]
    raise RustPanic('called `Result::unwrap_err()` on an `Ok` value', 'unwrap')


@model('Result::unwrap_or')
def _r_unwrap_or(ctx, args, ck):
    return args[0].fields[0] if args[0].variant == 'Ok' else args[1]


@model('Result::unwrap_or_else')
def _r_unwrap_or_else(ctx, args, ck):
    if args[0].variant == 'Ok':
        return args[0].fields[0]
    return ctx.m.call_value(args[1], [args[0].fields[0]])


@model('Result::unwrap_or_default')
def _r_unwrap_or_default(ctx, args, ck):
    if args[0].variant == 'Ok':
        return args[0].fields[0]
    raise Unsupported('Result::unwrap_or_default on Err')


@model('Result::ok')
def _r_ok(ctx, args, ck):
    return Some(args[0].fields[0]) if args[0].variant == 'Ok' else NONE()


@model('Result::err')
def _r_err(ctx, args, ck):
    return Some(args[0].fields[0]) if args[0].variant == 'Err' else NONE()


@model('Result::map')
def _r_map(ctx, args, ck):
    if args[0].variant == 'Ok':
        return Ok(ctx.m.call_value(args[1], [args[0].fields[0]]))
    return args[0]


@model('Result::map_err')
def _r_map_err(ctx, args, ck):
    if args[0].variant == 'Err':
        return Err(ctx.m.call_value(args[1], [args[0].fields[0]]))
    return args[0]


@model('Result::and_then')
def _r_and_then(ctx, args, ck):
    if args[0].variant == 'Ok':
        return ctx.m.call_value(args[1], [args[0].fields[0]])
    return args[0]


@model('Result::as_ref', 'Result::as_mut')
def _r_as_ref(ctx, args, ck):
    r = ctx.m.peel(args[0])
    return Enum('Result', r.variant, r.idx, [Ref(r.fields, 0)])


@model('Try::branch')
def _try_branch(ctx, args, ck):
    v = args[0]
    if v.ty == 'Result':
        if v.variant == 'Ok':
            return Enum('ControlFlow', 'Continue', 0, [v.fields[0]])
        return Enum('ControlFlow', 'Break', 1, [Err(v.fields[0])])
    if v.ty == 'Option':
        if v.variant == 'Some':
            return Enum('ControlFlow', 'Continue', 0, [v.fields[0]])
        return Enum('ControlFlow', 'Break', 1, [NONE()])
    raise Unsupported('Try::branch on ' + v.ty)


@model('FromResidual::from_residual')
def _from_residual(ctx, args, ck):
    v = args[0]
    if isinstance(v, Enum) and v.ty == 'Result' and v.variant == 'Err':
        return Err(v.fields[0])
    if isinstance(v, Enum) and v.ty == 'Option':
        if ck.selfty == 'Result':
            raise Unsupported('from_residual Option->Result')
        return NONE()
    raise Unsupported('from_residual of %r' % (v,))


@model('Try::from_output')
def _from_output(ctx, args, ck):
    if ck.selfty == 'Option':
        return Some(args[0])
    return Ok(args[0])


# =============================================================== integers / chars / floats

def _int_method(name):
    def deco(f):
        for t in INT_BITS:
            if t != 'char':
                MODELS['%s::%s' % (t, name)] = f
        return f
    return deco


@_int_method('saturating_sub')
def _sat_sub(ctx, args, ck):
    a, b = args
    if isinstance(a.v, int) and isinstance(b.v, int):
        if a.signed:
            lo, hi = -(1 << (a.bits - 1)), (1 << (a.bits - 1)) - 1
            return Int(max(lo, min(hi, a.v - b.v)), a.ty)
        return Int(max(0, a.v - b.v), a.ty)
    if a.signed:
        raise Unsupported('signed symbolic saturating_sub')
    if ctx.branch(z3.ULT(a.z(), b.z())):
        return Int(0, a.ty)
    return Int(a.z() - b.z(), a.ty)


@_int_method('saturating_add')
def _sat_add(ctx, args, ck):
    a, b = args
    if isinstance(a.v, int) and isinstance(b.v, int):
        if a.signed:
            lo, hi = -(1 << (a.bits - 1)), (1 << (a.bits - 1)) - 1
            return Int(max(lo, min(hi, a.v + b.v)), a.ty)
        return Int(min((1 << a.bits) - 1, a.v + b.v), a.ty)
    if a.signed:
        raise Unsupported('signed symbolic saturating_add')
    s = a.z() + b.z()
    return Int(z3.If(z3.ULT(s, a.z()), z3.BitVecVal((1 << a.bits) - 1, a.bits), s), a.ty)


@_int_method('wrapping_add')
def _wr_add(ctx, args, ck):
    return ctx.m.int_binop('Add', args[0], args[1])


@_int_method('wrapping_sub')
def _wr_sub(ctx, args, ck):
    return ctx.m.int_binop('Sub', args[0], args[1])


@_int_method('wrapping_mul')
def _wr_mul(ctx, args, ck):
    return ctx.m.int_binop('Mul', args[0], args[1])


def _checked(op):
    def f(ctx, args, ck):
        r = ctx.m.int_binop(op + 'WithOverflow', args[0], args[1])
        if ctx.branch(r.fields[1]):
            return NONE()
        return Some(r.fields[0])
    return f


for _t in INT_BITS:
    if _t != 'char':
        MODELS['%s::checked_add' % _t] = _checked('Add')
        MODELS['%s::checked_sub' % _t] = _checked('Sub')
        MODELS['%s::checked_mul' % _t] = _checked('Mul')


@_int_method('checked_div')
def _checked_div(ctx, args, ck):
    if ctx.branch(ctx.m.int_binop('Eq', args[1], Int(0, args[1].ty))):
        return NONE()
    return Some(ctx.m.int_binop('Div', args[0], args[1]))


@_int_method('min')
def _imin(ctx, args, ck):
    return val_min(ctx, args[0], args[1])


@_int_method('max')
def _imax(ctx, args, ck):
    return val_max(ctx, args[0], args[1])


@_int_method('pow')
def _ipow(ctx, args, ck):
    a, e = args
    if not isinstance(e.v, int):
        raise Unsupported('symbolic exponent')
    r = Int(1, a.ty)
    for _ in range(e.v):
        r = checked_arith(ctx, 'Mul', r, a)
    return r


@_int_method('abs_diff')
def _abs_diff(ctx, args, ck):
    a, b = args
    if ctx.branch(ctx.m.int_binop('Lt', a, b)):
        return ctx.m.int_binop('Sub', b, a)
    return ctx.m.int_binop('Sub', a, b)


@_int_method('is_power_of_two')
def _is_pow2(ctx, args, ck):
    a = args[0]
    if isinstance(a.v, int):
        return a.v > 0 and (a.v & (a.v - 1)) == 0
    return z3.And(a.v != 0, (a.v & (a.v - 1)) == 0)


@_int_method('div_ceil')
def _div_ceil(ctx, args, ck):
    a, b = args
    if ctx.branch(ctx.m.int_binop('Eq', b, Int(0, b.ty))):
        raise RustPanic('attempt to divide by zero', 'div0')
    q = ctx.m.int_binop('Div', a, b)
    r = ctx.m.int_binop('Rem', a, b)
    if ctx.branch(ctx.m.int_binop('Ne', r, Int(0, a.ty))):
        return ctx.m.int_binop('Add', q, Int(1, a.ty))
    return q


@_int_method('next_multiple_of')
def _next_multiple(ctx, args, ck):
    a, b = args
    if ctx.branch(ctx.m.int_binop('Eq', b, Int(0, b.ty))):
        raise RustPanic('attempt to calculate the remainder with a divisor of zero', 'div0')
    r = ctx.m.int_binop('Rem', a, b)
    if ctx.branch(ctx.m.int_binop('Eq', r, Int(0, a.ty))):
        return a
    return checked_arith(ctx, 'Add', a, ctx.m.int_binop('Sub', b, r))


@model('char::is_whitespace')
def _char_is_ws(ctx, args, ck):
    return char_is_whitespace(ctx.m.peel(args[0]))


@model('char::len_utf8')
def _char_len_utf8(ctx, args, ck):
    return Int(ctx.char_width(ctx.m.peel(args[0])), 'usize')


@model('char::is_ascii')
def _char_is_ascii(ctx, args, ck):
    c = ctx.m.peel(args[0])
    return ctx.m.int_binop('Lt', c, Int(0x80, c.ty))


@model('u8::is_ascii')
def _u8_is_ascii(ctx, args, ck):
    c = ctx.m.peel(args[0])
    return ctx.m.int_binop('Lt', c, Int(0x80, c.ty))


@model('char::from_u32')
def _char_from_u32(ctx, args, ck):
    v = args[0]
    c = Int(v.v, 'char')
    ok = ctx.m.conj([ctx.m.int_binop('Lt', c, Int(0x110000, 'char')),
                     ctx.m.disj([ctx.m.int_binop('Lt', c, Int(0xD800, 'char')),
                                 ctx.m.int_binop('Ge', c, Int(0xE000, 'char'))])])
    if ctx.branch(ok):
        return Some(c)
    return NONE()


@model('char::is_alphabetic', 'char::is_numeric', 'char::is_alphanumeric', 'char::is_uppercase',
       'char::is_lowercase', 'char::is_ascii_punctuation', 'char::is_ascii_digit', 'char::is_ascii_alphabetic',
       'char::is_ascii_alphanumeric', 'char::is_control', 'char::is_ascii_whitespace',
       'char::is_ascii_uppercase', 'char::is_ascii_lowercase')
def _char_class(ctx, args, ck):
    c = ctx.m.peel(args[0])
    if not isinstance(c.v, int):
        # only decided for ASCII symbolic chars; anything else is outside the encoder
        if not ctx.must(z3.ULT(c.v, 0x80)):
            raise Unsupported('char::%s on non-ASCII symbolic char' % ck.name)
        for k in range(0x80):
            if ctx.branch(c.v == k):
                c = Int(k, 'char')
                break
    ch = chr(c.v)
    n = ck.name
    if n == 'is_alphabetic':
        return ch.isalpha()
    if n == 'is_numeric':
        import unicodedata
        return unicodedata.category(ch) in ('Nd', 'Nl', 'No')
    if n == 'is_alphanumeric':
        import unicodedata
        return ch.isalpha() or unicodedata.category(ch) in ('Nd', 'Nl', 'No')
    if n == 'is_uppercase':
        return ch.isupper()
    if n == 'is_lowercase':
        return ch.islower()
    if n == 'is_ascii_punctuation':
        return c.v < 128 and ch in '!"#$%&\'()*+,-./:;<=>?@[\\]^_`{|}~'
    if n == 'is_ascii_digit':
        return '0' <= ch <= '9'
    if n == 'is_ascii_alphabetic':
        return c.v < 128 and ch.isalpha()
    if n == 'is_ascii_alphanumeric':
        return c.v < 128 and ch.isalnum()
    if n == 'is_control':
        import unicodedata
        return unicodedata.category(ch) == 'Cc'
    if n == 'is_ascii_whitespace':
        return ch in ' \t\n\x0c\r'
    if n == 'is_ascii_uppercase':
        return 'A' <= ch <= 'Z'
    if n == 'is_ascii_lowercase':
        return 'a' <= ch <= 'z'
    raise Unsupported(n)


def _fp_unary(name):
    def deco(f):
        MODELS['f64::' + name] = f
        MODELS['f32::' + name] = f
        return f
    return deco


@_fp_unary('max')
def _fmax(ctx, args, ck):
    a, b = args
    if isinstance(a.v, float) and isinstance(b.v, float):
        if a.v != a.v:
            return b
        if b.v != b.v:
            return a
        return FP(max(a.v, b.v), a.ty)
    return FP(z3.fpMax(a.z(), b.z()), a.ty)


@_fp_unary('min')
def _fmin(ctx, args, ck):
    a, b = args
    if isinstance(a.v, float) and isinstance(b.v, float):
        if a.v != a.v:
            return b
        if b.v != b.v:
            return a
        return FP(min(a.v, b.v), a.ty)
    return FP(z3.fpMin(a.z(), b.z()), a.ty)


@_fp_unary('powi')
def _powi(ctx, args, ck):
    a, n = args
    if not isinstance(n.v, int):
        raise Unsupported('symbolic powi exponent')
    if n.v < 0:
        raise Unsupported('negative powi')
    r = FP(1.0, a.ty)
    for _ in range(n.v):
        r = ctx.m.fp_binop('Mul', r, a)
    return r


@_fp_unary('abs')
def _fabs(ctx, args, ck):
    a = args[0]
    if isinstance(a.v, float):
        return FP(abs(a.v), a.ty)
    return FP(z3.fpAbs(a.v), a.ty)


def _round_model(rm_name, pyf):
    def f(ctx, args, ck):
        a = args[0]
        if isinstance(a.v, float):
            import math
            if a.v != a.v or math.isinf(a.v):
                return a
            return FP(float(pyf(a.v)), a.ty)
        rm = {'ceil': z3.RTP(), 'floor': z3.RTN(), 'trunc': z3.RTZ(), 'round': z3.RNA()}[rm_name]
        return FP(z3.fpRoundToIntegral(rm, a.v), a.ty)
    return f


import math as _math
for _n, _f in (('ceil', _math.ceil), ('floor', _math.floor), ('trunc', _math.trunc),
               ('round', lambda x: _math.floor(abs(x) + 0.5) * (1 if x >= 0 else -1))):
    MODELS['f64::' + _n] = _round_model(_n, _f)
    MODELS['f32::' + _n] = _round_model(_n, _f)


@_fp_unary('is_nan')
def _is_nan(ctx, args, ck):
    a = args[0]
    if isinstance(a.v, float):
        return a.v != a.v
    return z3.fpIsNaN(a.v)


@_fp_unary('is_finite')
def _is_finite(ctx, args, ck):
    a = args[0]
    if isinstance(a.v, float):
        return not (a.v != a.v or _math.isinf(a.v))
    return z3.Not(z3.Or(z3.fpIsNaN(a.v), z3.fpIsInf(a.v)))


@_fp_unary('sqrt')
def _fsqrt(ctx, args, ck):
    a = args[0]
    if isinstance(a.v, float):
        return FP(_math.sqrt(a.v) if a.v >= 0 else _math.nan, a.ty)
    return FP(z3.fpSqrt(z3.RNE(), a.v), a.ty)


@_fp_unary('total_cmp')
def _total_cmp(ctx, args, ck):
    a, b = ctx.m.peel(args[0]), ctx.m.peel(args[1])
    if ctx.branch(ctx.m.fp_binop('Lt', a, b)):
        return Ordering('Less')
    if ctx.branch(ctx.m.fp_binop('Gt', a, b)):
        return Ordering('Greater')
    if ctx.branch(ctx.m.fp_binop('Eq', a, b)):
        return Ordering('Equal')
    raise Unsupported('total_cmp with NaN')


# =============================================================== str bytes helpers

def char_utf8_bytes(ctx, c):
    """UTF-8 encoding of a char as list of u8 Ints (width concrete on the path)."""
    w = ctx.char_width(c)
    if isinstance(c.v, int):
        return [Int(b, 'u8') for b in chr(c.v).encode('utf-8', 'surrogatepass')]
    v = c.v
    ex = lambda hi, lo: z3.Extract(hi, lo, v)
    if w == 1:
        return [Int(ex(7, 0), 'u8')]
    if w == 2:
        return [Int(z3.Concat(z3.BitVecVal(0b110, 3), ex(10, 6)), 'u8'),
                Int(z3.Concat(z3.BitVecVal(0b10, 2), ex(5, 0)), 'u8')]
    if w == 3:
        return [Int(z3.Concat(z3.BitVecVal(0b1110, 4), ex(15, 12)), 'u8'),
                Int(z3.Concat(z3.BitVecVal(0b10, 2), ex(11, 6)), 'u8'),
                Int(z3.Concat(z3.BitVecVal(0b10, 2), ex(5, 0)), 'u8')]
    return [Int(z3.Concat(z3.BitVecVal(0b11110, 5), ex(20, 18)), 'u8'),
            Int(z3.Concat(z3.BitVecVal(0b10, 2), ex(17, 12)), 'u8'),
            Int(z3.Concat(z3.BitVecVal(0b10, 2), ex(11, 6)), 'u8'),
            Int(z3.Concat(z3.BitVecVal(0b10, 2), ex(5, 0)), 'u8')]


def str_bytes(ctx, s):
    out = []
    for c in s.chars():
        out.extend(char_utf8_bytes(ctx, c))
    return out


def decode_utf8(ctx, bytes_):
    """Decode a list of u8 Ints; returns (chars, widths) or None when invalid. Forks on symbolic lead bytes."""
    m = ctx.m
    chars, widths = [], []
    i = 0
    n = len(bytes_)

    def in_range(b, lo, hi):
        if isinstance(b.v, int):
            return lo <= b.v <= hi
        return z3.And(z3.UGE(b.v, lo), z3.ULE(b.v, hi))

    def bits(b, hi, lo):
        if isinstance(b.v, int):
            return z3.BitVecVal((b.v >> lo) & ((1 << (hi - lo + 1)) - 1), hi - lo + 1)
        return z3.Extract(hi, lo, b.v)

    def mk(parts, w):
        total = sum(p.size() for p in parts)
        t = z3.Concat(*([z3.BitVecVal(0, 32 - total)] + parts)) if total < 32 else z3.Concat(*parts)
        t = z3.simplify(t)
        if z3.is_bv_value(t):
            return Int(t.as_long(), 'char')
        return Int(t, 'char', w)

    while i < n:
        b0 = bytes_[i]
        if ctx.branch(in_range(b0, 0, 0x7F)):
            if isinstance(b0.v, int):
                chars.append(Int(b0.v, 'char'))
            else:
                chars.append(Int(z3.ZeroExt(24, b0.v), 'char', 1))
            widths.append(1)
            i += 1
            continue
        if ctx.branch(in_range(b0, 0xC2, 0xDF)):
            if i + 1 >= n or not ctx.branch(in_range(bytes_[i + 1], 0x80, 0xBF)):
                return None
            chars.append(mk([bits(b0, 4, 0), bits(bytes_[i + 1], 5, 0)], 2))
            widths.append(2)
            i += 2
            continue
        if ctx.branch(in_range(b0, 0xE0, 0xEF)):
            if i + 2 >= n:
                return None
            b1, b2 = bytes_[i + 1], bytes_[i + 2]
            if ctx.branch(in_range(b0, 0xE0, 0xE0)):
                ok1 = in_range(b1, 0xA0, 0xBF)
            elif ctx.branch(in_range(b0, 0xED, 0xED)):
                ok1 = in_range(b1, 0x80, 0x9F)
            else:
                ok1 = in_range(b1, 0x80, 0xBF)
            if not ctx.branch(ok1) or not ctx.branch(in_range(b2, 0x80, 0xBF)):
                return None
            chars.append(mk([bits(b0, 3, 0), bits(b1, 5, 0), bits(b2, 5, 0)], 3))
            widths.append(3)
            i += 3
            continue
        if ctx.branch(in_range(b0, 0xF0, 0xF4)):
            if i + 3 >= n:
                return None
            b1, b2, b3 = bytes_[i + 1], bytes_[i + 2], bytes_[i + 3]
            if ctx.branch(in_range(b0, 0xF0, 0xF0)):
                ok1 = in_range(b1, 0x90, 0xBF)
            elif ctx.branch(in_range(b0, 0xF4, 0xF4)):
                ok1 = in_range(b1, 0x80, 0x8F)
            else:
                ok1 = in_range(b1, 0x80, 0xBF)
            if not ctx.branch(ok1) or not ctx.branch(in_range(b2, 0x80, 0xBF)) \
                    or not ctx.branch(in_range(b3, 0x80, 0xBF)):
                return None
            chars.append(mk([bits(b0, 2, 0), bits(b1, 5, 0), bits(b2, 5, 0), bits(b3, 5, 0)], 4))
            widths.append(4)
            i += 4
            continue
        return None
    return chars, widths


# list-backed iterator used by several models
class ListIter(Iter):
    double_ended = True

    def __init__(self, items):
        self.items = list(items)
        self.i = 0
        self.j = len(self.items)

    def nxt(self, ctx):
        if self.i >= self.j:
            return STOP
        v = self.items[self.i]
        self.i += 1
        return v

    def nxt_back(self, ctx):
        if self.i >= self.j:
            return STOP
        self.j -= 1
        return self.items[self.j]

    def remaining(self):
        return self.j - self.i


def range_next(ctx, r):
    """<Range<T> as Iterator>::next on the Struct(start, end) in place."""
    start, end = r.fields[0], r.fields[1]
    if r.ty == 'RangeInclusive':
        if r.fields[2] is True:
            return STOP
        if ctx.branch(ctx.m.int_binop('Lt', start, end)):
            r.fields[0] = ctx.m.int_binop('Add', start, Int(1, start.ty))
            return start
        if ctx.branch(ctx.m.int_binop('Eq', start, end)):
            r.fields[2] = True
            return start
        r.fields[2] = True
        return STOP
    if ctx.branch(ctx.m.int_binop('Lt', start, end)):
        r.fields[0] = ctx.m.int_binop('Add', start, Int(1, start.ty))
        return start
    return STOP


def range_next_back(ctx, r):
    start, end = r.fields[0], r.fields[1]
    if ctx.branch(ctx.m.int_binop('Lt', start, end)):
        r.fields[1] = ctx.m.int_binop('Sub', end, Int(1, end.ty))
        return r.fields[1]
    return STOP


@model('RangeInclusive::new')
def _range_inclusive_new(ctx, args, ck):
    return Struct('RangeInclusive', [args[0], args[1], False], ['start', 'end', 'exhausted'])


@model('RangeInclusive::start')
def _ri_start(ctx, args, ck):
    return Ref(ctx.m.peel(args[0]).fields, 0)


@model('RangeInclusive::end')
def _ri_end(ctx, args, ck):
    return Ref(ctx.m.peel(args[0]).fields, 1)


@model('RangeInclusive::contains', 'Range::contains')
def _range_contains(ctx, args, ck):
    r = ctx.m.peel(args[0])
    x = ctx.m.peel(args[1])
    lo = ctx.m.int_binop('Ge', x, r.fields[0])
    hi = ctx.m.int_binop('Le' if r.ty == 'RangeInclusive' else 'Lt', x, r.fields[1])
    return ctx.m.conj([lo, hi])


@model('Range::is_empty')
def _range_is_empty(ctx, args, ck):
    r = ctx.m.peel(args[0])
    return ctx.m.int_binop('Ge', r.fields[0], r.fields[1])


@model('Range::len')
def _range_len(ctx, args, ck):
    r = ctx.m.peel(args[0])
    if ctx.branch(ctx.m.int_binop('Lt', r.fields[0], r.fields[1])):
        return ctx.m.int_binop('Sub', r.fields[1], r.fields[0])
    return Int(0, 'usize')


@model('Box::new_uninit')
def _box_new_uninit(ctx, args, ck):
    # Box<MaybeUninit<T>>: MaybeUninit { uninit: (), value: ManuallyDrop { value: MaybeDangling(T) } }
    return BoxObj(Struct('MaybeUninit', [None, Struct('ManuallyDrop', [Struct('MaybeDangling', [None])])]))


@model('boxed::box_assume_init_into_vec_unsafe')
def _box_into_vec(ctx, args, ck):
    arr = args[0].fields[0].fields[1].fields[0].fields[0]
    if not isinstance(arr, Arr):
        raise Unsupported('vec! lowering: unexpected box content %r' % (arr,))
    return VecObj(list(arr.fields))


@model('Box::assume_init')
def _box_assume_init(ctx, args, ck):
    return BoxObj(args[0].fields[0].fields[1].fields[0].fields[0])


@_int_method('saturating_mul')
def _sat_mul(ctx, args, ck):
    a, b = args
    r = ctx.m.int_binop('MulWithOverflow', a, b)
    if a.signed:
        raise Unsupported('signed saturating_mul')
    if ctx.branch(r.fields[1]):
        return Int((1 << a.bits) - 1, a.ty)
    return r.fields[0]


@_int_method('overflowing_add')
def _ovf_add(ctx, args, ck):
    return ctx.m.int_binop('AddWithOverflow', args[0], args[1])


@_int_method('overflowing_sub')
def _ovf_sub(ctx, args, ck):
    return ctx.m.int_binop('SubWithOverflow', args[0], args[1])


@_int_method('overflowing_mul')
def _ovf_mul(ctx, args, ck):
    return ctx.m.int_binop('MulWithOverflow', args[0], args[1])


@_int_method('count_ones')
def _count_ones(ctx, args, ck):
    a = args[0]
    if isinstance(a.v, int):
        return Int(bin(a.v & ((1 << a.bits) - 1)).count('1'), 'u32')
    raise Unsupported('symbolic count_ones')


@_fp_unary('clamp')
def _fclamp(ctx, args, ck):
    x, lo, hi = args
    bad = ctx.m.bnot(ctx.m.fp_binop('Le', lo, hi))
    if ctx.branch(bad):
        raise RustPanic('min > max, or either was NaN', 'assert')
    if ctx.branch(ctx.m.fp_binop('Lt', x, lo)):
        return lo
    if ctx.branch(ctx.m.fp_binop('Gt', x, hi)):
        return hi
    return x


def _u8_class(name, pred_py, pred_z3):
    def f(ctx, args, ck):
        c = ctx.m.peel(args[0])
        if isinstance(c.v, int):
            return pred_py(c.v)
        return pred_z3(c.v)
    MODELS['u8::' + name] = f


_u8_class('is_ascii_whitespace', lambda v: v in (0x20, 0x09, 0x0A, 0x0C, 0x0D),
          lambda v: z3.Or(v == 0x20, v == 0x09, v == 0x0A, v == 0x0C, v == 0x0D))
_u8_class('is_ascii_digit', lambda v: 0x30 <= v <= 0x39, lambda v: z3.And(z3.UGE(v, 0x30), z3.ULE(v, 0x39)))
_u8_class('is_ascii_alphabetic', lambda v: 0x41 <= v <= 0x5A or 0x61 <= v <= 0x7A,
          lambda v: z3.Or(z3.And(z3.UGE(v, 0x41), z3.ULE(v, 0x5A)), z3.And(z3.UGE(v, 0x61), z3.ULE(v, 0x7A))))
_u8_class('is_ascii_uppercase', lambda v: 0x41 <= v <= 0x5A, lambda v: z3.And(z3.UGE(v, 0x41), z3.ULE(v, 0x5A)))
_u8_class('is_ascii_lowercase', lambda v: 0x61 <= v <= 0x7A, lambda v: z3.And(z3.UGE(v, 0x61), z3.ULE(v, 0x7A)))
_u8_class('is_ascii_punctuation', lambda v: (0x21 <= v <= 0x2F) or (0x3A <= v <= 0x40) or (0x5B <= v <= 0x60) or (0x7B <= v <= 0x7E),
          lambda v: z3.Or(z3.And(z3.UGE(v, 0x21), z3.ULE(v, 0x2F)), z3.And(z3.UGE(v, 0x3A), z3.ULE(v, 0x40)),
                          z3.And(z3.UGE(v, 0x5B), z3.ULE(v, 0x60)), z3.And(z3.UGE(v, 0x7B), z3.ULE(v, 0x7E))))


@model('str::is_ascii', 'String::is_ascii')
def _str_is_ascii(ctx, args, ck):
    s = as_str(ctx, args[0])
    return all(w == 1 for w in s.widths())


@model('[]::is_ascii')
def _slice_is_ascii(ctx, args, ck):
    s = as_slice(ctx, args[0])
    return ctx.m.conj([ctx.m.int_binop('Lt', ctx.m.peel(b), Int(0x80, 'u8')) for b in s.items()])


@model('char::is_ascii_whitespace#', 'char::to_ascii_lowercase', 'char::to_ascii_uppercase')
def _char_ascii_case(ctx, args, ck):
    c = ctx.m.peel(args[0])
    lower = 'lower' in ck.name
    if isinstance(c.v, int):
        ch = chr(c.v)
        if c.v < 128:
            ch = ch.lower() if lower else ch.upper()
        return Int(ord(ch), 'char')
    if lower:
        return Int(z3.If(z3.And(z3.UGE(c.v, 0x41), z3.ULE(c.v, 0x5A)), c.v + 32, c.v), 'char', c.w)
    return Int(z3.If(z3.And(z3.UGE(c.v, 0x61), z3.ULE(c.v, 0x7A)), c.v - 32, c.v), 'char', c.w)


@model('char::encode_utf8')
def _char_encode_utf8(ctx, args, ck):
    c = args[0]
    w = ctx.char_width(c)
    buf = StrBuf([c], [w])
    # the destination buffer is not written (only the returned &mut str is used by callers in this crate)
    return StrRef(buf, 0, w)


@model('char::to_string')
def _char_to_string(ctx, args, ck):
    c = ctx.m.peel(args[0])
    return new_string_from([c], [ctx.char_width(c)])


# ---------------------------------------------------------------- ndarray: (shape, flat row-major data)
@model('ArrayBase::from_shape_vec')
def _nd_from_shape_vec(ctx, args, ck):
    shape = args[0]
    dims = shape.fields if isinstance(shape, Tup) else [shape]
    v = args[1]
    total = Int(1, 'usize')
    for d in dims:
        total = checked_arith(ctx, 'Mul', total, d)
    if not ctx.branch(ctx.m.int_binop('Eq', total, Int(len(v.items), 'usize'))):
        return Err(Opaque('ShapeError'))
    return Ok(Struct('NdArray', [Tup(list(dims)), v], ['shape', 'data']))


@model('ArrayBase::ncols', 'ArrayBase::nrows', 'ArrayBase::len', 'ArrayBase::dim', 'ArrayBase::shape')
def _nd_dims(ctx, args, ck):
    a = ctx.m.peel(args[0])
    dims = a.get('shape').fields
    if ck.name == 'nrows':
        return dims[0]
    if ck.name == 'ncols':
        return dims[1] if len(dims) > 1 else Int(1, 'usize')
    if ck.name == 'len':
        return Int(len(a.get('data').items), 'usize')
    if ck.name == 'dim':
        return dims[0] if len(dims) == 1 else Tup(list(dims))
    from values import SliceRef
    return SliceRef(list(dims), 0, len(dims))


@model('ArrayBase::from_elem')
def _nd_from_elem(ctx, args, ck):
    shape = ctx.m.peel(args[0])
    dims = list(shape.fields) if isinstance(shape, Tup) else [shape]
    total = 1
    for d in dims:
        k = ctx.concretize(d, 0, 4096)
        if k is None:
            raise Unsupported('ndarray from_elem with an unbounded symbolic dimension')
        total *= k
    return Struct('NdArray', [Tup(dims), VecObj([args[1]] * total)], ['shape', 'data'])


@model('ArrayBase::rows_mut', 'ArrayBase::rows', 'ArrayBase::outer_iter', 'ArrayBase::outer_iter_mut')
def _nd_rows(ctx, args, ck):
    # rows of a 2-d array as windows of the row-major data (mutations through them reach the array)
    a = ctx.m.peel(args[0])
    dims = a.get('shape').fields
    if len(dims) != 2 or not all(isinstance(d.v, int) for d in dims):
        raise Unsupported('rows of a non-2d / symbolic-shape array')
    r, w = dims[0].v, dims[1].v
    data = a.get('data').items
    return ListIter([SliceRef(data, i * w, (i + 1) * w) for i in range(r)])


@model('ArrayBase::iter_mut', 'ArrayBase::iter')
def _nd_iter(ctx, args, ck):
    from models_iter import SliceIter
    a = ctx.m.peel(args[0])
    if isinstance(a, SliceRef):
        return SliceIter(a.cont, a.lo, a.hi)
    items = a.get('data').items
    return SliceIter(items, 0, len(items))


@model('ArrayBase::from_vec')
def _nd_from_vec(ctx, args, ck):
    v = args[0]
    return Struct('NdArray', [Tup([Int(len(v.items), 'usize')]), v], ['shape', 'data'])
