import sys, time
sys.path.insert(0,'.')
import engine, harnesses, build
from interp import Machine
prog,res=engine.load(build.mir_dump()[0],'/repo')
h=harnesses.get('c10')
shapes=[s for s in h.shapes('quick') if s['mode']=='inv' and s['g'] and len(s['widths'])==3]
print(len(shapes))
for i,shape in enumerate(shapes):
    m=Machine(prog,res)
    r=engine.explore(m, lambda ctx: h.run(ctx, shape, {}))
    if r['violations'] or r['unsupported']:
        print(i, shape, r['violations'][:1], r['unsupported'][:1]); break
