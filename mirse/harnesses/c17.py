"""C17: token groups partition the token sequence; tensorisation is faithful."""
import z3
from values import *
from harnesses.hlib import *
from harnesses.tok_common import *
from harnesses import c01

PROPERTY = 'C17'
VALIDATE_MODELS = ['utf8', 'graphemes']
VALIDATION_CASES = {'quick': 60, 'thorough': 200}
TIME_BUDGET = {'quick': 900, 'thorough': 3300}
OPTS = {'quick': {'hash_order': 'insertion', 'step_budget': 3000000}, 'thorough': {'hash_order': 'insertion', 'step_budget': 6000000}}
BOUNDS = {
    'quick': 'groups: byte tokenizer over the C01 text templates (symbolic characters, special-token spellings), byte / '
             'code-point groups, graphemes on/off, prefix/suffix configs, ignore_special_tokens symbolic; sparse matrix: batches '
             'of 1-3 groupings chosen from 6 real tokenizations (every composition), mean / sum, and batches of 1-2 groupings chosen from 6 token-group trees of 2-4 nesting levels; padding: batches of 1-3 items '
             'with 0-3 symbolic token ids / labels, all four task-input kinds, symbolic pad ids; padding_mask for the same lengths',
    'thorough': 'same with the thorough C01 templates and batches of up to 4 items',
}
OUTSIDE = ['prepare_info (dead code in the crate)', 'numpy / Python conversion of the tensors', 'longer texts and batches']
ASSUMPTIONS = ['ndarray arrays modelled as (shape, row-major data) with the from_shape_vec length check',
               'f32 weights: IEEE-754 binary32 arithmetic on concrete lengths; per-group sums compared with 1 within 1e-6']
KNOWN_MATCHERS = {}
POOL = ['a', 'täst', '', 'a<pad>b', '中😀', 'é x']
KINDS = ['Classification', 'SequenceClassification', 'Generation', 'ConditionalGeneration']


def shapes(tier):
    out = []
    for t in c01.templates(tier):
        for sp in ('default', 'bos_eos'):
            for g in (False, True):
                for groups in ('Bytes', 'CodePoints'):
                    out.append({'mode': 'groups', 'template': t, 'special': sp, 'g': g, 'groups': groups, 'pad_to': None})
    nb = 3 if tier == 'quick' else 4
    for b in range(1, nb + 1):
        for agg in ('Mean', 'Sum'):
            for groups in ('Bytes', 'CodePoints'):
                out.append({'mode': 'coo', 'batch': b, 'agg': agg, 'groups': groups, 'g': groups == 'CodePoints', 'special': 'bos_eos', 'pad_to': None})
    # groupings given as trees of arbitrary nesting depth (the matrix builder and TokenGroup::get_weights are generic)
    for b in (1, 2) if tier == 'quick' else (1, 2, 3):
        for agg in ('Mean', 'Sum'):
            out.append({'mode': 'coo_tree', 'batch': b, 'agg': agg})
    for b in range(1, nb + 1):
        for kind in KINDS:
            out.append({'mode': 'pad', 'batch': b, 'kind': kind})
    out.sort(key=lambda s: -(s.get('batch', 0) * 3 + len(c01.TEMPLATES.get(s.get('template'), []))))
    return out


F = lambda n: {'Full': n}
N = lambda *xs: {'Nested': list(xs)}
# token-group trees with two to four levels (no Empty groups: their weights are 0 by definition)
TREES = [[N(N(F(2), F(1)), F(1))], [F(1), N(F(1), N(F(1), F(2)))], [N(N(N(F(2))))], [N(F(1), F(2)), N(N(F(1)), N(F(1), F(1)))],
         [F(2)], [N(N(F(1), F(1)), N(F(2)), F(1)), F(1)]]


def tree_value(m, g):
    vs = m.enum_variants_of('TokenGroup')
    if 'Full' in g:
        return Enum('TokenGroup', 'Full', vs.index('Full'), [Int(g['Full'], 'usize')])
    return Enum('TokenGroup', 'Nested', vs.index('Nested'), [VecObj([tree_value(m, x) for x in g['Nested']])])


def glen(grp):
    if grp.variant in ('Empty', 'Full'):
        return grp.fields[0].v
    return sum(glen(x) for x in grp.fields[0].items)


def gpy(grp):
    if grp.variant in ('Empty', 'Full'):
        return {grp.variant: grp.fields[0].v}
    return {'Nested': [gpy(x) for x in grp.fields[0].items]}


def gweights(g, agg):
    """reference weights (python floats, f32 rounded)"""
    from interp import f32_round
    if 'Empty' in g:
        return [0.0] * g['Empty']
    if 'Full' in g:
        n = g['Full']
        return [1.0 if agg == 'Sum' else f32_round(1.0 / n)] * n
    subs = g['Nested']
    w = 1.0 if agg == 'Sum' else f32_round(1.0 / len(subs))
    out = []
    for s in subs:
        out.extend(f32_round(x * w) for x in gweights(s, agg))
    return out


def glen_py(g):
    if 'Nested' in g:
        return sum(glen_py(x) for x in g['Nested'])
    return list(g.values())[0]


def check_groups(ctx_require, ids_len, groups_py, nprefix, nsuffix, units_bytes, mode_groups, what=''):
    """units_bytes: list of per-unit descriptions: int n (special token => Full(1)) or list of code point byte widths."""
    exp = [{'Full': 1}] * nprefix
    for u in units_bytes:
        if isinstance(u, int):
            exp.append({'Full': 1})
        elif mode_groups == 'Bytes':
            exp.append({'Full': sum(u)})
        else:
            exp.append({'Nested': [{'Full': w} for w in u]})
    exp += [{'Full': 1}] * nsuffix
    ctx_require(sum(glen_py(g) for g in groups_py) == ids_len, 'group lengths sum to the number of token ids')
    ctx_require(groups_py == exp, 'one group per character, special token, prefix and suffix token (with the byte / code point structure)')


def run(ctx, shape, opts):
    m = ctx.m
    md = shape['mode']
    if md == 'groups':
        tok = byte_tokenizer(ctx, shape)
        text = template_string(ctx, 'text', c01.TEMPLATES[shape['template']])
        chars = text.chars()
        g = shape['g']
        if g:
            assume_sigma_g(ctx, [c for c in chars if c.sym()])
        ign = ctx.branch(ctx.in_bool('ignore_special_tokens'))
        r = tcall(m, BYTE_T, 'tokenize', tok, text, ign)
        ctx.require(r.variant == 'Ok', 'tokenize succeeds')
        ids = r.fields[0].get('token_ids').items
        info = r.fields[0].get('info')
        ctx.require(info.variant == 'TokenGroups' and len(info.fields[0].entries) == 1, 'the byte tokenizer returns one token grouping')
        name, grouping = info.fields[0].entries[0]
        groups = [gpy(x) for x in grouping.fields[0].items]
        ctx.out('groups', groups)
        ctx.out('nids', len(ids))
        tokens, padname, prefix, suffix = SPECIALS[shape['special']]
        segs = [('c', c) for c in chars] if ign else scan_specials(ctx, chars, unique(tokens))
        units = []
        runc = []

        def flush():
            for a, b in units_of(ctx, runc, g):
                units.append([ctx.char_width(c) for c in runc[a:b]])
            del runc[:]
        for s in segs:
            if s[0] == 's':
                flush()
                units.append(1)
            else:
                runc.append(s[1])
        flush()
        check_groups(ctx.require, len(ids), groups, len(prefix), len(suffix), units, shape['groups'])
        ctx.require(name.as_str().concrete() == ('byte_groups' if shape['groups'] == 'Bytes' else 'code_point_groups'), 'grouping name')
        ctx.sample = {'mode': md, 'template': shape['template'], 'groups': len(groups), 'ids': len(ids)}
        return
    if md == 'coo':
        tok = byte_tokenizer(ctx, dict(shape, agg=shape['agg']))
        B = shape['batch']
        picks = [ctx.in_choice('item%d' % i, len(POOL)) for i in range(B)]
        groupings, lengths, gpys = [], [], []
        for pi in picks:
            r = tcall(m, BYTE_T, 'tokenize', tok, m.str_lit(POOL[pi]), False)
            t = r.fields[0]
            grouping = t.get('info').fields[0].entries[0][1]
            groupings.append(ref_to(grouping))
            lengths.append(Int(len(t.get('token_ids').items), 'usize'))
            gpys.append([gpy(x) for x in grouping.fields[0].items])
        r = m.call('token_groups_to_sparse_coo_matrix', SliceRef(groupings, 0, B), SliceRef(lengths, 0, B))
        ctx.require(r.variant == 'Ok', 'the sparse matrix is built')
        sc = r.fields[0]
        idx = sc.get('indices')
        vals = [x.v for x in sc.get('values').get('data').items]
        shp = [x.v for x in idx.get('shape').fields]
        flat = [x.v for x in idx.get('data').items]
        size = [x.v for x in sc.get('size').items]
        gl = [x.v for x in sc.get('group_lengths').items]
        ctx.out('coo', {'indices': flat, 'shape': shp, 'values': vals, 'size': size, 'group_lengths': gl})
        for fl in coo_failures(flat, shp, vals, size, gl, [l.v for l in lengths], gpys, shape['agg']):
            ctx.fail(fl)
        ctx.sample = {'mode': md, 'batch': B, 'picks': picks, 'stride': shp[1] if len(shp) > 1 else None}
        return
    if md == 'coo_tree':
        B = shape['batch']
        picks = [ctx.in_choice('tree%d' % i, len(TREES)) for i in range(B)]
        vs = m.enum_variants_of('GroupAggregation')
        groupings, lengths, gpys = [], [], []
        for pi in picks:
            tr = TREES[pi]
            grouping = Tup([VecObj([tree_value(m, g_) for g_ in tr]), Enum('GroupAggregation', shape['agg'], vs.index(shape['agg']), [])])
            groupings.append(ref_to(grouping))
            lengths.append(Int(sum(glen_py(g_) for g_ in tr), 'usize'))
            gpys.append(tr)
        r = m.call('token_groups_to_sparse_coo_matrix', SliceRef(groupings, 0, B), SliceRef(lengths, 0, B))
        ctx.require(r.variant == 'Ok', 'the sparse matrix is built')
        sc = r.fields[0]
        idx = sc.get('indices')
        vals = [x.v for x in sc.get('values').get('data').items]
        shp = [x.v for x in idx.get('shape').fields]
        flat = [x.v for x in idx.get('data').items]
        size = [x.v for x in sc.get('size').items]
        gl = [x.v for x in sc.get('group_lengths').items]
        ctx.out('coo', {'indices': flat, 'shape': shp, 'values': vals, 'size': size, 'group_lengths': gl})
        for fl in coo_failures(flat, shp, vals, size, gl, [l.v for l in lengths], gpys, shape['agg']):
            ctx.fail(fl)
        ctx.sample = {'mode': md, 'batch': B, 'picks': picks}
        return
    # ---- padding / tensorize
    B = shape['batch']
    kind = shape['kind']
    pad = ctx.in_int('pad', 'u32')
    tpad = ctx.in_int('tpad', 'u32')
    items = []
    meta = []
    for i in range(B):
        n = ctx.in_choice('len%d' % i, 4)
        ids = [ctx.in_int('id%d_%d' % (i, j), 'u32') for j in range(n)]
        nl = ctx.in_choice('llen%d' % i, 3)
        labels = [ctx.in_int('lab%d_%d' % (i, j), 'i32') for j in range(nl)]
        tn = ctx.in_choice('tlen%d' % i, 3) if kind == 'ConditionalGeneration' else 0
        tids = [ctx.in_int('tid%d_%d' % (i, j), 'u32') for j in range(tn)]
        if kind == 'Classification':
            inp = Enum('TrainTaskInput', kind, 0, [VecObj(list(ids)), pad, labels[0] if labels else Int(7, 'i32')])
        elif kind == 'ConditionalGeneration':
            inp = Enum('TrainTaskInput', kind, 3, [VecObj(list(ids)), pad, VecObj(list(tids)), tpad, VecObj(list(labels))])
        else:
            inp = Enum('TrainTaskInput', kind, KINDS.index(kind), [VecObj(list(ids)), pad, VecObj(list(labels))])
        data = Struct('TrainData', [m.new_string('x'), m.new_string('y')], ['input', 'target'])
        items.append(Struct('TrainItem', [data, inp], ['data', 'input']))
        meta.append((ids, labels, tids))
    batch = VecObj(items)
    r = m.call_path('<Vec<TrainItem> as Tensorize>::tensorize', [ref_to(batch)])
    ctx.require(r.ty == 'TensorizedTrainTaskInput' and r.variant == kind, 'tensorised batch has the kind of its items')

    def check_padded(arr, rows, padv, what):
        shp = [x.v for x in arr.get('shape').fields]
        data = arr.get('data').items
        mx = max([len(r_) for r_ in rows] or [0])
        ctx.require(shp == [len(rows), mx] and len(data) == len(rows) * mx, what + ': shape is batch size x longest item')
        conds = []
        for i, row in enumerate(rows):
            for j in range(mx):
                conds.append(m.eq(data[i * mx + j], row[j] if j < len(row) else padv))
        ctx.require(m.conj(conds), what + ': each row is the item\'s values followed only by padding')

    def check_lengths(arr, rows, what):
        ctx.require([x.v for x in arr.get('data').items] == [len(r_) for r_ in rows], what + ': reported lengths are the true lengths')
    f = r.fields
    check_padded(f[0], [mt[0] for mt in meta], pad, 'token ids')
    check_lengths(f[1], [mt[0] for mt in meta], 'token ids')
    if kind == 'Classification':
        ctx.require(m.conj([m.eq(a, (mt[1][0] if mt[1] else Int(7, 'i32'))) for a, mt in zip(f[2].get('data').items, meta)]),
                    'labels: one label per item')
    elif kind == 'ConditionalGeneration':
        check_padded(f[2], [mt[2] for mt in meta], tpad, 'target token ids')
        check_lengths(f[3], [mt[2] for mt in meta], 'target token ids')
        check_padded(f[4], [mt[1] for mt in meta], Int(-1, 'i32'), 'labels')
    else:
        check_padded(f[2], [mt[1] for mt in meta], Int(-1, 'i32'), 'labels')
    # padding mask for the same lengths
    lens = [Int(len(mt[0]), 'usize') for mt in meta]
    pm = m.call('padding_mask', SliceRef(lens, 0, B))
    mx = max([l.v for l in lens] or [0])
    ctx.require([x.v for x in pm.get('shape').fields] == [B, mx] and
                list(pm.get('data').items) == [j < l.v for l in lens for j in range(mx)], 'padding mask marks exactly the real positions')
    ctx.out('pad', 'ok')
    ctx.sample = {'mode': md, 'kind': kind, 'batch': B, 'lengths': [len(mt[0]) for mt in meta]}


def coo_failures(flat, shp, vals, size, gl, lengths, gpys, agg):
    out = []
    B = len(lengths)
    stride = sum(lengths)
    if shp != [3, stride] or len(flat) != 3 * stride or len(vals) != stride:
        return ['sparse matrix has exactly one entry per token']
    if size != [B, max([len(g) for g in gpys] or [0]), max(lengths or [0])]:
        out.append('declared size is [batch, max groups, max length]')
    if gl != [len(g) for g in gpys]:
        out.append('group_lengths are the numbers of groups')
    seen = set()
    sums = {}
    ok_inside = True
    for c in range(stride):
        b, gi, ti = flat[c], flat[stride + c], flat[2 * stride + c]
        if not (0 <= b < size[0] and 0 <= gi < size[1] and 0 <= ti < size[2]):
            ok_inside = False
        seen.add((b, ti))
        sums.setdefault((b, gi), []).append(vals[c])
    if not ok_inside:
        out.append('indices lie inside the declared size')
    if seen != {(b, t) for b in range(B) for t in range(lengths[b])}:
        out.append('sparse matrix has exactly one entry per token')
    for b in range(B):
        for gi, g in enumerate(gpys[b]):
            ws = sums.get((b, gi), [])
            if len(ws) != glen_py(g):
                out.append('every group covers exactly its tokens')
                continue
            if glen_py(g) == 0:
                continue
            if agg == 'Sum':
                if any(w != 1.0 for w in ws):
                    out.append('weights are all ones for sum aggregation')
            elif abs(sum(ws) - 1.0) > 1e-6:
                out.append('weights of every group sum to one for mean aggregation')
    return sorted(set(out))


# ------------------------------------------------------------------ native side

def _nshape(shape):
    d = dict(shape)
    tokens, pad, prefix, suffix = SPECIALS[shape.get('special', 'default')]
    d.update({'kind': 'byte', 'tokens': tokens, 'pad': pad, 'prefix': prefix, 'suffix': suffix})
    return d


def _gj(g):
    return g


def native_outputs(native, shape, inputs):
    md = shape['mode']
    if md == 'groups':
        k, v = native_ok(native.call('tokenize_roundtrip', shape=_nshape(shape), text=inputs['text'], ign=bool(inputs['ignore_special_tokens'])))
        if k != 'ok':
            return {'panic': v}
        grp = list(v['groups'].values())[0]
        return {'groups': grp['groups'], 'nids': len(v['ids']), '_name': list(v['groups'].keys())[0]}
    if md == 'coo_tree':
        trees = [TREES[inputs['tree%d' % i]] for i in range(shape['batch'])]
        k, v = native_ok(native.call('sparse_coo_trees', trees=trees, lengths=[sum(glen_py(g_) for g_ in t) for t in trees], agg=shape['agg']))
        if k != 'ok':
            return {'panic': v}
        return {'coo': v['coo'], '_groups': trees, '_lengths': [sum(glen_py(g_) for g_ in t) for t in trees]}
    if md == 'coo':
        texts = [[ord(c) for c in POOL[inputs['item%d' % i]]] for i in range(shape['batch'])]
        k, v = native_ok(native.call('sparse_coo', shape=_nshape(shape), texts=texts))
        if k != 'ok':
            return {'panic': v}
        return {'coo': v['coo'], '_groups': v['groups'], '_lengths': v['lengths']}
    rows = []
    for i in range(shape['batch']):
        n, nl = inputs['len%d' % i], inputs['llen%d' % i]
        tn = inputs.get('tlen%d' % i, 0) if shape['kind'] == 'ConditionalGeneration' else 0
        rows.append({'ids': [inputs['id%d_%d' % (i, j)] for j in range(n)], 'labels': [inputs['lab%d_%d' % (i, j)] for j in range(nl)],
                     'tids': [inputs['tid%d_%d' % (i, j)] for j in range(tn)]})
    k, v = native_ok(native.call('tensorize', kind=shape['kind'], rows=rows, pad=inputs['pad'], tpad=inputs['tpad']))
    if k != 'ok':
        return {'panic': v}
    return {'pad': 'ok', '_t': v, '_rows': rows}


def concrete_check(native, inputs, shape):
    md = shape['mode']
    o = native_outputs(native, shape, inputs)
    if 'panic' in o:
        return ['no panic']
    failed = []
    if md == 'groups':
        text = inputs['text']
        g = shape['g']
        ign = bool(inputs['ignore_special_tokens'])
        tokens, padname, prefix, suffix = SPECIALS[shape['special']]
        segs = [('c', c) for c in text] if ign else scan_specials_py(text, unique(tokens))
        units, runc = [], []

        def flush():
            if not runc:
                return
            lens = native.call('graphemes', s=runc)['ok'] if g else [1] * len(runc)
            a = 0
            for l in lens:
                units.append([len(chr(c).encode()) for c in runc[a:a + l]])
                a += l
            del runc[:]
        for s in segs:
            if s[0] == 's':
                flush()
                units.append(1)
            else:
                runc.append(s[1])
        flush()

        def req(cond, what):
            if not cond:
                failed.append(what)
        check_groups(req, o['nids'], o['groups'], len(prefix), len(suffix), units, shape['groups'])
        return failed
    if md in ('coo', 'coo_tree'):
        c = o['coo']
        return coo_failures(c['indices'], c['shape'], c['values'], c['size'], c['group_lengths'], o['_lengths'], o['_groups'], shape['agg'])
    t, rows = o['_t'], o['_rows']
    kind = shape['kind']

    def padded(entry, vals, padv, what):
        shp, data = entry
        mx = max([len(r) for r in vals] or [0])
        if shp != [len(vals), mx]:
            failed.append(what + ': shape is batch size x longest item')
            return
        exp = [(r[j] if j < len(r) else padv) for r in vals for j in range(mx)]
        if data != exp:
            failed.append(what + ': each row is the item\'s values followed only by padding')
    if t['kind'].replace('_', '') != kind.lower():
        failed.append('tensorised batch has the kind of its items')
        return failed
    T = t['tensors']
    padded(T[0], [r['ids'] for r in rows], inputs['pad'], 'token ids')
    if T[1][1] != [len(r['ids']) for r in rows]:
        failed.append('token ids: reported lengths are the true lengths')
    if kind == 'ConditionalGeneration':
        padded(T[2], [r['tids'] for r in rows], inputs['tpad'], 'target token ids')
        if T[3][1] != [len(r['tids']) for r in rows]:
            failed.append('target token ids: reported lengths are the true lengths')
        padded(T[4], [r['labels'] for r in rows], -1, 'labels')
    elif kind != 'Classification':
        padded(T[2], [r['labels'] for r in rows], -1, 'labels')
    k, pm = native_ok(native.call('padding_mask', lengths=[len(r['ids']) for r in rows]))
    mx = max([len(r['ids']) for r in rows] or [0])
    if k != 'ok' or pm['shape'] != [len(rows), mx] or pm['data'] != [j < len(r['ids']) for r in rows for j in range(mx)]:
        failed.append('padding mask marks exactly the real positions')
    return failed


def _gcase(text, sp='default', g=False, groups='Bytes', ign=False):
    return ({'mode': 'groups', 'template': 'sym1', 'special': sp, 'g': g, 'groups': groups, 'pad_to': None},
            {'text': [ord(c) for c in text], 'ignore_special_tokens': ign})


FIXED_CASES = [_gcase('a täst'), _gcase('a<pad>b', 'bos_eos', True, 'CodePoints'), _gcase('é<bos>', 'bos_eos', True, 'CodePoints'),
               ({'mode': 'coo', 'batch': 2, 'agg': 'Mean', 'groups': 'CodePoints', 'g': True, 'special': 'bos_eos', 'pad_to': None}, {'item0': 1, 'item1': 5}),
               ({'mode': 'coo', 'batch': 3, 'agg': 'Sum', 'groups': 'Bytes', 'g': False, 'special': 'bos_eos', 'pad_to': None}, {'item0': 2, 'item1': 3, 'item2': 4})]


def random_case(rng):
    if rng.random() < 0.6:
        pool = ['a', 'b', '<', '>', 'ä', '中', '😀', ' ', '<pad>', '<bos>', 'é', '́']
        return _gcase(''.join(rng.choice(pool) for _ in range(rng.randint(0, 5))), rng.choice(['default', 'bos_eos']), rng.random() < 0.5,
                      rng.choice(['Bytes', 'CodePoints']), rng.random() < 0.4)
    if rng.random() < 0.4:
        b = rng.randint(1, 3)
        return ({'mode': 'coo_tree', 'batch': b, 'agg': rng.choice(['Mean', 'Sum'])}, {'tree%d' % i: rng.randrange(len(TREES)) for i in range(b)})
    b = rng.randint(1, 3)
    groups = rng.choice(['Bytes', 'CodePoints'])
    return ({'mode': 'coo', 'batch': b, 'agg': rng.choice(['Mean', 'Sum']), 'groups': groups, 'g': groups == 'CodePoints', 'special': 'bos_eos', 'pad_to': None},
            {'item%d' % i: rng.randrange(len(POOL)) for i in range(b)})
