"""C10: whitespace::operations / whitespace::repair."""
import itertools
import z3
from values import *
from harnesses.hlib import *
from models_core import char_is_whitespace

PROPERTY = 'C10'
VALIDATE_MODELS = ['ws', 'utf8', 'graphemes']
VALIDATION_CASES = {'quick': 150, 'thorough': 600}
TIME_BUDGET = {'quick': 900, 'thorough': 3300}
BOUNDS = {
    'quick': 'repair on long texts whose byte length crosses 64 / 256 (concrete filler, a symbolic 2- or 3-byte character straddling the threshold, uniform operation vectors of length n-1, n, n+1); inverse claim: <= 3 non-whitespace code points with every placement of single spaces in `from` and `to` '
             '(all UTF-8 width combinations; grapheme mode over Sigma_g); repair claims: strings of <= 3 characters (grapheme '
             'mode <= 2 code points) x every operation vector of length n and uniform vectors of length n-1, n+1; totality of operations(): arbitrary from/to of <= 3 characters each',
    'thorough': 'same with 4 / 4 (grapheme mode 3) / 3 characters',
}
OUTSIDE = ['longer texts', 'grapheme mode outside Sigma_g', 'the whitespace-correction task closure of data/task.rs '
           '(needs a constructed tokenizer; its operations() call is the function checked here)']
ASSUMPTIONS = ['whitespace-clean = every whitespace character is U+0020, none leading/trailing/adjacent',
               'std models listed under coverage.std_models_used', 'grapheme model over Sigma_g (diff-tested)']
OPS = ['Keep', 'Insert', 'Delete']


def content_partition(units, chars_are_space):
    """Units of a text as groups of content indices (spaces dropped)."""
    out = []
    k = 0
    idx = []
    for i, sp in enumerate(chars_are_space):
        idx.append(None if sp else k)
        if not sp:
            k += 1
    for a, b in units:
        grp = [idx[i] for i in range(a, b) if idx[i] is not None]
        if grp:
            out.append(grp)
    return out


def _kf_split_cluster(shape, inputs, failed, native=None):
    return shape.get('mode') == 'inv' and shape['g'] and set(failed) <= {
        'operations(from, to) succeeds for clean texts with equal content'}


KNOWN_MATCHERS = {'c10_space_splits_cluster': _kf_split_cluster}


def gap_patterns(k):
    return [list(p) for p in itertools.product((0, 1), repeat=max(0, k - 1))]


def shapes(tier):
    k_inv, n_rep, n_rep_g, n_tot = (3, 3, 2, 3) if tier == 'quick' else (4, 4, 3, 3)
    out = []
    for g in (False, True):
        for ws in width_shapes(k_inv):
            for pf in gap_patterns(len(ws)):
                for pt in gap_patterns(len(ws)):
                    out.append({'mode': 'inv', 'g': g, 'widths': ws, 'from_gaps': pf, 'to_gaps': pt})
        for ws in width_shapes(n_rep_g if g else n_rep):
            out.append({'mode': 'rep', 'g': g, 'widths': ws})
    for wa in width_shapes(n_tot, widths=(1, 3)):
        for wb in width_shapes(n_tot, widths=(1, 3)):
            out.append({'mode': 'tot', 'g': False, 'wa': wa, 'wb': wb})
    # long texts around byte-length thresholds (2^6, 2^7, 2^8): concrete filler, one symbolic multi-byte character that
    # straddles the threshold, one symbolic character after it; uniform operation vectors of length n-1 / n / n+1
    for L in ((64, 256) if tier == 'quick' else (32, 64, 128, 256, 512)):
        for w in (2, 3):
            for off in ((1,) if tier == 'quick' else (1, 2)):
                out.append({'mode': 'long', 'g': False, 'fill': L - off, 'widths': [w, 1]})
        out.append({'mode': 'long', 'g': True, 'fill': L - 1, 'widths': [2, 1]})
    out.sort(key=lambda s: -(len(s.get('widths', [])) + len(s.get('wa', [])) + len(s.get('wb', []))))
    return out


def with_gaps(content, gaps):
    out = []
    for i, c in enumerate(content):
        out.append(c)
        if i < len(content) - 1 and gaps[i]:
            out.append(SPACE)
    return out


def mkstr(ctx, chars):
    buf = StrBuf(chars, [ctx.char_width(c) for c in chars])
    return StrRef(buf, 0, buf.byte_len())


def ops_value(names):
    items = [Enum('Operation', n, OPS.index(n), []) for n in names]
    return SliceRef(items, 0, len(items))


def run(ctx, shape, opts):
    m = ctx.m
    g = shape['g']
    mode = shape['mode']
    if mode == 'inv':
        content = ctx.in_string('content', shape['widths']).chars()
        if g:
            assume_sigma_g(ctx, content)
        for c in content:
            ctx.assume(m.bnot(char_is_whitespace(c)))
        fc = with_gaps(content, shape['from_gaps'])
        tc = with_gaps(content, shape['to_gaps'])
        if g:
            assume_no_mixed_units(ctx, fc, units_of(ctx, fc, True))
            assume_no_mixed_units(ctx, tc, units_of(ctx, tc, True))
        if g and 'c10_space_splits_cluster' in opts.get('known_active', ()) and not opts.get('concrete'):
            # region of known finding KF-C10-1: a space separates code points that form one cluster in the other text
            pf = content_partition(units_of(ctx, fc, True), [c is SPACE for c in fc])
            pt = content_partition(units_of(ctx, tc, True), [c is SPACE for c in tc])
            if pf != pt:
                raise Infeasible()
        frm, to = mkstr(ctx, fc), mkstr(ctx, tc)
        r = m.call('whitespace::operations', frm, to, g)
        ctx.out('operations', r)
        ctx.require(r.variant == 'Ok', 'operations(from, to) succeeds for clean texts with equal content')
        ops = r.fields[0]
        nunits = len(units_of(ctx, fc, g))
        ctx.require(len(ops.items) == nunits, 'one operation per character of `from`')
        rr = m.call('repair', frm, ops.as_slice(), g)
        ctx.out('repair', rr)
        ctx.require(rr.variant == 'Ok', 'repair(from, operations(from, to)) succeeds')
        ctx.require(chars_equal(ctx, out_chars(ctx, rr.fields[0]), tc), 'repair(from, operations(from, to)) == to')
        ctx.sample = {'mode': mode, 'graphemes': g, 'widths': shape['widths'], 'from_gaps': shape['from_gaps'],
                      'to_gaps': shape['to_gaps']}
    elif mode == 'long':
        tail = ctx.in_string('tail', shape['widths']).chars()
        if g:
            assume_sigma_g(ctx, tail)
        chars = [Int(0x61, 'char')] * shape['fill'] + list(tail)
        s = mkstr(ctx, chars)
        units = units_of(ctx, chars, g)
        n = len(units)
        dl = ctx.in_choice('ops_len_delta', 3) - 1
        k = ctx.in_choice('op0', 3)
        names = [OPS[k]] * (n + dl)
        rr = m.call('repair', s, ops_value(names), g)
        ctx.out('repair_ok', rr.variant == 'Ok')
        if dl != 0:
            ctx.require(rr.variant == 'Err', 'length mismatch is an error')
        else:
            ctx.require(rr.variant == 'Ok', 'repair succeeds for an operation sequence of matching length')
            oc = out_chars(ctx, rr.fields[0])
            a = [c for c in chars if isinstance(c.v, int) or not ctx.branch(char_is_whitespace(c))]
            b = [c for c in oc if not ctx.branch(char_is_whitespace(c))]
            ctx.require(chars_equal(ctx, b, a), 'repair changes nothing but whitespace')
            if names and names[0] == 'Keep':
                ctx.require(chars_equal(ctx, oc, chars), 'an all-Keep sequence is the identity')
        ctx.sample = {'mode': mode, 'graphemes': g, 'bytes': shape['fill'] + sum(shape['widths']), 'ops': names[:1], 'delta': dl}
    elif mode == 'rep':
        s = ctx.in_string('s', shape['widths'])
        chars = s.chars()
        if g:
            assume_sigma_g(ctx, chars)
        units = units_of(ctx, chars, g)
        # clusters that mix whitespace and other code points (" " + combining mark) are inside the claim: they are
        # not whitespace characters, so repair must leave them alone
        n = len(units)
        dl = ctx.in_choice('ops_len_delta', 3) - 1   # -1, 0, +1
        ln = n + dl
        if ln < 0:
            raise Infeasible()
        if dl != 0:
            # content of the vector is irrelevant to the length check: all-Keep / all-Insert / all-Delete
            k = ctx.in_choice('op0', 3)
            names = [OPS[k]] * ln
            for i in range(1, ln):
                ctx.inputs['op%d' % i] = k
        else:
            names = [OPS[ctx.in_choice('op%d' % i, 3)] for i in range(ln)]
        rr = m.call('repair', s, ops_value(names), g)
        ctx.out('repair', rr)
        if dl != 0:
            ctx.require(rr.variant == 'Err', 'length mismatch is an error')
        else:
            ctx.require(rr.variant == 'Ok', 'repair succeeds for an operation sequence of matching length')
            oc = out_chars(ctx, rr.fields[0])
            # removing whitespace from input and output gives the same text
            a = [c for c in chars if not ctx.branch(char_is_whitespace(c))]
            b = [c for c in oc if not ctx.branch(char_is_whitespace(c))]
            ctx.require(chars_equal(ctx, b, a), 'repair changes nothing but whitespace')
            if all(x == 'Keep' for x in names):
                ctx.require(chars_equal(ctx, oc, chars), 'an all-Keep sequence is the identity')
        ctx.sample = {'mode': mode, 'graphemes': g, 'widths': shape['widths'], 'ops': names}
    else:
        a = ctx.in_string('a', shape['wa'])
        b = ctx.in_string('b', shape['wb'])
        r = m.call('whitespace::operations', a, b, g)   # any panic on this path is a violation
        ctx.out('operations', r)
        if r.variant == 'Ok':
            ctx.require(len(r.fields[0].items) == len(a.chars()), 'one operation per character of `from`')
        ctx.sample = {'mode': mode, 'wa': shape['wa'], 'wb': shape['wb'], 'result': r.variant}


# ------------------------------------------------------------------ native side

def _gunits(native, cps, g):
    if not g:
        return [(i, i + 1) for i in range(len(cps))]
    out, a = [], 0
    for l in native.call('graphemes', s=cps)['ok']:
        out.append((a, a + l))
        a += l
    return out


def _mixed(native, cps, g):
    for a, b in _gunits(native, cps, g):
        fl = [py_is_ws(c) for c in cps[a:b]]
        if any(fl) and not all(fl):
            return True
    return False


def _concrete_strings(shape, inputs):
    if shape['mode'] == 'inv':
        c = inputs['content']
        f, t = [], []
        for i, x in enumerate(c):
            f.append(x)
            t.append(x)
            if i < len(c) - 1:
                if shape['from_gaps'][i]:
                    f.append(0x20)
                if shape['to_gaps'][i]:
                    t.append(0x20)
        return f, t
    return None


def native_outputs(native, shape, inputs):
    g = shape['g']
    mode = shape['mode']
    out = {}
    if mode == 'inv':
        f, t = _concrete_strings(shape, inputs)
        k, v = native_ok(native.call('ws_operations', a=f, b=t, g=g))
        if k != 'ok':
            return {'panic': v}
        out['operations'] = v
        if 'Ok' in v:
            k, r = native_ok(native.call('ws_repair', s=f, ops=v['Ok'], g=g))
            if k != 'ok':
                return {'panic': r}
            out['repair'] = r
    elif mode == 'long':
        st = [0x61] * shape['fill'] + list(inputs['tail'])
        n = len(_gunits(native, st, g))
        names = [OPS[inputs['op0']]] * (n + inputs['ops_len_delta'] - 1)
        k, r = native_ok(native.call('ws_repair', s=st, ops=names, g=g))
        if k != 'ok':
            return {'panic': r}
        out['repair_ok'] = 'Ok' in r
        out['_repair'] = r
    elif mode == 'rep':
        n = len(_gunits(native, inputs['s'], g))
        ln = n + inputs['ops_len_delta'] - 1
        names = [OPS[inputs['op%d' % i]] for i in range(max(ln, 0))]
        k, r = native_ok(native.call('ws_repair', s=inputs['s'], ops=names, g=g))
        if k != 'ok':
            return {'panic': r}
        out['repair'] = r
    else:
        k, v = native_ok(native.call('ws_operations', a=inputs['a'], b=inputs['b'], g=g))
        if k != 'ok':
            return {'panic': v}
        out['operations'] = v
    return out


def concrete_check(native, inputs, shape):
    g = shape['g']
    mode = shape['mode']
    if mode == 'inv':
        f, t = _concrete_strings(shape, inputs)
        if any(py_is_ws(c) for c in inputs['content']) or _mixed(native, f, g) or _mixed(native, t, g):
            return []
        o = native_outputs(native, shape, inputs)
        if 'panic' in o:
            return ['no panic']
        failed = []
        if 'Ok' not in o['operations']:
            return ['operations(from, to) succeeds for clean texts with equal content']
        if len(o['operations']['Ok']) != len(_gunits(native, f, g)):
            failed.append('one operation per character of `from`')
        if 'Ok' not in o['repair']:
            failed.append('repair(from, operations(from, to)) succeeds')
        elif o['repair']['Ok'] != t:
            failed.append('repair(from, operations(from, to)) == to')
        return failed
    if mode == 'long':
        st = [0x61] * shape['fill'] + list(inputs['tail'])
        o = native_outputs(native, shape, inputs)
        if 'panic' in o:
            return ['no panic']
        dl = inputs['ops_len_delta'] - 1
        r = o['_repair']
        if dl != 0:
            return [] if 'Err' in r else ['length mismatch is an error']
        if 'Ok' not in r:
            return ['repair succeeds for an operation sequence of matching length']
        failed = []
        if [c for c in r['Ok'] if not py_is_ws(c)] != [c for c in st if not py_is_ws(c)]:
            failed.append('repair changes nothing but whitespace')
        if inputs['op0'] == 0 and r['Ok'] != st:
            failed.append('an all-Keep sequence is the identity')
        return failed
    if mode == 'rep':
        s = inputs['s']
        n = len(_gunits(native, s, g))
        dl = inputs['ops_len_delta'] - 1
        if n + dl < 0:
            return []
        o = native_outputs(native, shape, inputs)
        if 'panic' in o:
            return ['no panic']
        failed = []
        if dl != 0:
            if 'Err' not in o['repair']:
                failed.append('length mismatch is an error')
            return failed
        if 'Ok' not in o['repair']:
            return ['repair succeeds for an operation sequence of matching length']
        oc = o['repair']['Ok']
        if [c for c in oc if not py_is_ws(c)] != [c for c in s if not py_is_ws(c)]:
            failed.append('repair changes nothing but whitespace')
        names = [OPS[inputs['op%d' % i]] for i in range(n)]
        if all(x == 'Keep' for x in names) and oc != s:
            failed.append('an all-Keep sequence is the identity')
        return failed
    o = native_outputs(native, shape, inputs)
    if 'panic' in o:
        return ['no panic']
    if 'Ok' in o['operations'] and len(o['operations']['Ok']) != len(inputs['a']):
        return ['one operation per character of `from`']
    return []


def _inv_case(content, fg, tg, g):
    cps = [ord(c) for c in content]
    return ({'mode': 'inv', 'g': g, 'widths': widths_of(cps), 'from_gaps': fg, 'to_gaps': tg}, {'content': cps})


def _tot_case(a, b):
    ca, cb = [ord(c) for c in a], [ord(c) for c in b]
    return ({'mode': 'tot', 'g': False, 'wa': widths_of(ca), 'wb': widths_of(cb)}, {'a': ca, 'b': cb})


FIXED_CASES = [_inv_case('this', [1, 0, 1], [0, 1, 0], True), _inv_case('tä中', [1, 1], [0, 0], False),
               _tot_case(' t h i s is a test ', 'this is a test'), _tot_case('ab', 'a  b'), _tot_case('a b', 'b')]


def random_case(rng):
    r = rng.random()
    g = rng.random() < 0.4
    if r < 0.4:
        pool = [0x61, 0x62, 0xE4, 0x4E2D, 0x1F600, 0x41]
        c = [rng.choice(pool) for _ in range(rng.randint(0, 4))]
        fg = [rng.randint(0, 1) for _ in range(max(0, len(c) - 1))]
        tg = [rng.randint(0, 1) for _ in range(max(0, len(c) - 1))]
        return ({'mode': 'inv', 'g': g, 'widths': widths_of(c), 'from_gaps': fg, 'to_gaps': tg}, {'content': c})
    if r < 0.75:
        s = rand_string(rng, 4, [0x20, 0x20, 0x61, 0xE4, 0x09, 0x3000, 0x4E2D, 0x62])
        inp = {'s': s, 'ops_len_delta': rng.randint(0, 2)}
        for i in range(len(s) + 1):
            inp['op%d' % i] = rng.randint(0, 2)
        if inp['ops_len_delta'] != 1:      # vectors of mismatching length are uniform (as in run())
            for i in range(len(s) + 1):
                inp['op%d' % i] = inp['op0']
        return ({'mode': 'rep', 'g': False, 'widths': widths_of(s)}, inp)
    a = rand_string(rng, 4, [0x20, 0x20, 0x61, 0x62, 0x09, 0x3000])
    b = rand_string(rng, 4, [0x20, 0x20, 0x61, 0x62, 0x09, 0x3000])
    return ({'mode': 'tot', 'g': False, 'wa': widths_of(a), 'wb': widths_of(b)}, {'a': a, 'b': b})
