"""C09: abandoning or failing never wedges the loader: bounded lookahead, prompt stop, panic => exit (MIRBMC)."""
import random
import time
from harnesses.bmc_common import *
from harnesses.hlib import native_ok

PROPERTY = 'C09'
BOUNDS = {
    'quick': 'Pipe with W in {1, 2} workers (capacity W) and Buffered with buffer_size in {1, 2}; upstream effectively '
             'unbounded (longer than any run inside the step bound); consumer may stay idle from any point, or drop the '
             'iterator at any step; the processing function may panic at any item; K = 20 (Pipe) / 14 (Buffered) scheduler '
             'steps; every interleaving; num_threads = 0: Pipe::new / Pipe::next interpreted by MIRSE, '
             'pulled - consumed <= 2 after every next() for n in [0, 4]',
    'thorough': 'additionally W = 3 and buffer_size = 3, K = 26',
}
OUTSIDE = ['buffer_size = 0 (rendezvous channel)', 'more workers', 'std Mutex / mpsc internals, the panic runtime (hook runs '
           'before unwinding: trusted)', 'OS scheduler fairness']
ASSUMPTIONS = ['lookahead bound: pulled - consumed <= 2*W for Pipe (one item in flight per worker + W queued) and '
               '<= buffer_size + 1 for Buffered', 'after the consumer dropped the iterator every worker pulls at most one further '
               'item (Pipe: <= W in total, Buffered: <= 1) and then exits', 'sync primitive semantics as for C05']


def _kf_none(v):
    return False


KNOWN_MATCHERS = {}


UNBOUNDED_CAP = 31      # larger than any queue a run inside the step bound can build


def jobs_for(tier, mir, repo, facts):
    jobs = []
    Ws = [1, 2] + ([3] if tier == 'thorough' else [])
    if not (facts['capacity_is_num_threads'] or facts['channel_unbounded']):
        raise Unsupported('MIRBMC: the capacity of the Pipe result channel is neither the thread count nor unbounded')
    bf = facts['buffered']
    if bf['channel'] == 'other':
        raise Unsupported('MIRBMC: the capacity of the Buffered channel is neither buffer_size nor unbounded')
    pj, bj = facts.get('pipe_drop', {}).get('joins'), facts.get('buffered_drop', {}).get('joins')
    for W in Ws:
        K = 20 if tier == 'quick' else 26
        base = {'which': 'pipe', 'W': W, 'cap': W if facts['capacity_is_num_threads'] else UNBOUNDED_CAP, 'N': 3, 'n_mode': 'unbounded',
                'mir': mir, 'repo': repo}
        jobs.append(dict(base, name='pipe W=%d lookahead' % W, K=K, cfg={}, query='lookahead', lookahead_bound=2 * W))
        jobs.append(dict(base, name='pipe W=%d lookahead tight' % W, K=K, cfg={}, query='lookahead_tight', lookahead_bound=2 * W))
        if pj:
            # Drop for Pipe joins the workers before the receiver goes away
            jobs.append(dict(base, name='pipe W=%d drop: workers exit' % W, K=K, cfg={}, query='drop_join_blocks'))
        else:
            jobs.append(dict(base, name='pipe W=%d drop: further pulls' % W, K=K, cfg={'allow_drop': True}, query='drop_pulls', drop_bound=W))
            jobs.append(dict(base, name='pipe W=%d drop: workers exit' % W, K=K, cfg={'allow_drop': True}, query='drop_stuck'))
            jobs.append(dict(base, name='pipe W=%d drop witness' % W, K=K, cfg={'allow_drop': True}, query='drop_witness'))
        pc = {'allow_panic': True, 'hook_exits': bool(facts['hook_before_spawn'] and facts['hook_exits'])}
        jobs.append(dict(base, name='pipe W=%d panic => exit' % W, K=12, cfg=pc, query='panic'))
        jobs.append(dict(base, name='pipe W=%d panic witness' % W, K=12, cfg=pc, query='panic_witness'))
    for cap in [1, 2] + ([3] if tier == 'thorough' else []):
        K = 14 if tier == 'quick' else 18
        base = {'which': 'buffered', 'W': 1, 'cap': cap if bf['channel'] == 'buffer_size' else UNBOUNDED_CAP, 'N': 3, 'n_mode': 'unbounded',
                'mir': mir, 'repo': repo, 'buffer_size': cap}
        bc = {'enumerate': False, 'pull_needs_lock': False}
        jobs.append(dict(base, name='buffered size=%d lookahead' % cap, K=K, cfg=bc, query='lookahead', lookahead_bound=cap + 1))
        jobs.append(dict(base, name='buffered size=%d lookahead tight' % cap, K=K, cfg=bc, query='lookahead_tight', lookahead_bound=cap + 1))
        if bj:
            jobs.append(dict(base, name='buffered size=%d drop: producer exits' % cap, K=K, cfg=dict(bc), query='drop_join_blocks'))
            continue
        jobs.append(dict(base, name='buffered size=%d drop: further pulls' % cap, K=K, cfg=dict(bc, allow_drop=True), query='drop_pulls', drop_bound=1))
        jobs.append(dict(base, name='buffered size=%d drop: producer exits' % cap, K=K, cfg=dict(bc, allow_drop=True), query='drop_stuck'))
    return jobs


CLAIMS = {'drop_join_blocks': 'after the consumer drops the iterator every background thread exits (none is left spinning or blocked)',
          'lookahead': 'while the consumer is idle only a bounded number of items is pulled ahead of what was consumed',
          'drop_pulls': 'after the consumer drops the iterator every background thread stops pulling upstream items within the bound',
          'drop_stuck': 'after the consumer drops the iterator every background thread exits (none is left spinning or blocked)',
          'panic': 'if the processing function panics the process terminates instead of leaving the consumer blocked'}


def native_replay(native_factory, r):
    """Confirm a counterexample against the real code (counting source iterator, drop / idle, child exit status)."""
    native = native_factory()
    which = 'pipe_run' if r['name'].startswith('pipe') else 'buffered_run'
    W, cap = r['W'], r.get('buffer_size', r['cap'])
    q = r['query']
    failed = []
    if q == 'lookahead':
        k, v = native_ok(native.call(which, n=100000, w=W, buffer=cap, delays_ms=[], consume=1, then='idle', settle_ms=300, _timeout=10.0))
        # the property asks for a constant that does not depend on the input length: far beyond any such constant
        bound = 8 * (r.get('lookahead_bound', 2 * W) + 2)
        if k != 'ok' or v['pulled_end'] - len(v['outputs']) > bound:
            failed.append(CLAIMS[q])
    elif q in ('drop_pulls', 'drop_stuck', 'drop_join_blocks'):
        for consume in (0, 1, 3):
            k, v = native_ok(native.call(which, n=100000, w=W, buffer=cap, delays_ms=[], consume=consume, then='drop', settle_ms=400, _timeout=12.0))
            if k == 'timeout':
                failed.append(CLAIMS['drop_stuck'])
            elif k != 'ok':
                failed.append('no panic')
            else:
                if not v.get('upstream_dropped', True):
                    # some background thread is still alive (it owns the upstream) long after the drop
                    failed.append(CLAIMS['drop_stuck'])
                k2, v2 = k, v
                # keeps pulling <=> the counter is far beyond the bound after the settle time
                if v['pulled_end'] - v['pulled_at_action'] > r.get('drop_bound', W) + (2 * W if which == 'pipe_run' else cap + 1):
                    failed.append(CLAIMS['drop_pulls'])
    elif q == 'panic':
        res = native.call(which, n=50, w=W, delays_ms=[], consume=-1, then='drain', panic_at=2, _timeout=6.0)
        # expected: the process exits (crash with status 1); a hang (timeout) or a normal answer is a failure
        if 'crash' not in res:
            failed.append(CLAIMS[q])
        else:
            # the same after an earlier pipe was used up and the process-wide hook was replaced since (fresh process)
            native2 = native_factory()
            res = native2.call(which, n=50, w=W, delays_ms=[], consume=-1, then='drain', panic_at=2, prior_pipe=True, _timeout=8.0)
            if 'crash' not in res:
                failed.append(CLAIMS[q])
            try:
                native2.close()
            except Exception:
                pass
    return sorted(set(failed))


def validate_against_impl(native, seed):
    """The real iterators must respect the bounds the model proves (random idle / drop points)."""
    rng = random.Random(seed)
    done = 0
    for _ in range(6):
        W = rng.randint(1, 3)
        c = rng.randint(0, 4)
        k, v = native_ok(native.call('pipe_run', n=100000, w=W, delays_ms=[], consume=c, then='idle', settle_ms=150, _timeout=10.0))
        if k != 'ok' or v['pulled_end'] - len(v['outputs']) > 2 * W:
            raise Unsupported('model validation: real Pipe lookahead %r exceeds 2*W (W=%d)' % (v, W))
        k, v = native_ok(native.call('pipe_run', n=100000, w=W, delays_ms=[], consume=c, then='drop', settle_ms=150, _timeout=10.0))
        if k != 'ok' or v['pulled_end'] - v['pulled_at_action'] > 3 * W or not v.get('upstream_dropped', True):
            raise Unsupported('model validation: real Pipe keeps pulling / stays alive after drop: %r' % (v,))
        b = rng.randint(1, 3)
        k, v = native_ok(native.call('buffered_run', n=100000, buffer=b, delays_ms=[], consume=c, then='idle', settle_ms=150, _timeout=10.0))
        if k != 'ok' or v['pulled_end'] - len(v['outputs']) > b + 1:
            raise Unsupported('model validation: real Buffered lookahead %r exceeds buffer_size + 1 (%d)' % (v, b))
        done += 3
    return done


def custom_main(tier, seed, mir, repo, get_native, procs):
    prog = Program(mir)
    facts = pipe_facts(prog, repo)
    facts['buffered'] = buffered_facts(prog, repo)
    incon, violations, lines = [], [], []
    try:
        facts['pipe_drop'] = drop_facts(prog, 'pipe')
        facts['buffered_drop'] = drop_facts(prog, 'buffered')
    except Unsupported as e:
        incon.append(str(e))
    results = run_jobs(jobs_for(tier, mir, repo, facts), procs)
    native = get_native()
    # num_threads = 0: the unthreaded branch must be lazy (MIRSE sub-harness, lookahead claim only)
    seq = run_unthreaded(tier, mir, repo, native, seed, procs, PROPERTY)
    violations += seq['violations']
    incon += seq['incon']
    undecided = []
    for r in sorted(results, key=lambda r: r['name']):
        if r['result'] == 'unknown' and tier == 'thorough' and (r.get('W') == 3 or r.get('buffer_size') == 3):
            undecided.append(r['name'])      # deep tier only: not decided within the solver's time limit
            continue
        if r['result'] in ('unsupported', 'error', 'unknown'):
            incon.append('%s: %s' % (r['name'], r.get('error', r['result'])))
            continue
        if r['result'] != r['expect']:
            if r['expect'] == 'sat':
                incon.append('vacuity guard failed: %s' % r['name'])
                continue
            # fresh process per replay (the Pipe installs a process-wide panic hook)
            import build as _b
            failed = native_replay(lambda: _b.Native('dev'), r)
            rec = {'property': PROPERTY, 'claim': CLAIMS[r['query']], 'query': r['name'], 'config': {k: r[k] for k in ('W', 'K', 'cap')},
                   'schedule': r.get('trace'), 'native_failed_claims': failed, 'which': 'buffered' if r['name'].startswith('buffered') else 'pipe',
                   'kind': r['query']}
            if failed:
                violations.append(rec)
            else:
                incon.append('counterexample of "%s" did not reproduce natively' % r['name'])
    nval = 0
    if not violations and not incon:
        nval = validate_against_impl(native, seed)
    cov = {
        'states': sum(r.get('block_instances', 0) for r in results) or 1,
        'transitions': sum(r.get('steps', 0) * (r.get('W', 0) + 2) for r in results) or 1,
        'traces_validated_against_impl': nval,
        'samples': [{k: r.get(k) for k in ('name', 'result', 'expect', 'solve_s', 'K')} for r in sorted(results, key=lambda r: r['name'])][:14],
        'evaluations': len(results), 'distinct_nontrivial': sum(1 for r in results if r['result'] == r['expect']),
        'rule': 'one evaluation = one SMT query over all schedules / drop points / panic points of a configuration',
        'engine': 'MIRBMC (transition relations generated from the MIR CFGs of the Pipe worker and the Buffered producer closures, z3 %s QF_BV)' % z3.get_version_string(),
        'functions_encoded': sorted({r.get('function') for r in results if r.get('function')}),
        'queries': [{k: r.get(k) for k in ('name', 'result', 'expect', 'solve_s', 'build_s', 'K', 'block_instances')} for r in results],
        'solver_seconds': round(sum(r.get('solve_s', 0) for r in results), 1), 'solver_queries': len(results),
        'bounds': BOUNDS[tier], 'outside_bounds': OUTSIDE, 'pipe_new_facts': {k: v for k, v in facts.items() if k != 'worker'},
        'inconclusive_reasons': incon[:6], 'exhaustive': not incon and not violations,
        'unthreaded_branch': seq['coverage'], 'undecided_within_budget': undecided,
    }
    return {'violations': violations, 'incon': incon, 'coverage': cov, 'lines': lines, 'assumptions': ASSUMPTIONS}
