"""C19: train_bpe is greedy-correct and always emits a well-formed merge table."""
import z3
from values import *
from harnesses.hlib import *

PROPERTY = 'C19'
VALIDATE_MODELS = ['ws', 'utf8']
VALIDATION_CASES = {'quick': 50, 'thorough': 150}
TIME_BUDGET = {'quick': 900, 'thorough': 3300}
OPTS = {'quick': {'hash_order': 'insertion', 'step_budget': 3000000}, 'thorough': {'hash_order': 'insertion', 'step_budget': 8000000}}
VALIDATION_ALLOW_FORKS = True
BOUNDS = {
    'quick': 'corpora of 1-2 lines (two layouts of 3 lines) with 1-3 words of 1-4 symbolic letters (at most 6 letters in total) over {a, b, c} (so that pairs overlap, repeat inside '
             'words and the corpus is exhausted before the requested number of merges); requested merges 0-5 (vocab_size 320, '
             'num_special_tokens 59-64) and vocab_size 256; normalization None; 1 or 2 counting threads (sequentialised, message '
             'order arbitrary); corpora spread over 1-2 files with max_lines_per_file 1 or 2 (five layouts of 2-3 lines)',
    'thorough': 'up to 3 lines, words of up to 5 letters (at most 7 letters in total), up to 6 merges',
}
OUTSIDE = ['NFKC normalisation, real files, msgpack encoding of the table (captured in memory)', 'HashMap iteration order: the '
           'choice among equally frequent pairs is arbitrary (every tied pair explored); all other hash iterations are in insertion order '
           '(they only affect internal word indices)',
           'larger corpora / alphabets']
ASSUMPTIONS = ['files are in-memory line lists; worker threads sequentialised (lines are counted independently, the reducer is '
               'a commutative sum; see C05 for the mutex / channel protocol)', 'oracle: independent recount of adjacent pair frequencies '
               'after every merge']
KNOWN_MATCHERS = {}


def shapes(tier):
    out = []
    layouts = [[[1]], [[2]], [[3]], [[2, 1]], [[2], [2]], [[3], [1]], [[3, 2]], [[1], [3]], [[4]], [[2, 2]], [[3], [2]], [[2, 1], [2]],
               [[1, 1, 1]], [[1, 1, 1], [2]], [[1, 2, 2]], [[2, 2, 2]]]
    layouts += [[[1], [1], [1]], [[2], [1], [2]]]
    layouts += [[['W']], [['W', 2]], [['W'], ['W']], [['W'], [2]]]       # first word of a line = one 2-byte character      # three lines for two counting threads (a share that does not divide)
    if tier != 'quick':
        layouts += [[[3], [3]], [[2], [2], [2]], [[4, 2]], [[5]], [[3, 3]], [[4], [3]], [[2, 2], [2, 1]]]
    for lay in layouts:
        for merges in ((0, 1, 2, 3, 5) if tier == 'quick' else (0, 1, 2, 3, 4, 6)):
            out.append({'layout': lay, 'merges': merges, 'vocab': 320, 'threads': 2 if len(lay) > 1 else 1})
        out.append({'layout': lay, 'merges': 0, 'vocab': 256, 'threads': 1})
    # several files and max_lines_per_file: the corpus is the first k lines of every file
    for lay, files, k in (([[2], [2]], [[0], [1]], 1), ([[2], [2]], [[0, 1]], 1), ([[2], [2], [2]], [[0, 1], [2]], 1),
                          ([[2], [2], [1, 1]], [[0], [1, 2]], 1), ([[2], [3]], [[0], [1]], 2)):
        for merges in (1, 2):
            out.append({'layout': lay, 'merges': merges, 'vocab': 320, 'threads': 2, 'files': files, 'max_lines': k})
    out.sort(key=lambda s: -(sum(sum(wlen(x) for x in l) for l in s['layout']) * 2 + s['merges']))
    return out


def effective_lines(shape):
    """indices of the lines that belong to the corpus: the first max_lines_per_file lines of every file, in file order"""
    if not shape.get('files'):
        return list(range(len(shape['layout'])))
    return [li for g in shape['files'] for li in g[:shape['max_lines']]]


def setup_machine(machine, shape, opts):
    machine.stubs['progress_bar'] = lambda ctx, args, ck: Opaque('ProgressBar')
    machine.stubs['utils::progress_bar'] = machine.stubs['progress_bar']
    machine.stubs['panic::set_hook'] = lambda ctx, args, ck: None
    machine.stubs['set_hook'] = machine.stubs['panic::set_hook']

    def save(ctx, args, ck):
        ctx.m.captured_table = ctx.m.peel(args[0])
        return Ok(None)
    machine.stubs['SerializeMsgPack::save'] = save
    machine.chan_order_all = shape is not None and len(shape['layout']) == 2
    machine.files = {}
    machine.pending_threads = []
    machine.captured_table = None
    machine.hash_ties_any = True


def wlen(n):
    return 2 if n == 'W' else n


def letters(ctx, name, n):
    if n == 'W':
        # a word that is one 2-byte character (its bytes form pairs although the word has a single character)
        s = ctx.in_string(name, [2])
        if ctx.concrete is None:
            for c in s.chars():
                ctx.assume(z3.Or(c.v == 0xE9, c.v == 0xE4))
        return s.chars()
    s = ctx.in_string(name, [1] * n)
    if ctx.concrete is None:
        for c in s.chars():
            ctx.assume(z3.Or(c.v == 0x61, c.v == 0x62, c.v == 0x63))
    return s.chars()


def tok_eq(ctx, x, y):
    return len(x) == len(y) and ctx.branch(ctx.m.conj([ctx.m.eq(a, b) for a, b in zip(x, y)]))


def pair_counts(ctx, words):
    """adjacent pair frequencies: list of [x, y, freq] (x, y token byte lists), recounted from scratch"""
    out = []
    for toks, freq in words:
        for i in range(len(toks) - 1):
            x, y = toks[i], toks[i + 1]
            for e in out:
                if tok_eq(ctx, e[0], x) and tok_eq(ctx, e[1], y):
                    e[2] += freq
                    break
            else:
                out.append([x, y, freq])
    return out


def apply_merge(ctx, words, x, y):
    res = []
    for toks, freq in words:
        new = []
        for t in toks:
            if new and tok_eq(ctx, new[-1], x) and tok_eq(ctx, t, y) and not getattr(new[-1], 'merged', False):
                new[-1] = MergedTok(new[-1] + t)
            else:
                new.append(list(t))
        res.append(([list(t) for t in new], freq))
    return res


class MergedTok(list):
    merged = True


def run(ctx, shape, opts):
    m = ctx.m
    m.files, m.pending_threads, m.captured_table = {}, [], None
    lay = shape['layout']
    lines = []
    for li, line in enumerate(lay):
        lines.append([letters(ctx, 'w%d_%d' % (li, wi), n) for wi, n in enumerate(line)])

    def line_string(ws):
        chars = []
        for k, w in enumerate(ws):
            if k:
                chars.append(SPACE)
            chars.extend(w)
        return StringObj(StrBuf(chars, [ctx.char_width(c) for c in chars]))
    nst = (shape['vocab'] - 256) - shape['merges']
    if shape.get('files'):
        names = []
        for fi, g in enumerate(shape['files']):
            m.files['corpus%d' % fi] = [line_string(lines[li]) for li in g]
            names.append(m.str_lit('corpus%d' % fi))
        r = m.call('train_bpe', SliceRef(names, 0, len(names)), Int(shape['vocab'], 'usize'), Int(nst, 'usize'), m.str_lit('merges.bin'),
                   Some(Int(shape['max_lines'], 'usize')), NONE(), Int(shape['threads'], 'u8'), False)
        lines = [lines[li] for li in effective_lines(shape)]
    else:
        m.files['corpus'] = [line_string(ws) for ws in lines]
        r = m.call('train_bpe', SliceRef([m.str_lit('corpus')], 0, 1), Int(shape['vocab'], 'usize'), Int(nst, 'usize'), m.str_lit('merges.bin'),
                   NONE(), NONE(), Int(shape['threads'], 'u8'), False)
    ctx.require(r.variant == 'Ok', 'train_bpe succeeds')
    ctx.require(m.captured_table is not None, 'train_bpe writes a merge table')
    table = [(e[0], e[1]) for e in m.captured_table.entries]
    ctx.require(all(isinstance(i.v, int) for _, i in table), 'merge ids are concrete')
    ids = sorted(i.v for _, i in table)
    n = len(table)
    if ctx.outputs is not None:
        ctx.outputs['table'] = sorted([[to_py(ctx, k), i.v] for k, i in table], key=lambda e: e[1])
    ctx.require(ids == list(range(n)), 'merge ids are exactly 0..n-1')
    ctx.require(n <= shape['merges'], 'at most the requested number of merges')
    # ---- independent replay of greedy BPE training
    # words with frequencies: every word keeps its leading whitespace except the first word of a line
    words = []
    for ws in lines:
        for k, w in enumerate(ws):
            from models_core import char_utf8_bytes
            toks = ([[Int(0x20, 'u8')]] if k else []) + [[b_] for c in w for b_ in char_utf8_bytes(ctx, c)]
            for e in words:
                if len(e[0]) == len(toks) and all(tok_eq(ctx, a, b) for a, b in zip(e[0], toks)):
                    e[1] += 1
                    break
            else:
                words.append([toks, 1])
    cur = [(toks, f) for toks, f in words]
    byid = {i.v: k for k, i in table}
    for i in range(n):
        entry = list(m.peel(byid[i]).items)
        pcs = pair_counts(ctx, cur)
        best = max([p[2] for p in pcs] or [0])
        cands = [p for p in pcs if tok_eq(ctx, p[0] + p[1], entry)]
        ctx.require(bool(cands), 'entry %d is the concatenation of an adjacent token pair that occurs in the corpus (as segmented by the earlier merges)' % i)
        top = max(p[2] for p in cands)
        ctx.require(top > 0 and top == best, 'entry %d is a pair of positive and maximal frequency' % i)
        pick = [p for p in cands if p[2] == top][0]
        cur = apply_merge(ctx, cur, pick[0], pick[1])
    if n < shape['merges']:
        ctx.require(not pair_counts(ctx, cur), 'training stops early only when no adjacent pair is left')
    ctx.sample = {'layout': lay, 'requested_merges': shape['merges'], 'merges_written': n}


# ------------------------------------------------------------------ native side

def _lines_py(shape, inputs):
    return [' '.join(''.join(chr(c) for c in inputs['w%d_%d' % (li, wi)]) for wi in range(len(line))) for li, line in enumerate(shape['layout'])]


def _native(native, shape, inputs):
    nst = (shape['vocab'] - 256) - shape['merges']
    extra = {'files': shape['files'], 'max_lines': shape['max_lines']} if shape.get('files') else {}
    return native_ok(native.call('train_bpe', lines=_lines_py(shape, inputs), vocab=shape['vocab'], nst=nst, threads=shape['threads'], _timeout=30.0, **extra))


def native_outputs(native, shape, inputs):
    k, v = _native(native, shape, inputs)
    if k != 'ok':
        return {'panic': v}
    return {'table': sorted(v, key=lambda e: e[1])}


def concrete_check(native, inputs, shape):
    # ties between equally frequent pairs are broken by the (randomly keyed) hash order: repeat the native run
    failed = []
    for _ in range(16):
        for f in _concrete_check_once(native, inputs, shape):
            if f not in failed:
                failed.append(f)
    return failed


def _concrete_check_once(native, inputs, shape):
    k, v = _native(native, shape, inputs)
    if k != 'ok':
        return ['no panic']
    table = {bytes(e[0]): e[1] for e in v}
    n = len(table)
    failed = []
    if sorted(table.values()) != list(range(n)):
        return ['merge ids are exactly 0..n-1']
    if n > shape['merges']:
        failed.append('at most the requested number of merges')
    words = {}
    all_lines = _lines_py(shape, inputs)
    for ln in [all_lines[li] for li in effective_lines(shape)]:
        for kk, w in enumerate(ln.split(' ')):
            key = ((b' ',) if kk else ()) + tuple(bytes([b]) for b in w.encode())
            words[key] = words.get(key, 0) + 1
    cur = dict(words)
    byid = {i: k for k, i in table.items()}

    def pcs(cur):
        out = {}
        for toks, f in cur.items():
            for a, b in zip(toks, toks[1:]):
                out[(a, b)] = out.get((a, b), 0) + f
        return out
    for i in range(n):
        pc = pcs(cur)
        best = max(pc.values() or [0])
        cands = [(p, f) for p, f in pc.items() if p[0] + p[1] == byid[i]]
        if not cands:
            failed.append('entry %d is the concatenation of an adjacent token pair that occurs in the corpus (as segmented by the earlier merges)' % i)
            break
        top = max(f for _, f in cands)
        if not (top > 0 and top == best):
            failed.append('entry %d is a pair of positive and maximal frequency' % i)
            break
        (x, y) = [p for p, f in cands if f == top][0]
        new = {}
        for toks, f in cur.items():
            nt = []
            fresh = False
            for t in toks:
                if nt and nt[-1] == x and t == y and not fresh:
                    nt[-1] = x + y
                    fresh = True
                else:
                    nt.append(t)
                    fresh = False
            new[tuple(nt)] = new.get(tuple(nt), 0) + f
        cur = new
    if not failed and n < shape['merges'] and pcs(cur):
        failed.append('training stops early only when no adjacent pair is left')
    return failed


def _case(lines, merges, vocab=320):
    lay = [[len(w) for w in l.split(' ')] for l in lines]
    inp = {}
    for li, l in enumerate(lines):
        for wi, w in enumerate(l.split(' ')):
            inp['w%d_%d' % (li, wi)] = [ord(c) for c in w]
    return ({'layout': lay, 'merges': merges, 'vocab': vocab, 'threads': 2 if len(lay) > 1 else 1}, inp)


FIXED_CASES = [_case(['ab'], 1), _case(['aab ab'], 2), _case(['aaa', 'ab'], 3), _case(['ab'], 0, 256)]


def random_case(rng):
    lines = []
    for _ in range(rng.randint(1, 2)):
        lines.append(' '.join(''.join(rng.choice('abc') for _ in range(rng.randint(1, 3))) for _ in range(rng.randint(1, 2))))
    return _case(lines, rng.choice([0, 1, 2, 3]))
