"""C13: correction metrics are total, bounded, calibrated and aggregate correctly."""
import itertools
import math
import z3
from values import *
from harnesses.hlib import *
from models_core import char_is_whitespace

PROPERTY = 'C13'
VALIDATE_MODELS = ['ws', 'utf8']
VALIDATION_CASES = {'quick': 150, 'thorough': 500}
TIME_BUDGET = {'quick': 900, 'thorough': 3300}
OPTS = {'quick': {'hash_order': 'insertion'}, 'thorough': {'hash_order': 'insertion'}}
BOUNDS = {
    'quick': 'F-beta value equal to the defining formula up to 1e-9, range and calibration: counts tp, fp, fn <= 3 (all 64 combinations) with beta any f32 value in (0, 8] widened to f64 (queries decided by cvc5); binary_f1 / '
             'accuracy: symbolic vectors of length <= 3 (and mismatching lengths); spelling / whitespace correction counts: '
             'triples (input, prediction, target) of strings of <= 2 characters (third string <= 3) over {a, b, space} with '
             'symbolic characters, and word-level triples (1-2 words of 1-2 symbolic letters per text; prediction = target or '
             'prediction = input: reordered / merged / split words); aggregation (micro / sequence averaged) over 0-2 sequences; mean (normalised) edit '
             'distance over 0-2 pairs',
    'thorough': 'strings of <= 3 characters each (4 for one of them), word-level triples with up to 3 words / 3-letter words, counts <= 4, beta any f64 in (0, 8]',
}
OUTSIDE = ['longer strings and alphabets other than {a, b, space} (NFKC normalisation is modelled as the identity on '
           'NFKC-stable text)', 'rayon scheduling (modelled as a sequential map in index order)']
ASSUMPTIONS = ['HashSet iteration order fixed to insertion order (only counts of set operations are used)',
               'unicode-normalization NFKC = identity on ASCII', 'f64 arithmetic = IEEE-754 binary64 round-to-nearest-even (z3 FloatingPoint)']


def _clean_py(cps):
    words = ''.join(chr(c) for c in cps).split()
    return ' '.join(words)


def _kf_word_deleted(shape, inputs, failed):
    if shape.get('mode') != 'spell' or not set(failed) <= {'a prediction equal to the target has no false positives or negatives'}:
        return False
    ci, cp, ct = (_clean_py(inputs[k]) for k in ('input', 'pred', 'target'))
    return cp == ct and len(ci.split()) > len(cp.split())


KNOWN_MATCHERS = {'c13_whole_word_deleted': _kf_word_deleted}
MODES = ['Insertions', 'Deletions', 'InsertionsAndDeletions']


def shapes(tier):
    out = []
    cmax = 3 if tier == 'quick' else 4
    for tp in range(cmax + 1):
        for fp in range(cmax + 1):
            for fn in range(cmax + 1):
                out.append({'mode': 'f1', 'tp': tp, 'fp': fp, 'fn': fn})
    for n in range(0, 4):
        for dl in (0, 1):
            out.append({'mode': 'binary', 'n': n, 'dl': dl})
    ls = 2 if tier == 'quick' else 3
    for li in range(ls + 1):
        for lp in range(ls + 2):
            for lt in range(ls + 1):
                for g in ((True,) if tier == 'quick' else (True, False)):
                    out.append({'mode': 'spell', 'li': li, 'lp': lp, 'lt': lt, 'g': g})
                for wm in MODES:
                    out.append({'mode': 'ws', 'li': li, 'lp': lp, 'lt': lt, 'wsmode': wm, 'g': True})
    # word-level shapes: fixed word layouts with symbolic letters over {a, b}; the prediction is the target (calibration
    # of false positives / negatives) or the input (no true positives); covers reordered, merged and split words
    lays = [[1], [2], [1, 1], [2, 1], [1, 2]] + ([] if tier == 'quick' else [[1, 1, 1], [2, 2], [3], [1, 2, 1]])
    for li_ in lays:
        for lt_ in lays:
            for pi in ('target', 'input'):
                ni, nt = sum(li_) + len(li_) - 1, sum(lt_) + len(lt_) - 1
                out.append({'mode': 'spell', 'li': ni, 'lp': nt if pi == 'target' else ni, 'lt': nt, 'g': True,
                            'lay_i': li_, 'lay_t': lt_, 'pred_is': pi})
    # the same word-level shapes behind a first word that is one multi-code-point grapheme cluster (e + U+0301): character
    # indices and code point indices differ from there on
    for li_, lt_ in [([1, 1], [2]), ([2], [1, 1]), ([1], [1]), ([2, 1], [1, 2]), ([1, 1], [1, 1])]:
        for pi in ('target', 'input'):
            ni, nt = sum(li_) + len(li_) - 1, sum(lt_) + len(lt_) - 1
            out.append({'mode': 'spell', 'li': ni + 3, 'lp': (nt if pi == 'target' else ni) + 3, 'lt': nt + 3, 'g': True,
                        'lay_i': li_, 'lay_t': lt_, 'pred_is': pi, 'cluster_prefix': True})
    for k in range(0, 3):
        for sa in (False, True):
            out.append({'mode': 'agg', 'k': k, 'seq_avg': sa})
        out.append({'mode': 'med', 'k': k})
    out.append({'mode': 'agg', 'k': 1, 'seq_avg': True, 'mismatch': True})
    heavy = lambda s: 100 if s['mode'] == 'f1' else s.get('li', 0) + s.get('lp', 0) + s.get('lt', 0)
    out.sort(key=lambda s: -heavy(s))
    return out


def abs_string(ctx, name, n):
    """symbolic string over {a, b, space}"""
    s = ctx.in_string(name, [1] * n)
    if ctx.concrete is None:
        for c in s.chars():
            ctx.assume(z3.Or(c.v == 0x61, c.v == 0x62, c.v == 0x20))
    return s


def layout_string(ctx, name, lay):
    """words of the given lengths separated by single spaces, letters symbolic over {a, b}"""
    n = sum(lay) + len(lay) - 1
    s = ctx.in_string(name, [1] * n)
    if ctx.concrete is None:
        spaces, k = set(), 0
        for w in lay[:-1]:
            k += w
            spaces.add(k)
            k += 1
        for i, c in enumerate(s.chars()):
            ctx.assume(c.v == 0x20 if i in spaces else z3.Or(c.v == 0x61, c.v == 0x62))
    return s


def py_f1(tp, fp, fn, beta):
    p = tp / max(tp + fp, 1)
    r = tp / max(tp + fn, 1)
    if p + r > 0.0:
        b2 = beta * beta
        return ((1.0 + b2) * p * r) / (b2 * p + r), p, r
    return 0.0, p, r


def fp_in_unit(m, x):
    return m.conj([m.fp_binop('Ge', x, FP(0.0, 'f64')), m.fp_binop('Le', x, FP(1.0, 'f64'))])


def tup_f(ctx, t):
    return [x for x in t.fields]


def run(ctx, shape, opts):
    m = ctx.m
    md = shape['mode']
    if md == 'f1':
        ctx.use_cvc5 = True   # IEEE-754 mul/div queries: cvc5 decides them in seconds, z3 does not
        if ctx.concrete is None:
            m.cvc5_timeout_ms = 240000
            if opts.get('tier') == 'thorough':
                m.cvc5_timeout_ms = 600000
                beta = ctx.in_fp('beta')
            else:
                # quick tier: every f32 value widened to f64 (full f64 needs minutes per query, see thorough)
                b32 = ctx.fresh_fp('beta32', 'f32')
                beta = FP(z3.fpFPToFP(z3.RNE(), b32.v, z3.Float64()), 'f64')
                ctx.inputs['beta'] = beta
            # case split over binades of beta (six sub-ranges of (0, 8]): an order of magnitude faster than one query
            rngs = [(0.0, 2.0 ** -20), (2.0 ** -20, 2.0 ** -8), (2.0 ** -8, 0.0625), (0.0625, 0.25), (0.25, 0.5), (0.5, 0.75), (0.75, 1.0),
                    (1.0, 1.5), (1.5, 2.0), (2.0, 3.0), (3.0, 4.0), (4.0, 6.0), (6.0, 8.0)]
            lo, hi = rngs[ctx.choice(len(rngs), 'beta-range')]
            ctx.assume(m.conj([m.fp_binop('Gt', beta, FP(lo, 'f64')), m.fp_binop('Le', beta, FP(hi, 'f64'))]))
        else:
            beta = ctx.in_fp('beta')
        r = m.call('_f1', Int(shape['tp'], 'usize'), Int(shape['fp'], 'usize'), Int(shape['fn'], 'usize'), beta)
        f1, p, rc = r.fields
        ctx.out('f1', r)
        tp, fp, fn = shape['tp'], shape['fp'], shape['fn']
        ctx.require(m.fp_binop('Eq', p, FP(tp / max(tp + fp, 1), 'f64')), 'precision == tp / max(tp + fp, 1)')
        ctx.require(m.fp_binop('Eq', rc, FP(tp / max(tp + fn, 1), 'f64')), 'recall == tp / max(tp + fn, 1)')
        ctx.require(fp_in_unit(m, f1), 'F-beta is finite and lies in [0, 1]')
        if tp == 0:
            ctx.require(m.fp_binop('Eq', f1, FP(0.0, 'f64')), 'F-beta is 0 without true positives')
        if fp == 0 and fn == 0 and tp > 0:
            ctx.require(m.fp_binop('Eq', f1, FP(1.0, 'f64')), 'F-beta is 1 for a perfect result')
        if tp > 0:
            # the defining formula (1 + b^2) P R / (b^2 P + R), evaluated in f64 over the same beta; an implementation may
            # compute it differently (e.g. from the counts), so equality is asked up to 1e-9 (values lie in [0, 1])
            P, R = FP(tp / max(tp + fp, 1), 'f64'), FP(tp / max(tp + fn, 1), 'f64')
            b2 = m.fp_binop('Mul', m.fp_binop('Mul', FP(1.0, 'f64'), beta), beta)       # beta.powi(2)
            num = m.fp_binop('Mul', m.fp_binop('Mul', m.fp_binop('Add', FP(1.0, 'f64'), b2), P), R)
            den = m.fp_binop('Add', m.fp_binop('Mul', b2, P), R)
            ref = m.fp_binop('Div', num, den)
            what = 'F-beta == (1 + beta^2) P R / (beta^2 P + R) up to 1e-9'
            same = isinstance(f1.v, float) and isinstance(ref.v, float) and (f1.v == ref.v or f1.v == min(ref.v, 1.0))
            if not same and not isinstance(f1.v, float) and not isinstance(ref.v, float):
                # the term the code computed is literally the defining formula (optionally clamped to 1): nothing to solve
                same = f1.v.eq(ref.v) or f1.v.eq(z3.fpMin(ref.v, z3.FPVal(1.0, z3.Float64())))
            if same:
                ctx.require(True, what)
            else:
                d = m.fp_binop('Sub', f1, ref)
                ctx.require(m.conj([m.fp_binop('Le', d, FP(1e-9, 'f64')), m.fp_binop('Ge', d, FP(-1e-9, 'f64'))]), what)
        ctx.sample = dict(shape)
        return
    if md == 'binary':
        n, dl = shape['n'], shape['dl']
        pv = [ctx.branch(ctx.in_bool('p%d' % i)) for i in range(n)]
        tv = [ctx.branch(ctx.in_bool('t%d' % i)) for i in range(n + dl)]
        beta = FP(float(opts.get('beta', 1.0)), 'f64')
        r = m.call('binary_f1', SliceRef(list(pv), 0, n), SliceRef(list(tv), 0, n + dl), beta)
        acc = m.call('accuracy', SliceRef([Int(int(x), 'usize') for x in pv], 0, n),
                     SliceRef([Int(int(x), 'usize') for x in tv], 0, n + dl))
        ctx.out('binary_f1', r)
        ctx.out('accuracy', acc)
        if dl:
            ctx.require(r.variant == 'Err' and acc.variant == 'Err', 'length mismatch is an error')
        else:
            tp = sum(1 for a, b in zip(pv, tv) if a and b)
            fp = sum(1 for a, b in zip(pv, tv) if a and not b)
            fn = sum(1 for a, b in zip(pv, tv) if not a and b)
            e = py_f1(tp, fp, fn, 1.0)
            ctx.require(r.variant == 'Ok' and [x.v for x in r.fields[0].fields] == list(e), 'binary_f1 == F-beta of the confusion counts')
            ea = sum(1 for a, b in zip(pv, tv) if a == b) / max(n, 1)
            ctx.require(acc.variant == 'Ok' and acc.fields[0].v == ea, 'accuracy == matches / max(n, 1)')
        ctx.sample = dict(shape)
        return
    if md in ('spell', 'ws'):
        if 'lay_i' in shape and ctx.concrete is None:
            inp = layout_string(ctx, 'input', shape['lay_i'])
            tgt = layout_string(ctx, 'target', shape['lay_t'])
            same = tgt if shape['pred_is'] == 'target' else inp
            prd = ctx.in_string('pred', [1] * len(same.chars()))
            for c, d in zip(prd.chars(), same.chars()):
                ctx.assume(c.v == d.v)
            if shape.get('cluster_prefix'):
                def pref(sv):
                    chars = [Int(0x65, 'char'), Int(0x301, 'char'), Int(0x20, 'char')] + list(sv.chars())
                    buf = StrBuf(chars, [ctx.char_width(c) for c in chars])
                    return StrRef(buf, 0, buf.byte_len())
                inp, tgt, prd = pref(inp), pref(tgt), pref(prd)
                for nm_ in ('input', 'target', 'pred'):
                    ctx.inputs[nm_] = [0x65, 0x301, 0x20] + list(ctx.inputs[nm_])
        else:
            inp = abs_string(ctx, 'input', shape['li'])
            prd = abs_string(ctx, 'pred', shape['lp'])
            tgt = abs_string(ctx, 'target', shape['lt'])
        g = shape['g']
        # the metric functions receive cleaned text
        ci = m.call('clean', inp, True)
        cp = m.call('clean', prd, True)
        ct = m.call('clean', tgt, True)
        si, sp, st = (m.peel(x).as_str() for x in (ci, cp, ct))
        if md == 'spell':
            r = m.call('_spelling_correction_tp_fp_fn', si, sp, st, g)   # any panic is a violation
            empty, tp, fp, fn = r.fields[0], r.fields[1].v, r.fields[2].v, r.fields[3].v
            ctx.out('counts', [tp, fp, fn])
            if ctx.must(m.eq(sp, st)):
                nwi = len(m.peel(m.call('word_boundaries', si, True)).items)
                nwp = len(m.peel(m.call('word_boundaries', sp, True)).items)
                if nwi > nwp and 'c13_whole_word_deleted' in opts.get('known_active', ()) and not opts.get('concrete'):
                    # KF-C13-1: whole words deleted by a correct prediction are counted as false positives
                    ctx.require(fn == 0, 'a prediction equal to the target has no false positives or negatives')
                else:
                    ctx.require(fp == 0 and fn == 0, 'a prediction equal to the target has no false positives or negatives')
            if ctx.must(m.eq(sp, si)):
                ctx.require(tp == 0 or ctx.must(m.eq(si, st)), 'an unchanged prediction of an erroneous input has zero true positives')
                if ctx.must(m.bnot(m.eq(si, st))):
                    ctx.require(tp == 0, 'an unchanged prediction of an erroneous input has zero true positives')
            ctx.sample = {'mode': md, 'lens': [shape['li'], shape['lp'], shape['lt']], 'counts': [tp, fp, fn]}
            return
        wm = shape['wsmode']
        mode = Enum('WhitespaceCorrectionMode', wm, MODES.index(wm), [])
        r = m.call('_whitespace_correction_tp_fp_fn', si, sp, st, ref_to(mode), g)
        gt = m.call('whitespace::operations', si, st, g)
        pr = m.call('whitespace::operations', si, sp, g)
        if gt.variant == 'Err' or pr.variant == 'Err':
            ctx.require(r.variant == 'Err', 'texts that differ in more than whitespace yield an error, not a panic')
            ctx.out('counts', 'Err')
            return
        ctx.require(r.variant == 'Ok', 'whitespace counts are defined when both operation sequences exist')
        t = r.fields[0]
        tp, fp, fn = t.fields[1].v, t.fields[2].v, t.fields[3].v
        ctx.out('counts', [tp, fp, fn])

        def opset(ops):
            out = set()
            for i, o in enumerate(ops.fields[0].items):
                if (o.variant == 'Insert' and wm != 'Deletions') or (o.variant == 'Delete' and wm != 'Insertions'):
                    out.add((i, o.variant))
            return out
        G, P = opset(gt), opset(pr)
        ctx.require((tp, fp, fn) == (len(G & P), len(P - G), len(G - P)),
                    'whitespace counts == set comparison of ground-truth and predicted operations')
        ctx.require(t.fields[0] == (not G and not P), 'the empty flag is set iff neither side has operations')
        ctx.sample = {'mode': md, 'wsmode': wm, 'counts': [tp, fp, fn]}
        return
    if md == 'agg':
        k = shape['k']
        beta = FP(1.0, 'f64')
        # the first triple is symbolic, a second one is the fixed triple of the repository's unit test
        def mk(name, i, fixed):
            if i == 0 or ctx.concrete is not None:
                return abs_string(ctx, '%s%d' % (name, i), 2)
            ctx.inputs['%s%d' % (name, i)] = [ord(c) for c in fixed]
            return m.str_lit(fixed)
        ins = [mk('in', i, 'ab a') for i in range(k)]
        prs = [mk('pr', i, 'a ba') for i in range(k)]
        tgs = [mk('tg', i, 'aba') for i in range(k)]
        if shape.get('mismatch'):
            prs = prs[:-1]
        r = m.call('spelling_correction_f1', SliceRef(list(ins), 0, len(ins)), SliceRef(list(prs), 0, len(prs)),
                   SliceRef(list(tgs), 0, len(tgs)), beta, shape['seq_avg'], True)
        ctx.out('agg', {'Ok': [x for x in r.fields[0].fields[0].fields]} if r.variant == 'Ok' else {'Err': True})
        if shape.get('mismatch'):
            ctx.require(r.variant == 'Err', 'a different number of sequences is an error')
            return
        ctx.require(r.variant == 'Ok', 'spelling_correction_f1 succeeds')
        got = [x.v for x in r.fields[0].fields[0].fields]
        counts = []
        for a, b, c in zip(ins, prs, tgs):
            ca, cb, cc = (m.peel(m.call('clean', x, True)).as_str() for x in (a, b, c))
            t = m.call('_spelling_correction_tp_fp_fn', ca, cb, cc, True)
            counts.append((t.fields[0], t.fields[1].v, t.fields[2].v, t.fields[3].v))
        if shape['seq_avg']:
            vals = [(1.0, 1.0, 1.0) if e else py_f1(tp, fp, fn, 1.0) for e, tp, fp, fn in counts]
            acc = [0.0, 0.0, 0.0]
            for v in vals:
                acc = [acc[i] + v[i] for i in range(3)]
            exp = [x / max(len(vals), 1) for x in acc]
            ctx.require(got == exp, 'sequence averaging is the mean of the per-sequence values')
        else:
            exp = list(py_f1(sum(c[1] for c in counts), sum(c[2] for c in counts), sum(c[3] for c in counts), 1.0))
            ctx.require(got == exp, 'micro averaging is the F-beta of the summed counts')
        ctx.require(all(0.0 <= x <= 1.0 for x in got), 'aggregated precision, recall and F-beta lie in [0, 1]')
        ctx.sample = dict(shape)
        return
    if md == 'med':
        k = shape['k']
        def mk(name, i, n, fixed):
            if i == 0 or ctx.concrete is not None:
                return abs_string(ctx, '%s%d' % (name, i), n)
            ctx.inputs['%s%d' % (name, i)] = [ord(c) for c in fixed]
            return m.str_lit(fixed)
        a = [mk('a', i, 2, 'ab a') for i in range(k)]
        b = [mk('b', i, 3, 'a ba') for i in range(k)]
        r1 = m.call('mean_edit_distance', SliceRef(list(a), 0, k), SliceRef(list(b), 0, k), True)
        r2 = m.call('mean_normalized_edit_distance', SliceRef(list(a), 0, k), SliceRef(list(b), 0, k), True)
        ctx.out('med', r1)
        ctx.out('mned', r2)
        ctx.require(r1.variant == 'Ok' and r2.variant == 'Ok', 'mean edit distance succeeds')
        d1, d2 = 0.0, 0.0
        for x, y in zip(a, b):
            cx, cy = (m.peel(m.call('clean', z, True)).as_str() for z in (x, y))
            d1 += m.call('distance', cx, cy, True, False, False, False).v
            d2 += m.call('distance', cx, cy, True, False, False, True).v
        ctx.require(r1.fields[0].v == d1 / max(k, 1), 'mean_edit_distance == mean of the pairwise distances')
        ctx.require(r2.fields[0].v == d2 / max(k, 1), 'mean_normalized_edit_distance == mean of the normalised distances')
        ctx.sample = dict(shape)
        return
    raise Unsupported('mode ' + md)


# ------------------------------------------------------------------ native side

def _strs(inputs, prefix, k):
    return [inputs['%s%d' % (prefix, i)] for i in range(k)]


def native_outputs(native, shape, inputs):
    md = shape['mode']
    if md == 'f1':
        k, v = native_ok(native.call('metric_f1', tp=shape['tp'], fp=shape['fp'], fn=shape['fn'], beta=float(inputs['beta'])))
        return {'panic': v} if k != 'ok' else {'f1': v}
    if md == 'binary':
        n, dl = shape['n'], shape['dl']
        p = [bool(inputs['p%d' % i]) for i in range(n)]
        t = [bool(inputs['t%d' % i]) for i in range(n + dl)]
        k, v = native_ok(native.call('metric_binary', p=p, t=t, beta=1.0))
        return {'panic': v} if k != 'ok' else {'binary_f1': v['f1'], 'accuracy': v['acc']}
    if md == 'spell':
        k, v = native_ok(native.call('metric_spell_counts', i=inputs['input'], p=inputs['pred'], t=inputs['target'], g=shape['g']))
        return {'panic': v} if k != 'ok' else {'counts': v[:3]}
    if md == 'ws':
        k, v = native_ok(native.call('metric_ws_counts', i=inputs['input'], p=inputs['pred'], t=inputs['target'], g=shape['g'],
                                     mode=shape['wsmode']))
        return {'panic': v} if k != 'ok' else {'counts': v if v == 'Err' else v[:3], '_empty': None if v == 'Err' else v[3]}
    if md == 'agg':
        kk = shape['k']
        prs = _strs(inputs, 'pr', kk)
        if shape.get('mismatch'):
            prs = prs[:-1]
        k, v = native_ok(native.call('metric_spell_f1', i=_strs(inputs, 'in', kk), p=prs, t=_strs(inputs, 'tg', kk),
                                     beta=1.0, seq=shape['seq_avg'], g=True))
        return {'panic': v} if k != 'ok' else {'agg': v}
    if md == 'med':
        kk = shape['k']
        k, v = native_ok(native.call('metric_med', a=_strs(inputs, 'a', kk), b=_strs(inputs, 'b', kk), g=True))
        return {'panic': v} if k != 'ok' else {'med': v['med'], 'mned': v['mned']}


def concrete_check(native, inputs, shape):
    md = shape['mode']
    o = native_outputs(native, shape, inputs)
    if 'panic' in o:
        return ['no panic']
    failed = []
    if md == 'f1':
        beta = float(inputs['beta'])
        if not (0.0 < beta <= 8.0):
            return []
        f1, p, r = o['f1']
        tp, fp, fn = shape['tp'], shape['fp'], shape['fn']
        if p != tp / max(tp + fp, 1):
            failed.append('precision == tp / max(tp + fp, 1)')
        if r != tp / max(tp + fn, 1):
            failed.append('recall == tp / max(tp + fn, 1)')
        if f1 is None or not (0.0 <= f1 <= 1.0):
            failed.append('F-beta is finite and lies in [0, 1]')
        if tp == 0 and f1 != 0.0:
            failed.append('F-beta is 0 without true positives')
        if fp == 0 and fn == 0 and tp > 0 and f1 != 1.0:
            failed.append('F-beta is 1 for a perfect result')
        if tp > 0 and f1 is not None and abs(f1 - py_f1(tp, fp, fn, beta)[0]) > 1e-9:
            failed.append('F-beta == (1 + beta^2) P R / (beta^2 P + R) up to 1e-9')
        return failed
    if md == 'binary':
        n, dl = shape['n'], shape['dl']
        p = [bool(inputs['p%d' % i]) for i in range(n)]
        t = [bool(inputs['t%d' % i]) for i in range(n + dl)]
        if dl:
            return [] if (o['binary_f1'] == {'Err': True} and o['accuracy'] == {'Err': True}) else ['length mismatch is an error']
        tp = sum(1 for a, b in zip(p, t) if a and b)
        fp = sum(1 for a, b in zip(p, t) if a and not b)
        fn = sum(1 for a, b in zip(p, t) if not a and b)
        if o['binary_f1'] != {'Ok': list(py_f1(tp, fp, fn, 1.0))}:
            failed.append('binary_f1 == F-beta of the confusion counts')
        if o['accuracy'] != {'Ok': sum(1 for a, b in zip(p, t) if a == b) / max(n, 1)}:
            failed.append('accuracy == matches / max(n, 1)')
        return failed
    if md == 'spell':
        tp, fp, fn = o['counts']
        cl = lambda s: native.call('clean', s=s, g=True)['ok']
        ci, cp, ct = cl(inputs['input']), cl(inputs['pred']), cl(inputs['target'])
        if cp == ct and (fp or fn):
            failed.append('a prediction equal to the target has no false positives or negatives')
        if cp == ci and ci != ct and tp:
            failed.append('an unchanged prediction of an erroneous input has zero true positives')
        return failed
    if md == 'ws':
        cl = lambda s: native.call('clean', s=s, g=True)['ok']
        ci, cp, ct = cl(inputs['input']), cl(inputs['pred']), cl(inputs['target'])
        gt = native.call('ws_operations', a=ci, b=ct, g=shape['g'])['ok']
        pr = native.call('ws_operations', a=ci, b=cp, g=shape['g'])['ok']
        if 'Err' in gt or 'Err' in pr:
            return [] if o['counts'] == 'Err' else ['texts that differ in more than whitespace yield an error, not a panic']
        if o['counts'] == 'Err':
            return ['whitespace counts are defined when both operation sequences exist']
        wm = shape['wsmode']
        st = lambda ops: {(i, x) for i, x in enumerate(ops['Ok']) if (x == 'Insert' and wm != 'Deletions') or (x == 'Delete' and wm != 'Insertions')}
        G, P = st(gt), st(pr)
        if list(o['counts']) != [len(G & P), len(P - G), len(G - P)]:
            failed.append('whitespace counts == set comparison of ground-truth and predicted operations')
        if o['_empty'] != (not G and not P):
            failed.append('the empty flag is set iff neither side has operations')
        return failed
    if md == 'agg':
        if shape.get('mismatch'):
            return [] if o['agg'] == {'Err': True} else ['a different number of sequences is an error']
        if 'Ok' not in o['agg']:
            return ['spelling_correction_f1 succeeds']
        got = o['agg']['Ok']
        kk = shape['k']
        counts = []
        for i in range(kk):
            c = native.call('metric_spell_counts', i=inputs['in%d' % i], p=inputs['pr%d' % i], t=inputs['tg%d' % i], g=True)['ok']
            counts.append(c)
        if shape['seq_avg']:
            vals = [(1.0, 1.0, 1.0) if c[3] else py_f1(c[0], c[1], c[2], 1.0) for c in counts]
            acc = [0.0, 0.0, 0.0]
            for v in vals:
                acc = [acc[i] + v[i] for i in range(3)]
            exp = [x / max(len(vals), 1) for x in acc]
            if got != exp:
                failed.append('sequence averaging is the mean of the per-sequence values')
        else:
            exp = list(py_f1(sum(c[0] for c in counts), sum(c[1] for c in counts), sum(c[2] for c in counts), 1.0))
            if got != exp:
                failed.append('micro averaging is the F-beta of the summed counts')
        if not all(x is not None and 0.0 <= x <= 1.0 for x in got):
            failed.append('aggregated precision, recall and F-beta lie in [0, 1]')
        return failed
    if md == 'med':
        kk = shape['k']
        d1 = d2 = 0.0
        for i in range(kk):
            cl = lambda s: native.call('clean', s=s, g=True)['ok']
            x, y = cl(inputs['a%d' % i]), cl(inputs['b%d' % i])
            d1 += native.call('edit_distance', a=x, b=y, g=True, swap=False, spaces=False, norm=False)['ok']
            d2 += native.call('edit_distance', a=x, b=y, g=True, swap=False, spaces=False, norm=True)['ok']
        if o['med'] != {'Ok': d1 / max(kk, 1)}:
            failed.append('mean_edit_distance == mean of the pairwise distances')
        if o['mned'] != {'Ok': d2 / max(kk, 1)}:
            failed.append('mean_normalized_edit_distance == mean of the normalised distances')
        return failed
    return failed


def _sp(i, p, t, g=True):
    f = lambda s: [ord(c) for c in s]
    return ({'mode': 'spell', 'li': len(i), 'lp': len(p), 'lt': len(t), 'g': g}, {'input': f(i), 'pred': f(p), 'target': f(t)})


def _ws(i, p, t, wm='InsertionsAndDeletions'):
    f = lambda s: [ord(c) for c in s]
    return ({'mode': 'ws', 'li': len(i), 'lp': len(p), 'lt': len(t), 'g': True, 'wsmode': wm}, {'input': f(i), 'pred': f(p), 'target': f(t)})


FIXED_CASES = [_sp('this is a tset', 'this is a test', 'this is a test'), _sp('ab a', 'a ba', 'aba'), _sp('a b', 'ab', 'a b'),
               _ws('thisis a test', 'this is a test', 'this is atest'), _ws('a b', 'ab', 'a b', 'Deletions'),
               ({'mode': 'f1', 'tp': 2, 'fp': 1, 'fn': 0}, {'beta': 1.0}), ({'mode': 'f1', 'tp': 1, 'fp': 3, 'fn': 2}, {'beta': 0.5}),
               ({'mode': 'binary', 'n': 3, 'dl': 0}, {'p0': 1, 'p1': 0, 'p2': 1, 't0': 1, 't1': 1, 't2': 0})]


def random_case(rng):
    al = 'ab  '
    rs = lambda n: ''.join(rng.choice(al) for _ in range(rng.randint(0, n)))
    r = rng.random()
    if r < 0.45:
        return _sp(rs(4), rs(4), rs(4), rng.random() < 0.7)
    if r < 0.8:
        base = ''.join(rng.choice('ab') for _ in range(rng.randint(0, 3)))
        def sp(b):
            out = ''
            for ch in b:
                out += ch + (' ' if rng.random() < 0.4 else '')
            return out
        return _ws(sp(base), sp(base) if rng.random() < 0.85 else rs(3), sp(base), rng.choice(MODES))
    if r < 0.9:
        return ({'mode': 'f1', 'tp': rng.randint(0, 4), 'fp': rng.randint(0, 4), 'fn': rng.randint(0, 4)},
                {'beta': rng.choice([0.5, 1.0, 2.0, 7.5, 0.001])})
    kk = rng.randint(0, 2)
    inp = {}
    for i in range(kk):
        for pfx in ('in', 'pr', 'tg'):
            inp['%s%d' % (pfx, i)] = [ord(c) for c in rs(3)]
    return ({'mode': 'agg', 'k': kk, 'seq_avg': rng.random() < 0.5}, inp)
