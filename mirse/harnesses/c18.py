"""C18: text::match_words(_with) is a longest common subsequence; edit::edited_words is its complement."""
import z3
from values import *
from harnesses.hlib import *

PROPERTY = 'C18'
VALIDATE_MODELS = []
VALIDATION_CASES = {'quick': 200, 'thorough': 600}
TIME_BUDGET = {'quick': 600, 'thorough': 3300}
OPTS = {'quick': {'hash_order': 'insertion'}, 'thorough': {'hash_order': 'insertion'}}
BOUNDS = {
    'quick': 'relation mode: <= 3 x 3 words with the word-match relation a symbolic Boolean matrix (covers every equality '
             'pattern, repeated words, case folding); text mode: <= 3 x 3 one-letter words over symbolic ASCII letters with '
             'ignore_case symbolic, plus layouts with leading/trailing/multiple ASCII whitespace; words mode: 1-2 words of 1-2 letters per side over {a, A, b} or '
             '{ä, Ä, ö} (a word can be a proper prefix of another; non-ASCII case folding), and the Kelvin sign U+212A against {k, K, j} '
             '(case folding that changes the UTF-8 length); edited_words on the same texts',
    'thorough': 'same with <= 4 x 4 words (relation mode) and 3 x 4 (text mode)',
}
OUTSIDE = ['non-ASCII whitespace inside texts (the code splits on ASCII whitespace only)', 'words longer than two '
           'characters; alphabets other than ASCII letters and the Latin-1 letters ä Ä ö (case folding modelled per feasible code point)', 'more words']
ASSUMPTIONS = ['HashSet iteration order fixed to insertion order in edited_words (its results are sets, compared as sets)',
               'str::to_lowercase: ASCII formula, or the Unicode simple mapping of each feasible code point of a small alphabet']
KNOWN_MATCHERS = {}
LETTERS = 'abcdefgh'


def shapes(tier):
    n = 3 if tier == 'quick' else 4
    out = []
    for la in range(n + 1):
        for lb in range(n + 1):
            out.append({'mode': 'rel', 'la': la, 'lb': lb})
    nt = 3
    for la in range(nt + 1):
        for lb in range((nt if tier == 'quick' else 4) + 1):
            for layout in (0, 1):
                out.append({'mode': 'text', 'la': la, 'lb': lb, 'layout': layout})
    # words mode: words of 1-2 letters over a small cased alphabet (ASCII: a A b, Latin-1: ä Ä ö), so that one word can
    # be a proper prefix / suffix of another and case folding goes beyond ASCII
    lays = [([1], [2]), ([2], [2]), ([1, 1], [1, 2]), ([1, 2], [1, 1]), ([2, 1], [1, 2]), ([1, 1], [2])]
    if tier != 'quick':
        lays += [([1, 2], [2, 1]), ([2, 2], [2, 2]), ([1, 1, 1], [1, 2]), ([1, 2], [1, 1, 2])]
    for wa, wb in lays:
        for alpha in ('ascii', 'latin1'):
            out.append({'mode': 'words', 'wa': wa, 'wb': wb, 'la': len(wa), 'lb': len(wb), 'alpha': alpha})
    for wa, wb in [([1], [1]), ([1, 1], [1])] + ([([1, 1], [1, 1])] if tier != 'quick' else []):
        out.append({'mode': 'words', 'wa': wa, 'wb': wb, 'la': len(wa), 'lb': len(wb), 'alpha': 'kelvin'})
    # free mode: texts of fully symbolic characters (any scalar value of the width class, so also every kind of
    # whitespace): words are found by an independent split on ASCII whitespace
    fw = [([1, 1, 1], [1, 1, 1]), ([1, 2, 1], [1, 1, 1]), ([1, 1, 1], [1, 3, 1]), ([1, 1], [1]), ([1], [1, 2]),
          ([1, 1, 1, 1], [1, 1, 1]), ([1, 2, 1, 1], [1, 1, 2, 1]), ([3, 1, 3], [1, 3, 1])]
    if tier != 'quick':
        fw += [([1, 1, 1, 1, 1], [1, 1, 1, 1]), ([1, 2, 1, 1, 1], [1, 1, 3, 1, 1]), ([1, 1, 1, 1, 1], [1, 1, 1, 1, 1])]
    for wa, wb in fw:
        out.append({'mode': 'free', 'wa': wa, 'wb': wb, 'la': len(wa), 'lb': len(wb)})
    out.sort(key=lambda s: -(s['la'] * s['lb']))
    return out


ASCII_WS = (0x09, 0x0A, 0x0C, 0x0D, 0x20)


def split_ascii_ws(ctx, chars):
    """reference split of a char list on ASCII whitespace (decided per path): list of words (char lists)"""
    words, cur = [], []
    for c in chars:
        isws = ctx.branch(ctx.m.disj([ctx.m.eq(c, Int(w, 'char')) for w in ASCII_WS])) if c.sym() else (c.v in ASCII_WS)
        if isws:
            if cur:
                words.append(cur)
            cur = []
        else:
            cur.append(c)
    if cur:
        words.append(cur)
    return words


def run_free(ctx, shape, opts):
    m = ctx.m
    ca = ctx.in_string('a_words', shape['wa']).chars()
    cb = ctx.in_string('b_words', shape['wb']).chars()
    wa, wb = split_ascii_ws(ctx, ca), split_ascii_ws(ctx, cb)
    a, b = mkstr(ctx, ca), mkstr(ctx, cb)
    res = m.call('match_words', a, b, False)
    ctx.out('match', res)
    la, lb = len(wa), len(wb)

    def rel(i, j):
        return len(wa[i]) == len(wb[j]) and ctx.branch(m.conj([m.eq(x, y) for x, y in zip(wa[i], wb[j])]))
    pairs0 = check_matching(ctx, res, la, lb, rel, 'match_words')
    ew = m.call('edited_words', a, b)
    ctx.out('edited', Tup([VecObj(sorted_set(ctx, ew.fields[0])), VecObj(sorted_set(ctx, ew.fields[1]))]))
    ea = sorted(x.v for x in sorted_set(ctx, ew.fields[0]))
    eb = sorted(x.v for x in sorted_set(ctx, ew.fields[1]))
    ctx.require(ea == [i for i in range(la) if i not in [p[0] for p in pairs0]], 'edited_words: a-indices == complement')
    ctx.require(eb == [j for j in range(lb) if j not in [p[1] for p in pairs0]], 'edited_words: b-indices == complement')
    ctx.sample = {'mode': 'free', 'wa': shape['wa'], 'wb': shape['wb'], 'words': [la, lb], 'pairs': pairs0}


ALPHA = {'ascii': (1, [0x61, 0x41, 0x62]), 'latin1': (2, [0xE4, 0xC4, 0xF6])}
# alphabet `kelvin`: case folding that changes the UTF-8 length.  The a side is the Kelvin sign U+212A (3 bytes, lowercase k),
# the b side ranges over {k, K, j}; a singleton alphabet is made concrete after the assumption (the case model needs it)
ALPHA2 = {'kelvin': ((3, [0x212A]), (1, [0x6B, 0x4B, 0x6A]))}


def run_words(ctx, shape, opts):
    m = ctx.m
    sides = ALPHA2[shape['alpha']] if shape['alpha'] in ALPHA2 else (ALPHA[shape['alpha']], ALPHA[shape['alpha']])

    def words(name, lens):
        w, alpha = sides[0 if name == 'a_words' else 1]
        chars = ctx.in_string(name, [w] * sum(lens)).chars()
        for k, c in enumerate(chars):
            if not isinstance(c.v, int):
                ctx.assume(z3.Or([c.v == v for v in alpha]))
                if len(alpha) == 1:
                    chars[k] = Int(alpha[0], 'char', w)
        out, k = [], 0
        for n in lens:
            out.append(chars[k:k + n])
            k += n
        return out
    wa = words('a_words', shape['wa'])
    wb = words('b_words', shape['wb'])
    la, lb = len(wa), len(wb)
    ic = ctx.branch(ctx.in_bool('ignore_case'))
    a = mkstr(ctx, layout_text(wa, 0))
    b = mkstr(ctx, layout_text(wb, 0))
    res = m.call('match_words', a, b, ic)
    ctx.out('match', res)
    low = {0x41: 0x61, 0xC4: 0xE4, 0x4B: 0x6B, 0x212A: 0x6B}

    def lower(c):
        if isinstance(c.v, int):
            return Int(low.get(c.v, c.v), 'char')
        t = c.v
        for u, l in low.items():
            t = z3.If(c.v == u, z3.BitVecVal(l, 32), t)
        return Int(t, 'char')

    def rel(i, j):
        x, y = wa[i], wb[j]
        if len(x) != len(y):
            return False
        if ic:
            return ctx.branch(m.conj([m.eq(lower(p), lower(q)) for p, q in zip(x, y)]))
        return ctx.branch(m.conj([m.eq(p, q) for p, q in zip(x, y)]))
    check_matching(ctx, res, la, lb, rel, 'match_words')
    res0 = m.call('match_words', a, b, False)
    pairs0 = [(t.fields[0].v, t.fields[1].v) for t in m.peel(res0.fields[0]).items]
    ew = m.call('edited_words', a, b)
    ctx.out('edited', Tup([VecObj(sorted_set(ctx, ew.fields[0])), VecObj(sorted_set(ctx, ew.fields[1]))]))
    ea = sorted(x.v for x in sorted_set(ctx, ew.fields[0]))
    eb = sorted(x.v for x in sorted_set(ctx, ew.fields[1]))
    ctx.require(ea == [i for i in range(la) if i not in [p[0] for p in pairs0]], 'edited_words: a-indices == complement')
    ctx.require(eb == [j for j in range(lb) if j not in [p[1] for p in pairs0]], 'edited_words: b-indices == complement')
    ctx.sample = {'mode': 'words', 'wa': shape['wa'], 'wb': shape['wb'], 'ignore_case': ic, 'pairs': pairs0}


def lcs_len(la, lb, rel):
    d = [[0] * (lb + 1) for _ in range(la + 1)]
    for i in range(1, la + 1):
        for j in range(1, lb + 1):
            d[i][j] = max(d[i - 1][j], d[i][j - 1], d[i - 1][j - 1] + (1 if rel(i - 1, j - 1) else 0))
    return d[la][lb]


def layout_text(words, layout):
    """words: list of char lists.  layout 0: single spaces; 1: leading tab, double separators, trailing newline."""
    out = []
    if layout == 1:
        out.append(Int(9, 'char'))
    for k, w in enumerate(words):
        if k:
            out.append(SPACE)
            if layout == 1:
                out.append(Int(10, 'char'))
        out.extend(w)
    if layout == 1:
        out.append(Int(13, 'char'))
    return out


def mkstr(ctx, chars):
    buf = StrBuf(chars, [ctx.char_width(c) for c in chars])
    return StrRef(buf, 0, buf.byte_len())


def check_matching(ctx, res, la, lb, rel, what):
    m = ctx.m
    pairs = [(t.fields[0].v, t.fields[1].v) for t in m.peel(res.fields[0]).items]
    na, nb = res.fields[1].v, res.fields[2].v
    ctx.require(na == la and nb == lb, what + ': reported word counts')
    ctx.require(all(isinstance(i, int) and isinstance(j, int) and i < la and j < lb for i, j in pairs),
                what + ': indices inside the word lists')
    ctx.require(all(pairs[k][0] < pairs[k + 1][0] and pairs[k][1] < pairs[k + 1][1] for k in range(len(pairs) - 1)),
                what + ': pairs strictly increasing in both coordinates')
    for i, j in pairs:
        ctx.require(rel(i, j), what + ': matched words are related')
    ctx.require(len(pairs) == lcs_len(la, lb, rel), what + ': number of pairs == LCS length')
    return pairs


def run(ctx, shape, opts):
    m = ctx.m
    la, lb = shape['la'], shape['lb']
    if shape['mode'] == 'rel':
        a = m.str_lit(' '.join(LETTERS[i] for i in range(la)))
        b = m.str_lit(' '.join(LETTERS[j].upper() for j in range(lb)))
        M = [[ctx.in_bool('m_%d_%d' % (i, j)) for j in range(lb)] for i in range(la)]
        calls = []

        def matchfn(c, x, y):
            i = LETTERS.index(chr(x.chars()[0].v))
            j = LETTERS.upper().index(chr(y.chars()[0].v))
            calls.append((i, j))
            return M[i][j]
        res = m.call('match_words_with', a, b, PyFn(matchfn, 'symbolic-relation'))
        ctx.out('match', res)
        check_matching(ctx, res, la, lb, lambda i, j: ctx.branch(M[i][j]), 'match_words_with')
        ctx.sample = {'mode': 'rel', 'la': la, 'lb': lb, 'relation_queries': len(calls)}
        return
    if shape['mode'] == 'words':
        return run_words(ctx, shape, opts)
    if shape['mode'] == 'free':
        return run_free(ctx, shape, opts)
    # text mode: real closures of match_words
    wa = ctx.in_string('a_words', [1] * la).chars()
    wb = ctx.in_string('b_words', [1] * lb).chars()
    for c in wa + wb:
        if not isinstance(c.v, int):
            ctx.assume(z3.Or(z3.And(z3.UGE(c.v, 0x41), z3.ULE(c.v, 0x5A)), z3.And(z3.UGE(c.v, 0x61), z3.ULE(c.v, 0x7A))))
    ic = ctx.branch(ctx.in_bool('ignore_case'))
    a = mkstr(ctx, layout_text([[c] for c in wa], shape['layout']))
    b = mkstr(ctx, layout_text([[c] for c in wb], 0))
    res = m.call('match_words', a, b, ic)
    ctx.out('match', res)

    def lower(c):
        if isinstance(c.v, int):
            return Int(c.v + 32 if 0x41 <= c.v <= 0x5A else c.v, 'char')
        return Int(z3.If(z3.ULE(c.v, 0x5A), c.v + 32, c.v), 'char')

    def rel(i, j):
        if ic:
            return ctx.branch(m.eq(lower(wa[i]), lower(wb[j])))
        return ctx.branch(m.eq(wa[i], wb[j]))
    check_matching(ctx, res, la, lb, rel, 'match_words')
    # edited_words: complement of the (case-sensitive) matching
    res0 = m.call('match_words', a, b, False)
    pairs0 = [(t.fields[0].v, t.fields[1].v) for t in m.peel(res0.fields[0]).items]
    ew = m.call('edited_words', a, b)
    ctx.out('edited', Tup([VecObj(sorted_set(ctx, ew.fields[0])), VecObj(sorted_set(ctx, ew.fields[1]))]))
    ea = sorted(x.v for x in sorted_set(ctx, ew.fields[0]))
    eb = sorted(x.v for x in sorted_set(ctx, ew.fields[1]))
    ctx.require(ea == [i for i in range(la) if i not in [p[0] for p in pairs0]], 'edited_words: a-indices == complement')
    ctx.require(eb == [j for j in range(lb) if j not in [p[1] for p in pairs0]], 'edited_words: b-indices == complement')
    ctx.sample = {'mode': 'text', 'la': la, 'lb': lb, 'ignore_case': ic, 'layout': shape['layout'], 'pairs': pairs0}


def sorted_set(ctx, mp):
    mp = ctx.m.peel(mp)
    ks = [e[0] for e in mp.entries]
    if not all(isinstance(k.v, int) for k in ks):
        raise Unsupported('symbolic set element')
    return sorted(ks, key=lambda k: k.v)


# ------------------------------------------------------------------ native side

def _split_words(flat, lens):
    out, k = [], 0
    for n in lens:
        out.append(list(flat[k:k + n]))
        k += n
    return out


def _texts(shape, inputs):
    la, lb = shape['la'], shape['lb']
    if shape['mode'] == 'free':
        return list(inputs['a_words']), list(inputs['b_words'])
    if shape['mode'] == 'words':
        def join(ws):
            out = []
            for k, w in enumerate(ws):
                if k:
                    out.append(0x20)
                out.extend(w)
            return out
        return join(_split_words(inputs['a_words'], shape['wa'])), join(_split_words(inputs['b_words'], shape['wb']))

    def lay(words, layout):
        out = []
        if layout == 1:
            out.append(9)
        for k, w in enumerate(words):
            if k:
                out.append(0x20)
                if layout == 1:
                    out.append(10)
            out.append(w)
        if layout == 1:
            out.append(13)
        return out
    return lay(inputs['a_words'], shape['layout']), lay(inputs['b_words'], 0)


def native_outputs(native, shape, inputs):
    out = {}
    if shape['mode'] == 'rel':
        la, lb = shape['la'], shape['lb']
        M = [[bool(inputs['m_%d_%d' % (i, j)]) for j in range(lb)] for i in range(la)]
        a = [ord(c) for c in ' '.join(LETTERS[i] for i in range(la))]
        b = [ord(c) for c in ' '.join(LETTERS[j].upper() for j in range(lb))]
        k, v = native_ok(native.call('match_words_rel', a=a, b=b, m=M))
        if k != 'ok':
            return {'panic': v}
        out['match'] = v
        return out
    a, b = _texts(shape, inputs)
    k, v = native_ok(native.call('match_words', a=a, b=b, ic=bool(inputs.get('ignore_case', False))))
    if k != 'ok':
        return {'panic': v}
    out['match'] = v
    k, v = native_ok(native.call('edited_words', a=a, b=b))
    if k != 'ok':
        return {'panic': v}
    out['edited'] = v
    return out


def _check_matching_py(res, la, lb, rel, what):
    failed = []
    pairs, na, nb = [tuple(p) for p in res[0]], res[1], res[2]
    if (na, nb) != (la, lb):
        failed.append(what + ': reported word counts')
    if not all(i < la and j < lb for i, j in pairs):
        failed.append(what + ': indices inside the word lists')
        return failed
    if not all(pairs[k][0] < pairs[k + 1][0] and pairs[k][1] < pairs[k + 1][1] for k in range(len(pairs) - 1)):
        failed.append(what + ': pairs strictly increasing in both coordinates')
    if not all(rel(i, j) for i, j in pairs):
        failed.append(what + ': matched words are related')
    if len(pairs) != lcs_len(la, lb, rel):
        failed.append(what + ': number of pairs == LCS length')
    return failed


def concrete_check(native, inputs, shape):
    o = native_outputs(native, shape, inputs)
    if 'panic' in o:
        return ['no panic']
    la, lb = shape['la'], shape['lb']
    if shape['mode'] == 'rel':
        M = [[bool(inputs['m_%d_%d' % (i, j)]) for j in range(lb)] for i in range(la)]
        return _check_matching_py(o['match'], la, lb, lambda i, j: M[i][j], 'match_words_with')
    wa, wb = inputs['a_words'], inputs['b_words']
    ic = bool(inputs.get('ignore_case', False))
    if shape['mode'] == 'free':
        def sp(cps):
            ws, cur = [], []
            for c in cps:
                if c in ASCII_WS:
                    if cur:
                        ws.append(cur)
                    cur = []
                else:
                    cur.append(c)
            return ws + ([cur] if cur else [])
        wa, wb = sp(wa), sp(wb)
        la, lb = len(wa), len(wb)
        low = lambda w: w
    elif shape['mode'] == 'words':
        wa, wb = _split_words(wa, shape['wa']), _split_words(wb, shape['wb'])
        low = lambda w: [ord(chr(c).lower()) for c in w]
    else:
        low = lambda c: c + 32 if 0x41 <= c <= 0x5A else c
    rel = (lambda i, j: low(wa[i]) == low(wb[j])) if ic else (lambda i, j: wa[i] == wb[j])
    failed = _check_matching_py(o['match'], la, lb, rel, 'match_words')
    a, b = _texts(shape, inputs)
    k, r0 = native_ok(native.call('match_words', a=a, b=b, ic=False))
    p0 = [tuple(p) for p in r0[0]]
    if sorted(o['edited'][0]) != [i for i in range(la) if i not in [p[0] for p in p0]]:
        failed.append('edited_words: a-indices == complement')
    if sorted(o['edited'][1]) != [j for j in range(lb) if j not in [p[1] for p in p0]]:
        failed.append('edited_words: b-indices == complement')
    return failed


def _text_case(a, b, ic, layout=0):
    return ({'mode': 'text', 'la': len(a), 'lb': len(b), 'layout': layout},
            {'a_words': [ord(c) for c in a], 'b_words': [ord(c) for c in b], 'ignore_case': ic})


def _words_case(a, b, ic, alpha):
    return ({'mode': 'words', 'wa': [len(w) for w in a], 'wb': [len(w) for w in b], 'la': len(a), 'lb': len(b), 'alpha': alpha},
            {'a_words': [ord(c) for w in a for c in w], 'b_words': [ord(c) for w in b for c in w], 'ignore_case': ic})


FIXED_CASES = [_words_case(['\u212a'], ['k'], True, 'kelvin'), _words_case(['\u212a', '\u212a'], ['K'], True, 'kelvin'),
               _words_case(['a', 'b'], ['a', 'bA'], False, 'ascii'), _words_case(['Ää'], ['ää'], True, 'latin1'),
               _words_case(['ä', 'Ä'], ['Ä', 'äö'], True, 'latin1'), _text_case('abc', 'abc', False), _text_case('abc', 'Abd', True), _text_case('aba', 'bab', False, 1),
               _text_case('', 'ab', False), _text_case('ab', '', True, 1)]


def random_case(rng):
    if rng.random() < 0.5:
        la, lb = rng.randint(0, 4), rng.randint(0, 4)
        inp = {}
        for i in range(la):
            for j in range(lb):
                inp['m_%d_%d' % (i, j)] = rng.random() < 0.4
        return ({'mode': 'rel', 'la': la, 'lb': lb}, inp)
    if rng.random() < 0.4:
        alpha = rng.choice(['ascii', 'latin1'])
        pool = 'aAb' if alpha == 'ascii' else 'äÄö'
        mk = lambda: [''.join(rng.choice(pool) for _ in range(rng.randint(1, 2))) for _ in range(rng.randint(1, 3))]
        return _words_case(mk(), mk(), rng.random() < 0.5, alpha)
    pool = 'abAB'
    a = ''.join(rng.choice(pool) for _ in range(rng.randint(0, 4)))
    b = ''.join(rng.choice(pool) for _ in range(rng.randint(0, 4)))
    return _text_case(a, b, rng.random() < 0.5, rng.randint(0, 1))
