"""C12: edit::distance / prefix_distance / operations / distances against the reference OSA / Levenshtein DP."""
import math
import z3
from values import *
from harnesses.hlib import *
from models_core import char_is_whitespace

PROPERTY = 'C12'
VALIDATE_MODELS = ['ws', 'utf8', 'graphemes']
VALIDATION_CASES = {'quick': 200, 'thorough': 800}
TIME_BUDGET = {'quick': 900, 'thorough': 3300}
BOUNDS = {
    'quick': 'one long text (300 and 65540 letters + a symbolic character: lengths across 2^8 and 2^16) against a text of 0-1 symbolic characters; |a|, |b| <= 3 characters; characters fully symbolic inside their UTF-8 width class (equality pattern and '
             'whitespace-ness decided by the solver): all width vectors over {1,3} for |a|,|b| <= 2, the vectors 1.. and '
             '1,3,1../3,1,3.. when one side has 3; all 8 flag combinations; grapheme mode: |a|+|b| <= 3 code points over '
             'Sigma_g (widths 1-3, two flag combinations); distances(): 0-2 pairs',
    'thorough': 'same with |a|, |b| <= 4, all four widths for <= 2, grapheme mode |a|+|b| <= 4 code points, all flags',
}
OUTSIDE = ['longer strings', 'grapheme mode outside Sigma_g']
ASSUMPTIONS = ['reference metric: Levenshtein (with_swap=false) / optimal string alignment (with_swap=true); with '
               'spaces_insert_delete_only a substitution or transposition is allowed only when no involved character is '
               'whitespace', 'std models listed under coverage.std_models_used']


def _kf_norm_gt1(shape, inputs, failed):
    return bool(inputs.get('normalized')) and bool(inputs.get('spaces_insert_delete_only')) and \
        set(failed) <= {'normalised distance lies in [0, 1]'}


KNOWN_MATCHERS = {'c12_norm_exceeds_one_spaces': _kf_norm_gt1}


def shapes(tier):
    out = []
    flags = [(sw, sp, nm) for sw in (False, True) for sp in (False, True) for nm in (False, True)]

    def add(g, wa, wb):
        for sw, sp, nm in flags:
            out.append({'g': g, 'wa': wa, 'wb': wb, 'swap': sw, 'spaces': sp, 'norm': nm})

    big = 3 if tier == 'quick' else 4
    for la in range(big + 1):
        for lb in range(big + 1):
            if la <= 2 and lb <= 2:
                for wa in width_shapes(la, widths=(1, 3), min_n=la):
                    for wb in width_shapes(lb, widths=(1, 3), min_n=lb):
                        add(False, wa, wb)
            else:
                add(False, [1] * la, [1] * lb)
                add(False, ([1, 3, 1, 3])[:la], ([3, 1, 3, 1])[:lb])
    if tier != 'quick':
        for wa in width_shapes(2):
            for wb in width_shapes(2):
                if any(w in (2, 4) for w in wa + wb):
                    add(False, wa, wb)
    # grapheme mode: total number of code points bounded (cluster classes multiply the path count)
    gtot, gw = (3, (1, 2, 3)) if tier == 'quick' else (4, (1, 2, 3, 4))
    gflags = [(True, True, False), (False, False, True)] if tier == 'quick' else flags
    for wa in width_shapes(gtot, widths=gw):
        for wb in width_shapes(gtot - len(wa), widths=gw):
            for sw, sp, nm in gflags:
                out.append({'g': True, 'wa': wa, 'wb': wb, 'swap': sw, 'spaces': sp, 'norm': nm})
    out.append({'g': False, 'wa': [1], 'wb': [1], 'multi': True})
    # one long text against a text of 0-1 symbolic characters: lengths that cross 2^8 and 2^16 (the cost matrix has one
    # long border); concrete filler, a symbolic last character
    for n in ((300, 65540) if tier == 'quick' else (255, 256, 300, 65535, 65536, 65540, 70000)):
        for lb in ((0,) if n > 1000 else (0, 1)):
            out.append({'g': False, 'wa': [1], 'wb': [1] * lb, 'long': n, 'swap': True, 'spaces': False, 'norm': n % 2 == 0})
    tiny = [s for s in out if len(s['wa']) + len(s['wb']) <= 1]
    rest = [s for s in out if len(s['wa']) + len(s['wb']) > 1]
    rest.sort(key=lambda s: -(len(s['wa']) * len(s['wb'])))
    return tiny + rest


def ref_dp(eq, wsa, wsb, la, lb, swap, spaces):
    """Reference DP over units; eq(i, j) / wsa(i) / wsb(j) are callbacks returning python bools."""
    d = [[0] * (lb + 1) for _ in range(la + 1)]
    for i in range(la + 1):
        d[i][0] = i
    for j in range(lb + 1):
        d[0][j] = j
    for i in range(1, la + 1):
        for j in range(1, lb + 1):
            best = min(d[i - 1][j] + 1, d[i][j - 1] + 1)
            if eq(i - 1, j - 1, 'ab'):
                best = min(best, d[i - 1][j - 1])
            elif not spaces or (not wsa(i - 1) and not wsb(j - 1)):
                best = min(best, d[i - 1][j - 1] + 1)
            if swap and i > 1 and j > 1 and eq(i - 1, j - 2, 'ab') and eq(i - 2, j - 1, 'ab'):
                if not spaces or (not wsa(i - 1) and not wsa(i - 2)):
                    best = min(best, d[i - 2][j - 2] + 1)
            d[i][j] = best
    return d


def unit_strs(ctx, s, g):
    chars = s.chars()
    return chars, units_of(ctx, chars, g)


def setup_machine(machine, shape, opts):
    if shape is not None and shape.get('long'):
        machine.step_budget = max(machine.step_budget, 80000000)      # one long border of the cost matrix


def long_text(shape, tail):
    return [0x61] * shape['long'] + list(tail)


def run_long(ctx, shape, opts):
    """a = filler of `long` letters a + one symbolic character, b = 0-1 symbolic characters"""
    m = ctx.m
    ta = ctx.in_string('a', shape['wa']).chars()
    b = ctx.in_string('b', shape['wb'])
    cb = b.chars()
    swap, spaces, norm = shape['swap'], shape['spaces'], shape['norm']
    ctx.inputs.update({'with_swap': swap, 'spaces_insert_delete_only': spaces, 'normalized': norm})
    chars = [Int(0x61, 'char')] * shape['long'] + list(ta)
    buf = StrBuf(chars, [ctx.char_width(c) for c in chars])
    a = StrRef(buf, 0, buf.byte_len())
    N = len(chars)
    # reference: all but at most one character of a are deleted; the single character of b is matched if it occurs in a
    if cb:
        hit = ctx.branch(m.disj([m.eq(cb[0], Int(0x61, 'char')), m.eq(cb[0], ta[0])]))
        want = N - 1 if hit else N
    else:
        want = N
    dist = m.call('distance', a, b, False, swap, spaces, norm)
    ctx.out('distance', dist)
    exp = (want / N) if norm else float(want)
    ctx.require(isinstance(dist.v, float) and dist.v == exp, 'distance == reference DP')
    ops = m.call('edit::operations', a, b, False, swap, spaces)
    nops = len(m.peel(ops).items)
    ctx.out('n_operations', nops)
    ctx.require(nops == want, 'operations: script length == unnormalised distance')
    ctx.sample = {'long': shape['long'], 'lb': len(cb), 'distance': want}


def run(ctx, shape, opts):
    if shape.get('long'):
        return run_long(ctx, shape, opts)
    m = ctx.m
    g = shape['g']
    a = ctx.in_string('a', shape['wa'])
    b = ctx.in_string('b', shape['wb'])
    if 'swap' in shape and ctx.concrete is None:
        swap, spaces, norm = shape['swap'], shape['spaces'], shape['norm']
        ctx.inputs.update({'with_swap': swap, 'spaces_insert_delete_only': spaces, 'normalized': norm})
    else:
        swap = ctx.in_bool('with_swap')
        spaces = ctx.in_bool('spaces_insert_delete_only')
        norm = ctx.in_bool('normalized')
    ca, cb = a.chars(), b.chars()
    if g:
        assume_sigma_g(ctx, ca + cb)
    ua, ub = units_of(ctx, ca, g), units_of(ctx, cb, g)
    la, lb = len(ua), len(ub)
    if shape.get('multi'):
        return run_multi(ctx, a, b, g, swap, spaces, norm)
    # concretise the flags (fork) so that outputs are concrete
    swap = ctx.branch(swap)
    spaces = ctx.branch(spaces)
    norm = ctx.branch(norm)
    dist = m.call('distance', a, b, g, swap, spaces, norm)
    pdist = m.call('prefix_distance', a, b, g, swap, spaces, norm)
    ops = m.call('edit::operations', a, b, g, swap, spaces)
    ctx.out('distance', dist)
    ctx.out('prefix_distance', pdist)
    ctx.out('operations', ops)

    def eq(i, j, _):
        x = ca[ua[i][0]:ua[i][1]]
        y = cb[ub[j][0]:ub[j][1]]
        return ctx.branch(chars_equal(ctx, x, y))

    def ws_unit(chars, u):
        return ctx.branch(m.conj([char_is_whitespace(c) for c in chars[u[0]:u[1]]]))

    d = ref_dp(eq, lambda i: ws_unit(ca, ua[i]), lambda j: ws_unit(cb, ub[j]), la, lb, swap, spaces)
    ref = d[la][lb]
    ctx.require(isinstance(dist, FP) and isinstance(dist.v, float), 'distance is a concrete float on every path')
    if norm:
        denom = max(la, lb)
        exp = (ref / denom) if denom else 0.0
        ctx.require(dist.v == exp, 'normalised distance == reference / longer length (0 for two empty strings)')
        in_kf = spaces and ref > denom and 'c12_norm_exceeds_one_spaces' in opts.get('known_active', ())
        if not in_kf:
            # (KF-C12-1: with spaces_insert_delete_only the reference metric itself can exceed the longer length)
            ctx.require(0.0 <= dist.v <= 1.0, 'normalised distance lies in [0, 1]')
        pexp = (min(d[la]) / la) if la else 0.0
        ctx.require(pdist.v == pexp, 'normalised prefix_distance == min over prefixes / len(a) (0 for empty a)')
    else:
        ctx.require(dist.v == float(ref), 'distance == reference DP')
        ctx.require(pdist.v == float(min(d[la])), 'prefix_distance == min over prefixes of b')
    # ---- the edit script
    items = m.peel(ops).items
    script = []
    for t in items:
        script.append((t.fields[0].variant, t.fields[1].v, t.fields[2].v))
    ctx.require(all(isinstance(i, int) and isinstance(j, int) for _, i, j in script), 'script positions are concrete')
    ctx.require(len(script) == ref, 'script length == unnormalised distance')
    ctx.require(all(script[k][1:] <= script[k + 1][1:] for k in range(len(script) - 1)), 'script is sorted by position')
    out = []
    pi = 0
    okshape = True
    for (name, i, j) in script:
        if i < pi or i > la or j > lb:
            okshape = False
            break
        for k in range(pi, i):
            out.append(ca[ua[k][0]:ua[k][1]])
        pi = i
        if name == 'Insert':
            if j >= lb:
                okshape = False
                break
            out.append(cb[ub[j][0]:ub[j][1]])
        elif name == 'Delete':
            if i >= la:
                okshape = False
                break
            pi = i + 1
        elif name == 'Replace':
            if i >= la or j >= lb:
                okshape = False
                break
            out.append(cb[ub[j][0]:ub[j][1]])
            pi = i + 1
        elif name == 'Swap':
            if i + 1 >= la:
                okshape = False
                break
            out.append(ca[ua[i + 1][0]:ua[i + 1][1]])
            out.append(ca[ua[i][0]:ua[i][1]])
            pi = i + 2
    ctx.require(okshape, 'script positions are inside the strings and non-overlapping')
    for k in range(pi, la):
        out.append(ca[ua[k][0]:ua[k][1]])
    flat = [c for u in out for c in u]
    ctx.require(chars_equal(ctx, flat, cb), 'applying the script to a yields b')
    ctx.sample = {'graphemes': g, 'wa': shape['wa'], 'wb': shape['wb'], 'with_swap': swap, 'spaces': spaces,
                  'normalized': norm, 'reference_distance': ref}


def run_multi(ctx, a, b, g, swap, spaces, norm):
    """distances(): element-wise distance, error on length mismatch."""
    m = ctx.m
    swap, spaces, norm = ctx.branch(swap), ctx.branch(spaces), ctx.branch(norm)
    na = ctx.in_choice('na', 3)
    nb = ctx.in_choice('nb', 3)
    la = [a, b][:na]
    lb = [b, a][:nb]
    r = m.call('distances', SliceRef(list(la), 0, len(la)), SliceRef(list(lb), 0, len(lb)), g, swap, spaces, norm)
    ctx.out('distances', r)
    if na != nb:
        ctx.require(r.variant == 'Err', 'distances: length mismatch is an error')
    else:
        ctx.require(r.variant == 'Ok', 'distances succeeds for lists of equal length')
        vals = r.fields[0].items
        ctx.require(len(vals) == na, 'distances: one value per pair')
        for x, y, v in zip(la, lb, vals):
            dv = m.call('distance', x, y, g, swap, spaces, norm)
            ctx.require(m.fp_binop('Eq', v, dv) if not (isinstance(dv.v, float) and dv.v != dv.v) else False,
                        'distances[i] == distance(a[i], b[i])')
    ctx.sample = {'multi': True, 'na': na, 'nb': nb}


# ------------------------------------------------------------------ native side

def _gunits(native, cps, g):
    if not g:
        return [(i, i + 1) for i in range(len(cps))]
    out, k = [], 0
    for l in native.call('graphemes', s=cps)['ok']:
        out.append((k, k + l))
        k += l
    return out


def native_outputs(native, shape, inputs):
    g = shape['g']
    a, b = inputs['a'], inputs['b']
    if shape.get('long'):
        fl = dict(g=False, swap=bool(inputs['with_swap']), spaces=bool(inputs['spaces_insert_delete_only']), norm=bool(inputs['normalized']))
        la = long_text(shape, a)
        k, v = native_ok(native.call('edit_distance', a=la, b=b, _timeout=120.0, **fl))
        if k != 'ok':
            return {'panic': v}
        k2, v2 = native_ok(native.call('edit_operations', a=la, b=b, _timeout=120.0, **fl))
        if k2 != 'ok':
            return {'panic': v2}
        return {'distance': v, 'n_operations': len(v2)}
    fl = dict(g=g, swap=bool(inputs['with_swap']), spaces=bool(inputs['spaces_insert_delete_only']),
              norm=bool(inputs['normalized']))
    out = {}
    if shape.get('multi'):
        la = [a, b][:inputs['na']]
        lb = [b, a][:inputs['nb']]
        k, v = native_ok(native.call('edit_distances', a=la, b=lb, **fl))
        if k != 'ok':
            return {'panic': v}
        out['distances'] = v
        return out
    for name, op in (('distance', 'edit_distance'), ('prefix_distance', 'edit_prefix_distance'),
                     ('operations', 'edit_operations')):
        k, v = native_ok(native.call(op, a=a, b=b, **fl))
        if k != 'ok':
            return {'panic': v}
        out[name] = v
    return out


def concrete_check(native, inputs, shape):
    if shape.get('long'):
        o = native_outputs(native, shape, inputs)
        if 'panic' in o:
            return ['no panic']
        la, b = long_text(shape, inputs['a']), inputs['b']
        N = len(la)
        want = N - 1 if (b and b[0] in la) else N
        failed = []
        if o['distance'] != ((want / N) if inputs['normalized'] else float(want)):
            failed.append('distance == reference DP')
        if o['n_operations'] != want:
            failed.append('operations: script length == unnormalised distance')
        return failed
    g = shape['g']
    a, b = inputs['a'], inputs['b']
    swap, spaces, norm = bool(inputs['with_swap']), bool(inputs['spaces_insert_delete_only']), bool(inputs['normalized'])
    o = native_outputs(native, shape, inputs)
    if 'panic' in o:
        return ['no panic']
    if shape.get('multi'):
        failed = []
        r = o['distances']
        if inputs['na'] != inputs['nb']:
            if 'Err' not in r:
                failed.append('distances: length mismatch is an error')
            return failed
        if 'Ok' not in r:
            return ['distances succeeds for lists of equal length']
        la = [a, b][:inputs['na']]
        lb = [b, a][:inputs['nb']]
        for x, y, v in zip(la, lb, r['Ok']):
            k, dv = native_ok(native.call('edit_distance', a=x, b=y, g=g, swap=swap, spaces=spaces, norm=norm))
            if dv is None or v is None or dv != v:
                failed.append('distances[i] == distance(a[i], b[i])')
        return failed
    ua, ub = _gunits(native, a, g), _gunits(native, b, g)
    A = [tuple(a[x:y]) for x, y in ua]
    B = [tuple(b[x:y]) for x, y in ub]
    la, lb = len(A), len(B)
    wsu = lambda u: all(py_is_ws(c) for c in u)
    d = ref_dp(lambda i, j, _: A[i] == B[j], lambda i: wsu(A[i]), lambda j: wsu(B[j]), la, lb, swap, spaces)
    ref = d[la][lb]
    failed = []
    dist, pdist = o['distance'], o['prefix_distance']
    if norm:
        denom = max(la, lb)
        exp = (ref / denom) if denom else 0.0
        if dist is None or dist != exp:
            failed.append('normalised distance == reference / longer length (0 for two empty strings)')
        if dist is None or not (0.0 <= dist <= 1.0):
            failed.append('normalised distance lies in [0, 1]')
        pexp = (min(d[la]) / la) if la else 0.0
        if pdist is None or pdist != pexp:
            failed.append('normalised prefix_distance == min over prefixes / len(a) (0 for empty a)')
    else:
        if dist != float(ref):
            failed.append('distance == reference DP')
        if pdist != float(min(d[la])):
            failed.append('prefix_distance == min over prefixes of b')
    script = [(x[0], x[1], x[2]) for x in o['operations']]
    if len(script) != ref:
        failed.append('script length == unnormalised distance')
    if not all(script[k][1:] <= script[k + 1][1:] for k in range(len(script) - 1)):
        failed.append('script is sorted by position')
    out, pi, okshape = [], 0, True
    for (name, i, j) in script:
        if i < pi or i > la or j > lb:
            okshape = False
            break
        out.extend(A[pi:i])
        pi = i
        if name == 'Insert':
            if j >= lb:
                okshape = False
                break
            out.append(B[j])
        elif name == 'Delete':
            if i >= la:
                okshape = False
                break
            pi = i + 1
        elif name == 'Replace':
            if i >= la or j >= lb:
                okshape = False
                break
            out.append(B[j])
            pi = i + 1
        elif name == 'Swap':
            if i + 1 >= la:
                okshape = False
                break
            out.extend([A[i + 1], A[i]])
            pi = i + 2
    if not okshape:
        failed.append('script positions are inside the strings and non-overlapping')
    else:
        out.extend(A[pi:])
        if [c for u in out for c in u] != list(b):
            failed.append('applying the script to a yields b')
    return failed


def _case(a, b, g=True, swap=True, spaces=False, norm=False):
    ca, cb = [ord(c) for c in a], [ord(c) for c in b]
    return ({'g': g, 'wa': widths_of(ca), 'wb': widths_of(cb)},
            {'a': ca, 'b': cb, 'with_swap': swap, 'spaces_insert_delete_only': spaces, 'normalized': norm})


# inputs of the repository's unit tests (src/edit.rs)
FIXED_CASES = [_case('this is a test', 'tihsi s a test'), _case('this is a test', 'tihsi s a test', swap=False),
               _case('this is a test', 'tihs is a test', spaces=True), _case('the cat', 'the dog', norm=True),
               _case('', '', norm=True), _case('ab', '', norm=True), _case('', 'ab', norm=True),
               _case('a b', 'ab ', spaces=True), _case('ab', 'ba'), _case('áb', 'bá', g=True)]


def random_case(rng):
    g = rng.random() < 0.3
    pool = [0x61, 0x62, 0x20, 0x20, 0x63, 0xE4, 0x4E2D, 0x09, 0x3000] + ([0x301, 0x200D, 0x2764] if g else [])
    a = [rng.choice(pool) for _ in range(rng.randint(0, 5))]
    b = [rng.choice(pool) for _ in range(rng.randint(0, 5))]
    if rng.random() < 0.3:
        b = list(a)
        if b and rng.random() < 0.7:
            i = rng.randrange(len(b))
            if i + 1 < len(b):
                b[i], b[i + 1] = b[i + 1], b[i]
    return ({'g': g, 'wa': widths_of(a), 'wb': widths_of(b)},
            {'a': a, 'b': b, 'with_swap': rng.random() < 0.6, 'spaces_insert_delete_only': rng.random() < 0.5,
             'normalized': rng.random() < 0.5})
