"""C02: BPE tokenization is lossless for every well-formed merge table."""
import z3
from values import *
from harnesses.hlib import *
from harnesses.tok_common import *
from harnesses import c03
from models_core import char_is_whitespace

PROPERTY = 'C02'
VALIDATE_MODELS = ['ws', 'utf8']
VALIDATION_CASES = {'quick': 80, 'thorough': 300}
TIME_BUDGET = {'quick': 900, 'thorough': 3300}
OPTS = c03.OPTS
BOUNDS = {
    'quick': 'the 22 well-formed merge tables (one with merges overlapping in U+0000) of harnesses/c03.py plus 16 generated tables sampled per VERIF_SEED, max_vocab_size None / truncating to the first merge / below '
             '256; texts of <= 4 symbolic characters over {a, b, c, d, space, tab, ä} (<= 3 with one unconstrained 3-byte '
             'character), special configs default and bos_eos (prefix / suffix); special tokens ignored on both sides',
    'thorough': 'texts of <= 5 symbolic characters',
}
OUTSIDE = c03.OUTSIDE
ASSUMPTIONS = ['trailing whitespace of the input is dropped by the word pattern (as the property states)', 'HashMap order fixed']
KNOWN_MATCHERS = {}
TABLES = c03.TABLES


def shapes(tier):
    n = 4 if tier == 'quick' else 5
    out = []
    for tb in TABLES:
        mx = c03.TABLE_ALPHA[tb][1] if tb in c03.TABLE_ALPHA else n
        for ln in range(0, mx + 1):
            for mv in (None, 'first', 'tiny'):
                if mv and (ln < 2 or not TABLES[tb]):
                    continue
                out.append({'table': tb, 'len': ln, 'special': 'default' if mv != 'first' else 'bos_eos', 'max_vocab': mv})
    import os
    for tb in c03.random_tables(int(os.environ.get('VERIF_SEED', '0') or 0), 16 if tier == 'quick' else 120):
        for ln in range(3, c03.TABLE_ALPHA[tb][1] + 1):
            for mv in (None, 'first'):
                out.append({'table': tb, 'len': ln, 'special': 'default' if mv != 'first' else 'bos_eos', 'max_vocab': mv})
    out.append({'table': 'chain', 'len': 3, 'special': 'bos_eos', 'wide': True, 'max_vocab': None})
    # texts that contain the spelling of a special token (ignored on both sides: it is ordinary text) next to
    # symbolic characters (letters / whitespace of the table's alphabet)
    P, E = [ord(c) for c in '<pad>'], [ord(c) for c in '<eos>']
    for tb in ('chain', 'none'):
        for sp in ('default', 'bos_eos'):
            for t in (['x', 'x'] + P, P + ['x', 'x'], ['x'] + E + ['x'], ['x', 'x'] + P[:4] + ['x']):
                out.append({'table': tb, 'len': len(t), 'special': sp, 'max_vocab': None, 'template': t})
    out.sort(key=lambda s: -s['len'])
    return out


def mv_value(shape):
    nt = len(SPECIALS[shape['special']][0])
    return {None: None, 'first': 256 + nt + 1, 'tiny': 100}[shape['max_vocab']]


def kept_table(shape):
    t = TABLES[shape['table']]
    if shape['max_vocab'] == 'first':
        return [(k, v) for k, v in t if v < 1]
    if shape['max_vocab'] == 'tiny':
        return []
    return t


def run(ctx, shape, opts):
    m = ctx.m
    tok = c03.bpe_tok(ctx, shape, mv_value(shape))
    text = c03.sym_text(ctx, shape)
    chars = text.chars()
    r = tcall(m, BPE_T, 'tokenize', tok, text, True)
    ctx.require(r.variant == 'Ok', 'tokenize succeeds')
    ids = r.fields[0].get('token_ids').items
    ctx.out('ids', VecObj(ids))
    nvocab = 256 + len(kept_table(shape)) + len(unique(SPECIALS[shape['special']][0]))
    vs = tcall(m, BPE_T, 'vocab_size', tok)
    ctx.require(m.eq(vs, Int(nvocab, 'usize')), 'vocab_size accounts for the max_vocab_size truncation')
    ctx.require(m.conj([m.int_binop('Lt', i, Int(nvocab, 'u32')) for i in ids]), 'every emitted id is a valid vocabulary id')
    d = tcall(m, BPE_T, 'de_tokenize', tok, SliceRef(list(ids), 0, len(ids)), True)
    ctx.out('decoded', d)
    ctx.require(d.variant == 'Ok', 'the concatenated token byte strings are valid UTF-8 (decoding succeeds)')
    dec = out_chars(ctx, d.fields[0])
    # expected: the input without its trailing whitespace
    ws = [ctx.branch(char_is_whitespace(c)) for c in chars]
    k = len(chars)
    while k > 0 and ws[k - 1]:
        k -= 1
    ctx.require(ctx.must(chars_equal(ctx, dec, chars[:k])),
                'decoding returns the input without its trailing whitespace (the input itself if it has none)')
    ctx.sample = {'table': shape['table'], 'len': shape['len'], 'max_vocab': shape['max_vocab'], 'tokens': len(ids)}


def native_outputs(native, shape, inputs):
    k, v = native_ok(native.call('tokenize_roundtrip', shape=c03._nshape(shape, mv_value(shape)), text=inputs['text'], ign=True, dec_ign=True))
    if k != 'ok':
        return {'panic': v}
    return {'ids': v['ids'], 'decoded': v['decoded']}


def concrete_check(native, inputs, shape):
    o = native_outputs(native, shape, inputs)
    if 'panic' in o:
        return ['no panic']
    text = inputs['text']
    failed = []
    nvocab = 256 + len(kept_table(shape)) + len(unique(SPECIALS[shape['special']][0]))
    if not all(i < nvocab for i in o['ids']):
        failed.append('every emitted id is a valid vocabulary id')
    if 'Ok' not in o['decoded']:
        return failed + ['the concatenated token byte strings are valid UTF-8 (decoding succeeds)']
    k = len(text)
    while k > 0 and py_is_ws(text[k - 1]):
        k -= 1
    if o['decoded']['Ok'] != text[:k]:
        failed.append('decoding returns the input without its trailing whitespace (the input itself if it has none)')
    return failed


def _case(table, text, special='default', mv=None):
    cps = [ord(c) for c in text]
    return ({'table': table, 'len': len(cps), 'special': special, 'max_vocab': mv}, {'text': cps})


FIXED_CASES = [_case('chain', 'abc '), _case('two_join', ' abcd ab', 'bos_eos', 'first'), _case('umlaut', 'aää\t'), _case('aaa', 'aaaaa', 'default', 'tiny')]


def random_case(rng):
    tb = rng.choice(list(TABLES))
    text = ''.join(rng.choice('abcd  \tä') for _ in range(rng.randint(0, 6)))
    mv = rng.choice([None, 'first', 'tiny']) if TABLES[tb] else None
    return _case(tb, text, 'bos_eos' if mv == 'first' else 'default', mv)
