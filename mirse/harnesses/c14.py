"""C14: whitespace corruption changes only whitespace and stays label-consistent."""
import z3
from values import *
from harnesses.hlib import *
from models_core import char_is_whitespace

PROPERTY = 'C14'
VALIDATE_MODELS = ['ws', 'utf8', 'graphemes']
VALIDATION_CASES = {'quick': 40, 'thorough': 100}
TIME_BUDGET = {'quick': 900, 'thorough': 3300}
BOUNDS = {
    'quick': 'clean texts with <= 3 non-whitespace characters (every UTF-8 width vector for <= 2 characters; for 3 characters all vectors over the widths 1 and 3 plus four with 2- and 4-byte characters), code points symbolic, and every placement of single spaces; '
             'probabilities: (insert = 0, delete symbolic in (0,1]), (insert symbolic, delete = 0), both symbolic, and values '
             'outside [0,1] clamped; seed symbolic; every random stream; grapheme mode over Sigma_g with <= 3 code points (3 code points: 6 of the 27 width vectors); '
             'called through preprocessing(WhitespaceCorruption(..)) on input and on target part; the whitespace-correction task '
             'function train_task(WhitespaceCorrection(g, tokenizer)) on (input, target) pairs with <= 3 content characters (widths 1 and 3; two width vectors for 3 characters), the grapheme flag of the tokenizer equal to and different from that of the task, '
             'every placement of single spaces on both sides, character tokenizer with prefix / suffix tokens and byte tokenizer with two prefix / suffix tokens',
    'thorough': 'task function with <= 4 content characters (widths 1, 2, 3); same with <= 4 non-whitespace characters (every width vector for <= 3 characters, the reduced width set for 4; grapheme mode: all 27 width vectors for 3 code points)',
}
OUTSIDE = ['longer texts', 'grapheme mode outside Sigma_g', 'whitespace-correction task with BPE / HuggingFace tokenizers']
ASSUMPTIONS = ['rand modelled as every stream; determinism = every draw comes from a generator seeded with info.seed',
               'whitespace-clean = every whitespace character is U+0020, none leading/trailing/adjacent']
VALIDATION_ALLOW_FORKS = True   # random draws are solver variables: the native output must be one of MIRSE's


def shapes(tier):
    k = 3 if tier == 'quick' else 4
    out = []
    import itertools
    def reduced(ws):
        # longest texts of a tier: every vector over the widths {1, 3} plus a few with 2- and 4-byte characters (the
        # corruption logic depends on the widths only through byte offsets)
        return all(w in (1, 3) for w in ws) or list(ws) in ([2, 2, 2], [4, 1, 2], [1, 4, 1], [2, 3, 4], [2, 2, 2, 2], [4, 1, 2, 3], [1, 4, 1, 4])
    for g in (False, True):
        for ws in width_shapes(k if not g else 3, widths=(1, 2, 3, 4) if not g else (1, 2, 3)):
            n = len(ws)
            if not g and n == k and not reduced(ws):
                continue
            if g and n == 3 and tier == 'quick' and list(ws) not in ([1, 1, 1], [1, 2, 1], [3, 2, 3], [1, 2, 2], [3, 3, 3], [2, 1, 2]):
                continue     # grapheme mode with 3 code points dominates the cost (cluster classes x draws): 6 of the 27 width vectors
            for gp in itertools.product((0, 1), repeat=max(0, n - 1)):
                for pm in ('ins0', 'del0', 'both'):
                    if g and pm != 'both' and n > 2:
                        continue
                    out.append({'g': g, 'widths': ws, 'gaps': list(gp), 'pmode': pm, 'part': 'Input' if sum(gp) % 2 == 0 else 'Target'})
    # the whitespace-correction task function (data/task.rs): labels for (corrupted input, clean target)
    tk = 3 if tier == 'quick' else 4
    for g in (False, True):
        for ws in width_shapes(tk, widths=(1, 3) if tier == 'quick' else (1, 2, 3), min_n=1):
            n = len(ws)
            if tier == 'quick' and n == tk and list(ws) not in ([1, 1, 1], [3, 1, 3]):
                continue
            for gp in itertools.product((0, 1), repeat=n - 1):
                for tg in itertools.product((0, 1), repeat=n - 1):
                    for sp, kind in (('bos_eos', 'char'), ('two_prefix', 'byte'), ('default', 'char')):
                        if (sp != 'bos_eos' and (g or n < tk)) or (kind == 'byte' and any(w != 1 for w in ws)):
                            continue
                        out.append({'g': g, 'widths': ws, 'gaps': list(gp), 'tgaps': list(tg), 'part': 'Task', 'special': sp,
                                    'kind': kind, 'pmode': 'task', 'tok_g': g})
                        if sp == 'bos_eos' and (n == 2 or (n > 2 and tier != 'quick')):
                            # the tokenizer's own grapheme flag is independent of the task's
                            out.append({'g': g, 'widths': ws, 'gaps': list(gp), 'tgaps': list(tg), 'part': 'Task', 'special': sp,
                                        'kind': kind, 'pmode': 'task', 'tok_g': not g})
    out.sort(key=lambda s: -len(s['widths']))
    return out


def setup_machine(machine, shape, opts):
    # the task shapes construct a tokenizer: its vocabulary maps are iterated in insertion order (as in C01 / C04 / C17;
    # the special-token order is compared as a set there), and the constructor needs a larger step budget
    if shape is not None and shape.get('part') == 'Task':
        machine.hash_order = 'insertion'
        machine.step_budget = max(machine.step_budget, 3000000)


def mk_enum(m, ty, variant, fields=()):
    vs = m.enum_variants_of(ty)
    return Enum(ty, variant, vs.index(variant), list(fields))


def mkstring(ctx, chars):
    return StringObj(StrBuf(chars, [ctx.char_width(c) for c in chars]))


def content_partition(units, is_space):
    out, k, idx = [], 0, []
    for sp in is_space:
        idx.append(None if sp else k)
        if not sp:
            k += 1
    for a, b in units:
        grp = [idx[i] for i in range(a, b) if idx[i] is not None]
        if grp:
            out.append(grp)
    return out


def _kf_cluster(shape, inputs, failed):
    return shape['g'] and set(failed) <= {'operations(corrupted, original) succeeds',
                                         'one label per character of the corrupted text',
                                         'repair(corrupted, operations(corrupted, original)) == original'} | set(TASK_CLAIMS[:3])


KNOWN_MATCHERS = {'c14_cluster_boundary_changes': _kf_cluster}


# the task's grapheme flag `g` decides the label units; the tokenizer's own flag `tok_g` only the token units
TASK_CLAIMS = ['the whitespace-correction task function succeeds on a corrupted input and its clean target',
               'task labels: -1 per prefix token, one label per character of the input, -1 per suffix token',
               'task labels equal the whitespace operations that turn the input into the target',
               'task token ids are those of the input text (one per label for a character tokenizer)']


def _interleave(content, gaps, space):
    out = []
    for i, c in enumerate(content):
        out.append(c)
        if i < len(content) - 1 and gaps[i]:
            out.append(space)
    return out


def _ref_labels(n_content, gaps, tgaps):
    """independent reference: one label per character of the input (0 keep, 1 insert a space before, 2 delete)"""
    out = []
    for k in range(n_content):
        out.append(1 if (k > 0 and tgaps[k - 1] and not gaps[k - 1]) else 0)
        if k < n_content - 1 and gaps[k]:
            out.append(0 if tgaps[k] else 2)
    return out


def run_task(ctx, shape, opts):
    from harnesses.tok_common import special_config, SPECIALS
    m = ctx.m
    g = shape['g']
    tok_g = shape.get('tok_g', g)
    content = ctx.in_string('content', shape['widths']).chars()
    if g or tok_g:
        assume_sigma_g(ctx, content)
    for c in content:
        ctx.assume(m.bnot(char_is_whitespace(c)))
    inp = _interleave(content, shape['gaps'], SPACE)
    tgt = _interleave(content, shape['tgaps'], SPACE)
    iunits, tunits = units_of(ctx, inp, g), units_of(ctx, tgt, g)
    if g:
        assume_no_mixed_units(ctx, inp, iunits)
        assume_no_mixed_units(ctx, tgt, tunits)
        pc = content_partition(iunits, [c is SPACE for c in inp])
        po = content_partition(tunits, [c is SPACE for c in tgt])
        cu = units_of(ctx, content, True)
        if (pc != po or len(pc) != len(cu)):
            if 'c14_cluster_boundary_changes' in opts.get('known_active', ()) and not opts.get('concrete'):
                raise Infeasible()
    if shape['kind'] == 'char':
        tk = mk_enum(m, 'TokenizeConfig', 'Character', [Struct('CharTokenizerConfig', [tok_g, m.new_string('<unk>')], ['use_graphemes', 'unk_token'])])
    else:
        tk = mk_enum(m, 'TokenizeConfig', 'Byte', [Struct('ByteTokenizerConfig', [tok_g, NONE(), mk_enum(m, 'ByteGroups', 'Bytes'),
                                                                                mk_enum(m, 'GroupAggregation', 'Mean')],
                                                          ['use_graphemes', 'pad_to_multiple_of', 'groups', 'aggregation'])])
    cfg = Struct('TokenizerConfig', [tk, special_config(m, shape['special'])], ['tokenize', 'special'])
    f = m.call('train_task', mk_enum(m, 'TrainTaskConfig', 'WhitespaceCorrection', [g, cfg]))
    item = Struct('TrainData', [mkstring(ctx, inp), mkstring(ctx, tgt)], ['input', 'target'])
    r = m.call_value(f, [ref_to(item)])
    ctx.require(r.variant == 'Ok', TASK_CLAIMS[0])
    ti = m.peel(r.fields[0])
    ctx.require(ti.variant == 'SequenceClassification', TASK_CLAIMS[0])
    ids, pad, labels = [m.peel(x) for x in ti.fields]
    labs = [m.peel(x) for x in labels.items]
    tokens, padtok, prefix, suffix = SPECIALS[shape['special']]
    npre, nsuf = len(prefix), len(suffix)
    nunits = len(iunits)
    sgn = lambda v: v - (1 << 32) if isinstance(v, int) and v >= (1 << 31) else v
    ctx.out('labels', [sgn(x.v) if isinstance(x.v, int) else str(x.v) for x in labs])
    ctx.out('n_ids', len(ids.items))
    ok_len = len(labs) == npre + nunits + nsuf
    ctx.require(ok_len and all(isinstance(x.v, int) and x.v == (1 << 32) - 1 or x.v == -1 for x in labs[:npre] + labs[len(labs) - nsuf:]),
                TASK_CLAIMS[1])
    if ok_len and not g:
        want = _ref_labels(len(content), shape['gaps'], shape['tgaps'])
        ctx.require([x.v for x in labs[npre:npre + nunits]] == want, TASK_CLAIMS[2])
    elif ok_len:
        # grapheme mode: the labels must repair the input into the target (independent of how clusters are counted)
        ops = VecObj([Enum('Operation', ['Keep', 'Insert', 'Delete'][x.v], x.v, []) for x in labs[npre:npre + nunits]
                      if isinstance(x.v, int) and 0 <= x.v <= 2])
        ctx.require(len(ops.items) == nunits, TASK_CLAIMS[2])
        if len(ops.items) == nunits:
            rep = m.call('repair', mkstring(ctx, inp).as_str(), ops.as_slice(), g)
            ctx.require(rep.variant == 'Ok' and ctx.must(chars_equal(ctx, out_chars(ctx, rep.fields[0]), tgt)), TASK_CLAIMS[2])
    if shape['kind'] == 'char':
        ctx.require(len(ids.items) == npre + len(units_of(ctx, inp, tok_g)) + nsuf, TASK_CLAIMS[3])
    else:
        ctx.require(len(ids.items) == npre + len(inp) + nsuf, TASK_CLAIMS[3])
    ctx.sample = {'task': True, 'graphemes': g, 'widths': shape['widths'], 'gaps': shape['gaps'], 'tgaps': shape['tgaps'],
                  'labels': [x.v for x in labs if isinstance(x.v, int)]}


def run(ctx, shape, opts):
    if shape['part'] == 'Task':
        return run_task(ctx, shape, opts)
    m = ctx.m
    g = shape['g']
    content = ctx.in_string('content', shape['widths']).chars()
    if g:
        assume_sigma_g(ctx, content)
    for c in content:
        ctx.assume(m.bnot(char_is_whitespace(c)))
    orig = []
    for i, c in enumerate(content):
        orig.append(c)
        if i < len(content) - 1 and shape['gaps'][i]:
            orig.append(SPACE)
    ounits = units_of(ctx, orig, g)
    if g:
        assume_no_mixed_units(ctx, orig, ounits)
    pm = shape['pmode']
    iw = ctx.in_fp('iw_p') if pm != 'ins0' else FP(0.0, 'f64')
    dw = ctx.in_fp('dw_p') if pm != 'del0' else FP(0.0, 'f64')
    if ctx.concrete is None:
        for p in (iw, dw):
            if p.sym():
                ctx.assume(z3.Not(z3.fpIsNaN(p.v)))
        # the documented assertion: at least one probability positive (after clamping)
        ctx.assume(m.disj([m.fp_binop('Gt', iw, FP(0.0, 'f64')), m.fp_binop('Gt', dw, FP(0.0, 'f64'))]))
    seed = ctx.in_int('seed', 'u64')
    part = shape['part']
    cfg = mk_enum(m, 'PreprocessingFnConfig', 'WhitespaceCorruption', [mk_enum(m, 'Part', part), iw, dw, g])
    pf = m.call('preprocessing', cfg)
    other = m.new_string('o t h e r')
    text = mkstring(ctx, orig)
    item = Struct('TrainData', [text, other] if part == 'Input' else [other, text], ['input', 'target'])
    fidx = ctx.in_int('file_idx', 'usize') if (ctx.concrete is None or 'file_idx' in ctx.concrete) else Int(0, 'usize')
    info = Struct('TextDataInfo', [seed, fidx, MapObj('HashMap')], ['seed', 'file_idx', 'marks'])
    ctx.seeds_used = []
    r = m.call_value(pf, [item, info])
    ctx.require(r.variant == 'Ok', 'whitespace corruption succeeds')
    nitem = r.fields[0].fields[0]
    cor = nitem.get('input') if part == 'Input' else nitem.get('target')
    oth = nitem.get('target') if part == 'Input' else nitem.get('input')
    ctx.out('corrupted', cor)
    ctx.require(m.eq(oth, m.new_string('o t h e r')), 'the other part of the item is untouched')
    cc = list(out_chars(ctx, cor))
    cws = [ctx.branch(char_is_whitespace(c)) for c in cc]
    ctx.require(chars_equal(ctx, [c for c, w in zip(cc, cws) if not w], content), 'same non-whitespace character sequence')
    clean = (not cws or (not cws[0] and not cws[-1])) and all(not (cws[i] and cws[i + 1]) for i in range(len(cws) - 1))
    ctx.require(clean and m.conj([m.eq(c, SPACE) for c, w in zip(cc, cws) if w]), 'corrupted text is whitespace-clean again')
    # gaps with a space, indexed by the content character before the gap
    def gapset(chs, wsf):
        out, k = set(), -1
        for c, w in zip(chs, wsf):
            if w:
                out.add(k)
            else:
                k += 1
        return out
    og = {i for i, x in enumerate(shape['gaps']) if x}
    cg = gapset(cc, cws)
    if ctx.must(m.fp_binop('Le', dw, FP(0.0, 'f64'))):
        ctx.require(og <= cg, 'with delete probability 0 no whitespace disappears')
    if ctx.must(m.fp_binop('Le', iw, FP(0.0, 'f64'))):
        ctx.require(cg <= og, 'with insert probability 0 no whitespace appears')
    # determinism: every draw from a generator seeded with info.seed
    ctx.require(getattr(ctx, 'unseeded_draws', 0) == 0, 'no randomness from an unseeded generator')
    for sd in getattr(ctx, 'rng_seed_terms', []):
        ctx.require(term_vars(sd) <= {'seed'}, 'the output is a function of (text, seed): the generator is seeded from info.seed only')
    # label consistency through operations / repair
    if g and 'c14_cluster_boundary_changes' in opts.get('known_active', ()) and not opts.get('concrete'):
        pc = content_partition(units_of(ctx, cc, True), cws)
        po = content_partition(ounits, [c is SPACE for c in orig])
        if pc != po:
            raise Infeasible()
    cstr = m.peel(cor).as_str()
    ops = m.call('whitespace::operations', cstr, text.as_str(), g)
    ctx.require(ops.variant == 'Ok', 'operations(corrupted, original) succeeds')
    ctx.require(len(ops.fields[0].items) == len(units_of(ctx, cc, g)), 'one label per character of the corrupted text')
    rep = m.call('repair', cstr, ops.fields[0].as_slice(), g)
    ctx.require(rep.variant == 'Ok' and chars_equal(ctx, out_chars(ctx, rep.fields[0]), orig) is not False and
                ctx.must(chars_equal(ctx, out_chars(ctx, rep.fields[0]), orig)),
                'repair(corrupted, operations(corrupted, original)) == original')
    ctx.sample = {'graphemes': g, 'widths': shape['widths'], 'gaps': shape['gaps'], 'pmode': pm, 'part': part,
                  'corrupted_gaps': sorted(cg)}


# ------------------------------------------------------------------ native side

def _orig(shape, inputs):
    o = []
    c = inputs['content']
    for i, x in enumerate(c):
        o.append(x)
        if i < len(c) - 1 and shape['gaps'][i]:
            o.append(0x20)
    return o


def _gunits(native, cps, g):
    if not g:
        return [(i, i + 1) for i in range(len(cps))]
    out, k = [], 0
    for l in native.call('graphemes', s=cps)['ok']:
        out.append((k, k + l))
        k += l
    return out


def _p(shape, inputs):
    pm = shape['pmode']
    iw = 0.0 if pm == 'ins0' else float(inputs.get('iw_p', 0.5))
    dw = 0.0 if pm == 'del0' else float(inputs.get('dw_p', 0.5))
    # JSON cannot carry infinities; the code clamps probabilities to [0, 1], so a huge finite value is equivalent
    fin = lambda x: max(min(x, 1e300), -1e300) if x == x else x
    return fin(iw), fin(dw)


def _call(native, shape, inputs, seed, file_idx=None):
    iw, dw = _p(shape, inputs)
    return native_ok(native.call('corrupt_ws', s=_orig(shape, inputs), iw=iw, dw=dw, g=shape['g'], part=shape['part'], seed=str(seed),
                                 file_idx=str(inputs.get('file_idx', 0) if file_idx is None else file_idx)))


def _task_call(native, shape, inputs):
    from harnesses.tok_common import SPECIALS
    tokens, pad, prefix, suffix = SPECIALS[shape['special']]
    c = inputs['content']
    return native_ok(native.call('ws_task', input=_interleave(c, shape['gaps'], 0x20), target=_interleave(c, shape['tgaps'], 0x20),
                                 g=shape['g'], tok_g=shape.get('tok_g', shape['g']), kind=shape['kind'], pad=pad, tokens=tokens, prefix=prefix, suffix=suffix))


def task_check(native, inputs, shape):
    from harnesses.tok_common import SPECIALS
    g = shape['g']
    content = inputs['content']
    if any(py_is_ws(c) for c in content):
        return []
    inp, tgt = _interleave(content, shape['gaps'], 0x20), _interleave(content, shape['tgaps'], 0x20)
    for txt in (inp, tgt):
        for a, b in _gunits(native, txt, g):
            fl = [py_is_ws(c) for c in txt[a:b]]
            if any(fl) and not all(fl):
                return []
    tokens, pad, prefix, suffix = SPECIALS[shape['special']]
    npre, nsuf = len(prefix), len(suffix)
    k, v = _task_call(native, shape, inputs)
    if k != 'ok':
        return ['no panic']
    if 'err' in v:
        return [TASK_CLAIMS[0]]
    failed = set()
    nunits = len(_gunits(native, inp, g))
    labs = v['labels']
    if len(labs) != npre + nunits + nsuf or any(x != -1 for x in labs[:npre] + labs[len(labs) - nsuf:]):
        failed.add(TASK_CLAIMS[1])
    else:
        inner = labs[npre:npre + nunits]
        if not g:
            if inner != _ref_labels(len(content), shape['gaps'], shape['tgaps']):
                failed.add(TASK_CLAIMS[2])
        else:
            k4, rep = native_ok(native.call('ws_repair', s=inp, ops=[['Keep', 'Insert', 'Delete'][x] if 0 <= x <= 2 else 'Keep' for x in inner], g=g))
            if k4 != 'ok' or rep.get('Ok') != tgt:
                failed.add(TASK_CLAIMS[2])
    want_ids = npre + nsuf + (len(_gunits(native, inp, shape.get('tok_g', g))) if shape['kind'] == 'char' else len(inp))
    if len(v['token_ids']) != want_ids:
        failed.add(TASK_CLAIMS[3])
    return sorted(failed)


def native_outputs(native, shape, inputs):
    if shape['part'] == 'Task':
        k, v = _task_call(native, shape, inputs)
        if k != 'ok':
            return {'panic': v}
        if 'err' in v:
            return {'labels': 'Err'}
        return {'labels': list(v['labels']), 'n_ids': len(v['token_ids'])}
    k, v = _call(native, shape, inputs, inputs.get('seed', 0))
    if k != 'ok':
        return {'panic': v}
    return {'corrupted': v['corrupted']}


def concrete_check(native, inputs, shape):
    if shape['part'] == 'Task':
        return task_check(native, inputs, shape)
    g = shape['g']
    content = inputs['content']
    orig = _orig(shape, inputs)
    iw, dw = _p(shape, inputs)
    if any(py_is_ws(c) for c in content) or iw != iw or dw != dw or not (min(max(iw, 0.0), 1.0) > 0 or min(max(dw, 0.0), 1.0) > 0):
        return []
    for a, b in _gunits(native, orig, g):
        fl = [py_is_ws(c) for c in orig[a:b]]
        if any(fl) and not all(fl):
            return []
    failed = set()
    og = {i for i, x in enumerate(shape['gaps']) if x}
    # the solver is free to pick probabilities (e.g. 1e-289) that no real seed can undercut; only the outcomes of the
    # comparisons draw < p matter, so the same decision pattern is searched for at probability 0.5 as well
    mid_in = dict(inputs, iw_p=0.5, dw_p=0.5)
    runs = [(inputs, s) for s in [inputs.get('seed', 0)] + list(range(48))] + [(mid_in, s) for s in range(160)]
    for cur_in, seed in runs:
        iw, dw = _p(shape, cur_in)
        k, v = _call(native, shape, cur_in, seed)
        if k != 'ok':
            return ['no panic']
        if v['other'] != [ord(c) for c in 'o t h e r']:
            failed.add('the other part of the item is untouched')
        cc = v['corrupted']
        cws = [py_is_ws(c) for c in cc]
        if [c for c, w in zip(cc, cws) if not w] != content:
            failed.add('same non-whitespace character sequence')
        clean = (not cws or (not cws[0] and not cws[-1])) and all(not (cws[i] and cws[i + 1]) for i in range(len(cws) - 1)) \
            and all(c == 0x20 for c, w in zip(cc, cws) if w)
        if not clean:
            failed.add('corrupted text is whitespace-clean again')
        cg, kk = set(), -1
        for c, w in zip(cc, cws):
            if w:
                cg.add(kk)
            else:
                kk += 1
        if dw <= 0 and not og <= cg:
            failed.add('with delete probability 0 no whitespace disappears')
        if iw <= 0 and not cg <= og:
            failed.add('with insert probability 0 no whitespace appears')
        k2, again = _call(native, shape, cur_in, seed)
        if again != v:
            failed.add('no randomness from an unseeded generator')
        # dependence on anything but (text, seed): compare across file indices, also at probabilities where the
        # random draws matter (the counterexample's own probabilities may make every draw irrelevant)
        mid = dict(inputs, iw_p=0.5, dw_p=0.5)
        for probe in ((inputs, mid) if cur_in is inputs and seed < 8 else ()):
            k1, base = _call(native, shape, probe, seed, file_idx=0)
            for fi in (1, 7):
                k2, other = _call(native, shape, probe, seed, file_idx=fi)
                if k1 != 'ok' or k2 != 'ok' or other != base:
                    failed.add('the output is a function of (text, seed): the generator is seeded from info.seed only')
        k3, ops = native_ok(native.call('ws_operations', a=cc, b=orig, g=g))
        if k3 != 'ok':
            return ['no panic']
        if 'Ok' not in ops:
            failed.add('operations(corrupted, original) succeeds')
        else:
            if len(ops['Ok']) != len(_gunits(native, cc, g)):
                failed.add('one label per character of the corrupted text')
            k4, rep = native_ok(native.call('ws_repair', s=cc, ops=ops['Ok'], g=g))
            if k4 != 'ok':
                return ['no panic']
            if rep.get('Ok') != orig:
                failed.add('repair(corrupted, operations(corrupted, original)) == original')
        if failed:
            break
    return sorted(failed)


# deterministic configurations for output comparison: texts without any gap/insert position
FIXED_CASES = [({'g': False, 'widths': [1], 'gaps': [], 'pmode': 'both', 'part': 'Input'},
                {'content': [0x61], 'iw_p': 0.5, 'dw_p': 0.5, 'seed': 3}),
               ({'g': True, 'widths': [3], 'gaps': [], 'pmode': 'del0', 'part': 'Target'},
                {'content': [0x4E2D], 'iw_p': 0.7, 'seed': 9}),
               ({'g': False, 'widths': [], 'gaps': [], 'pmode': 'ins0', 'part': 'Input'}, {'content': [], 'dw_p': 1.0, 'seed': 1})]


def random_case(rng):
    if rng.random() < 0.3:
        c = [rng.choice([0x61, 0x4E2D, 0x62]) for _ in range(rng.randint(1, 3))]
        return ({'g': rng.random() < 0.3, 'widths': widths_of(c), 'gaps': [rng.randint(0, 1) for _ in range(len(c) - 1)],
                 'tgaps': [rng.randint(0, 1) for _ in range(len(c) - 1)], 'part': 'Task', 'special': rng.choice(['bos_eos', 'default']),
                 'kind': 'char', 'pmode': 'task'}, {'content': c})
    c = [rng.choice([0x61, 0xE4, 0x4E2D, 0x62]) for _ in range(rng.randint(0, 3))]
    return ({'g': rng.random() < 0.3, 'widths': widths_of(c), 'gaps': [rng.randint(0, 1) for _ in range(max(0, len(c) - 1))],
             'pmode': rng.choice(['ins0', 'del0', 'both']), 'part': rng.choice(['Input', 'Target'])},
            {'content': c, 'iw_p': rng.choice([0.3, 0.9, 1.0, 2.0]), 'dw_p': rng.choice([0.2, 1.0, 0.5]), 'seed': rng.randrange(1 << 64)})
