"""Construction of tokenizers through the crate's real constructors (shared by C01, C04, C17, C02, C03)."""
from values import *
from harnesses.hlib import *

BYTE_T = 'BaseTokenizer<ByteTokenizerConfig>'
CHAR_T = 'BaseTokenizer<CharTokenizerConfig, (String, Vocab<char>)>'
BPE_T = 'BaseTokenizer<BPETokenizerConfig, (HashMap<Vec<u8>, u32>, Vec<Vec<u8>>, regex::Regex)>'

# special-token configurations (concrete): (tokens, pad, prefix, suffix)
SPECIALS = {
    'default': (['<unk>', '<bos>', '<eos>', '<pad>'], '<pad>', [], []),
    'bos_eos': (['<unk>', '<bos>', '<eos>', '<pad>'], '<pad>', ['<bos>'], ['<eos>']),
    'dup_extra': (['<pad>', '<bos>', '<pad>', '<x>', '<bos>'], '<pad>', ['<bos>', '<bos>'], ['<x>']),
    'minimal': (['<pad>'], '<pad>', [], []),
    # a repeated entry in front of the pad token (ids are assigned to the de-duplicated list)
    'dup_before_pad': (['<bos>', '<eos>', '<bos>', '<pad>', '<eos>'], '<pad>', ['<bos>'], ['<eos>']),
    # several distinct prefix and suffix tokens (their order matters)
    # special tokens that contain regex metacharacters (the special-token pattern must match them literally)
    'meta': (['<pad>', '<|x|>', 'a.b'], '<pad>', [], ['<|x|>']),
    # a special token that is a single byte (its special id, not the byte id, must be used when it is parsed)
    'onebyte': (['<pad>', '|'], '<pad>', [], ['|']),
    'two_prefix': (['<unk>', '<bos>', '<eos>', '<pad>'], '<pad>', ['<bos>', '<pad>'], ['<eos>', '<unk>']),
}


def unique(xs):
    out = []
    for x in xs:
        if x not in out:
            out.append(x)
    return out


def vec_strings(m, xs):
    return VecObj([m.new_string(x) for x in xs])


def special_config(m, name):
    tokens, pad, prefix, suffix = SPECIALS[name]
    return Struct('SpecialConfig', [m.new_string(pad), vec_strings(m, tokens), vec_strings(m, prefix), vec_strings(m, suffix)],
                  ['pad', 'tokens', 'prefix', 'suffix'])


def mk_enum(m, ty, variant, fields=()):
    vs = m.enum_variants_of(ty)
    return Enum(ty, variant, vs.index(variant), list(fields))


def byte_tokenizer(ctx, cfg):
    """cfg: dict(g, pad_to, groups, agg, special)."""
    m = ctx.m
    pad_to = cfg.get('pad_to')
    conf = Struct('ByteTokenizerConfig',
                  [cfg['g'], Some(Int(pad_to, 'usize')) if pad_to else NONE(), mk_enum(m, 'ByteGroups', cfg.get('groups', 'Bytes')),
                   mk_enum(m, 'GroupAggregation', cfg.get('agg', 'Mean'))],
                  ['use_graphemes', 'pad_to_multiple_of', 'groups', 'aggregation'])
    r = m.call_path('BaseTokenizer::<ByteTokenizerConfig>::new', [conf, special_config(m, cfg['special'])])
    if r.variant != 'Ok':
        raise Unsupported('byte tokenizer construction failed')
    return r.fields[0]


def char_tokenizer(ctx, cfg):
    m = ctx.m
    conf = Struct('CharTokenizerConfig', [cfg['g'], m.new_string('<unk>')], ['use_graphemes', 'unk_token'])
    r = m.call_path('BaseTokenizer::<CharTokenizerConfig, (String, Vocab<char>)>::new', [conf, special_config(m, cfg['special'])])
    if r.variant != 'Ok':
        raise Unsupported('char tokenizer construction failed')
    return r.fields[0]


def tcall(m, ty, method, tok, *args):
    return m.call_path('<%s as Tokenize>::%s' % (ty, method), [ref_to(tok)] + list(args))


def bcall(m, ty, method, tok, *args):
    return m.call_path('<%s as BaseTokenize>::%s' % (ty, method), [ref_to(tok)] + list(args))


def expected_special_tokens(cfg, kind='byte'):
    """Special vocabulary in id order (python strings), as the constructors are specified to build it."""
    tokens, pad, prefix, suffix = SPECIALS[cfg['special']]
    toks = list(tokens)
    if kind == 'byte' and cfg.get('pad_to'):
        n = 256 + len(set(toks))
        p = cfg['pad_to']
        extra = -(-n // p) * p - n
        toks += ['<extra_token_%d>' % i for i in range(extra)]
    if kind == 'char':
        toks = toks + ['<unk>']
    return unique(toks)


def template_string(ctx, name, template):
    """template: list of ints (concrete code points) and width markers 'w1'..'w4' (symbolic char of that width)."""
    if ctx.concrete is not None:
        cps = ctx.concrete[name]
        ctx.inputs[name] = list(cps)
        return ctx.m.str_lit(cps)
    chars = []
    for i, t in enumerate(template):
        if isinstance(t, int):
            chars.append(Int(t, 'char'))
        else:
            chars.append(ctx.sym_char('%s_c%d' % (name, i), int(t[1])))
    ctx.inputs[name] = chars
    buf = StrBuf(chars, [ctx.char_width(c) for c in chars])
    return StrRef(buf, 0, buf.byte_len())


def scan_specials(ctx, chars, specials):
    """Independent left-to-right scan: list of ('s', token_index, length) / ('c', char)."""
    out = []
    i = 0
    n = len(chars)
    while i < n:
        hit = None
        for k, tok in enumerate(specials):
            L = len(tok)
            if i + L <= n and ctx.branch(ctx.m.conj([ctx.m.eq(chars[i + j], Int(ord(tok[j]), 'char')) for j in range(L)])):
                hit = (k, L)
                break
        if hit:
            out.append(('s', hit[0], hit[1]))
            i += hit[1]
        else:
            out.append(('c', chars[i]))
            i += 1
    return out


def scan_specials_py(cps, specials):
    out = []
    i = 0
    while i < len(cps):
        hit = None
        for k, tok in enumerate(specials):
            t = [ord(c) for c in tok]
            if cps[i:i + len(t)] == t:
                hit = (k, len(t))
                break
        if hit:
            out.append(('s', hit[0], hit[1]))
            i += hit[1]
        else:
            out.append(('c', cps[i]))
            i += 1
    return out
