"""C11: clean / word_boundaries / remove / full against the whitespace normal form."""
import z3
from values import *
from harnesses.hlib import *
from models_core import char_is_whitespace
from models_text import G_EXTEND, G_ZWJ, in_ranges

PROPERTY = 'C11'
VALIDATE_MODELS = ['ws', 'utf8', 'graphemes']
VALIDATION_CASES = {'quick': 150, 'thorough': 600}
TIME_BUDGET = {'quick': 900, 'thorough': 3300}
BOUNDS = {
    'quick': 'code-point mode: strings of <= 4 characters, grapheme mode: <= 3 code points over the alphabet Sigma_g of '
             'models_text.py; every UTF-8 width combination (1-4 bytes per character), code points fully symbolic '
             'inside their width class',
    'thorough': 'same with <= 5 characters (code-point mode) and <= 4 code points (grapheme mode)',
}
OUTSIDE = ['strings longer than the bound', 'grapheme mode outside Sigma_g (Hangul, Indic conjuncts, regional '
           'indicators, prepend characters)', 'the unicode-segmentation tables themselves (diff-tested model)']
ASSUMPTIONS = ['std models listed under coverage.std_models_used', 'grapheme segmentation modelled by UAX#29 rules '
               'GB3-5, GB9, GB11, GB999 over Sigma_g, diff-tested against unicode-segmentation at every run',
               'char::is_whitespace = the 25 White_Space code points (compared exhaustively with std at every run)']


def shapes(tier):
    ncp, ng = (4, 3) if tier == 'quick' else (5, 4)
    out = [{'widths': ws, 'g': False} for ws in width_shapes(ncp)]
    out += [{'widths': ws, 'g': True} for ws in width_shapes(ng)]
    out.sort(key=lambda sh: -len(sh['widths']))
    return out


def kf_ws_then_extend(chars_cps, g):
    """Known finding KF-C11-1: in grapheme mode a whitespace unit is followed by a cluster that starts with an
    Extend/ZWJ code point (after cleaning, that cluster absorbs the separating space)."""
    if not g:
        return False
    ext = lambda c: any(a <= c <= b for a, b in G_EXTEND + G_ZWJ)
    for i in range(1, len(chars_cps)):
        if py_is_ws(chars_cps[i - 1]) and ext(chars_cps[i]):
            return True
    return False


KNOWN_MATCHERS = {
    'c11_ws_then_extend': lambda shape, inputs, failed: kf_ws_then_extend(inputs['s'], shape['g'])
    and set(failed) <= {'clean is idempotent'},
}


def run(ctx, shape, opts):
    m = ctx.m
    g = shape['g']
    s = ctx.in_string('s', shape['widths'])
    chars = s.chars()
    if g:
        assume_sigma_g(ctx, chars)
    units = units_of(ctx, chars, g)
    if g:
        assume_no_mixed_units(ctx, chars, units)
    # ---- run the real code
    cleaned = m.call('clean', s, g)
    bounds = m.call('word_boundaries', s, g)
    removed = m.call('remove', s, g)
    full = m.call('full', s, g)
    ctx.out('clean', cleaned)
    ctx.out('word_boundaries', bounds)
    ctx.out('remove', removed)
    ctx.out('full', full)
    # ---- oracle: words = maximal runs of non-whitespace units
    uws = []
    for a, b in units:
        uws.append(ctx.branch(char_is_whitespace(chars[a])))  # units are uniform by the precondition
    words = []      # list of (unit_start, unit_end)
    st = None
    for i, w in enumerate(uws):
        if w:
            if st is not None:
                words.append((st, i))
                st = None
        elif st is None:
            st = i
    if st is not None:
        words.append((st, len(uws)))
    exp_clean = []
    for k, (a, b) in enumerate(words):
        if k:
            exp_clean.append(SPACE)
        exp_clean.extend(chars[units[a][0]:units[b - 1][1]])
    ctx.require(chars_equal(ctx, out_chars(ctx, cleaned), exp_clean), 'clean(s) == words joined by single spaces')
    bl = m.peel(bounds).items
    ok = len(bl) == len(words)
    if ok:
        conds = []
        for t, (a, b) in zip(bl, words):
            conds.append(m.eq(t.fields[0], Int(a, 'usize')))
            conds.append(m.eq(t.fields[1], Int(b, 'usize')))
        ok = m.conj(conds)
    ctx.require(ok, 'word_boundaries(s) == ranges of the whitespace-separated words')
    nonws_units = [units[i] for i, w in enumerate(uws) if not w]
    exp_removed = []
    exp_full = []
    for k, (a, b) in enumerate(nonws_units):
        exp_removed.extend(chars[a:b])
        if k:
            exp_full.append(SPACE)
        exp_full.extend(chars[a:b])
    ctx.require(chars_equal(ctx, out_chars(ctx, removed), exp_removed), 'remove(s) == s without whitespace')
    ctx.require(chars_equal(ctx, out_chars(ctx, full), exp_full), 'full(s) == non-whitespace characters joined by spaces')
    # ---- idempotence on the real output
    if g and 'c11_ws_then_extend' in opts.get('known_active', ()) and not opts.get('concrete'):
        # region of known finding KF-C11-1 (witness re-confirmed natively by the runner on this tree)
        for i in range(1, len(chars)):
            if uws_char(ctx, chars[i - 1]):
                ctx.assume(m.bnot(in_ranges(chars[i], G_EXTEND + G_ZWJ)))
    again = m.call('clean', m.peel(cleaned).as_str(), g)
    ctx.out('clean2', again)
    if not opts.get('concrete'):
        ctx.require(chars_equal(ctx, out_chars(ctx, again), out_chars(ctx, cleaned)), 'clean is idempotent')
    ctx.sample = {'widths': shape['widths'], 'graphemes': g, 'whitespace_pattern_of_units': uws}


def uws_char(ctx, c):
    return ctx.branch(char_is_whitespace(c))


# ------------------------------------------------------------------ native side

def _units_py(native, cps, g):
    if not g:
        return [(i, i + 1) for i in range(len(cps))]
    lens = native.call('graphemes', s=cps)['ok']
    out = []
    a = 0
    for l in lens:
        out.append((a, a + l))
        a += l
    return out


def native_outputs(native, shape, inputs):
    g = shape['g']
    s = inputs['s']
    out = {}
    for name, op in (('clean', 'clean'), ('word_boundaries', 'word_boundaries'), ('remove', 'remove'), ('full', 'full')):
        k, v = native_ok(native.call(op, s=s, g=g))
        if k != 'ok':
            return {'panic': v}
        out[name] = v
    k, v = native_ok(native.call('clean', s=out['clean'], g=g))
    if k != 'ok':
        return {'panic': v}
    out['clean2'] = v
    return out


def concrete_check(native, inputs, shape):
    """Evaluate the property natively on one concrete input; returns the list of failing claims."""
    g = shape['g']
    s = inputs['s']
    units = _units_py(native, s, g)
    # precondition (grapheme mode): no unit mixes whitespace and non-whitespace
    for a, b in units:
        fl = [py_is_ws(c) for c in s[a:b]]
        if any(fl) and not all(fl):
            return []
    o = native_outputs(native, shape, inputs)
    if 'panic' in o:
        return ['no panic']
    uws = [py_is_ws(s[a]) for a, b in units]
    words = []
    st = None
    for i, w in enumerate(uws):
        if w:
            if st is not None:
                words.append((st, i))
                st = None
        elif st is None:
            st = i
    if st is not None:
        words.append((st, len(uws)))
    exp_clean = []
    for k, (a, b) in enumerate(words):
        if k:
            exp_clean.append(0x20)
        exp_clean.extend(s[units[a][0]:units[b - 1][1]])
    failed = []
    if o['clean'] != exp_clean:
        failed.append('clean(s) == words joined by single spaces')
    if [list(x) for x in o['word_boundaries']] != [list(w) for w in words]:
        failed.append('word_boundaries(s) == ranges of the whitespace-separated words')
    nonws = [units[i] for i, w in enumerate(uws) if not w]
    exp_removed = [c for a, b in nonws for c in s[a:b]]
    exp_full = []
    for k, (a, b) in enumerate(nonws):
        if k:
            exp_full.append(0x20)
        exp_full.extend(s[a:b])
    if o['remove'] != exp_removed:
        failed.append('remove(s) == s without whitespace')
    if o['full'] != exp_full:
        failed.append('full(s) == non-whitespace characters joined by spaces')
    if o['clean2'] != o['clean']:
        failed.append('clean is idempotent')
    return failed


def _case(s, g):
    cps = [ord(c) for c in s] if isinstance(s, str) else s
    return ({'widths': widths_of(cps), 'g': g}, {'s': cps})


# inputs of the repository's own unit tests (src/text.rs, src/whitespace.rs)
FIXED_CASES = [_case(' this\t is \n a test sentence  ', True), _case('this is a test sentence', True),
               _case('  this is   a test  sentence ', False), _case(' t   h is is \n\t a tes    t ', True),
               _case('', True), _case('this is a test', False), _case('\u2003a\u0301 b\r\nc', True)]


def random_case(rng):
    g = rng.random() < 0.5
    from models_text import G_CLASSES
    if g:
        ranges = [r for _, rs in G_CLASSES for r in rs]
        cps = []
        for _ in range(rng.randint(0, 6)):
            a, b = rng.choice(ranges)
            cps.append(rng.choice([a, b, rng.randint(a, b), 0x20, 0x20]))
    else:
        cps = rand_string(rng, 6)
    return _case(cps, g)
