"""Shared driver code for the MIRBMC properties C05 / C09."""
import multiprocessing as mp
import os
import re
import sys
import time
import traceback
import z3

import build
import mirbmc
from mirbmc import BVI, bv, DONE
from mirparse import Program
from values import Unsupported


def find_closure(prog, span_re, suffix):
    c = [f for n, f in prog.functions.items() if re.search(span_re, n) and n.endswith(suffix)]
    if len(c) != 1:
        raise Unsupported('MIRBMC: closure %s %s not found (%d candidates)' % (span_re, suffix, len(c)))
    return c[0]


def impl_of(prog, method_src_pattern, repo):
    """Find the `impl` block span of Pipe / Buffered by reading the source (robust against line shifts)."""
    src = open(os.path.join(repo, 'src/data/loading.rs'), encoding='utf-8').read().split('\n')
    for i, ln in enumerate(src):
        if re.match(method_src_pattern, ln):
            return i + 1
    raise Unsupported('MIRBMC: cannot locate %s in src/data/loading.rs' % method_src_pattern)


def pipe_facts(prog, repo):
    """Structural premises read from the MIR of Pipe::new: channel capacity, thread count, hook installation."""
    line = impl_of(prog, r'^impl<O> Pipe<O>', repo)
    fns = [f for n, f in prog.functions.items() if ('loading.rs:%d:' % line) in n]
    new = [f for f in fns if f.name.endswith('>::new')]
    if len(new) != 1:
        raise Unsupported('MIRBMC: Pipe::new body not found')
    new = new[0]
    new.parse()
    worker = [f for f in fns if f.name.endswith('::new::{closure#2}')]
    hook = [f for f in fns if f.name.endswith('::new::{closure#1}')]
    txt = {bid: (b.term.text or '') for bid, b in new.blocks.items() if not b.cleanup}
    facts = {'worker': worker[0] if worker else None}
    # capacity: sync_channel argument is the (casted) thread count
    cap_arg = None
    for bid, t in txt.items():
        m = re.search(r'sync_channel::<[^(]*>\((?:copy|move) (_\d+)\)', t)
        if m:
            cap_arg = m.group(1)
    facts['capacity_is_num_threads'] = False
    # the result channel is unbounded (`mpsc::channel()`): modelled with a capacity no run inside the bound can fill
    facts['channel_unbounded'] = any(re.search(r'mpsc::channel::<', t) for t in txt.values()) and cap_arg is None
    if cap_arg:
        for b in new.blocks.values():
            if b.cleanup:
                continue
            for st in b.stmts:
                if st.text and st.text.startswith(cap_arg + ' = ') and 'as usize' in st.text and '_3' in st.text:
                    facts['capacity_is_num_threads'] = True
    # hook: set_hook is on every path from the entry to the first spawn, and the hook body exits the process
    def reach(skip=None):
        seen, work = set(), [0]
        while work:
            b = work.pop()
            if b in seen or b == skip or b not in new.blocks or new.blocks[b].cleanup:
                continue
            seen.add(b)
            t = new.blocks[b].term
            for k in ('target',):
                if t.a.get(k) is not None:
                    work.append(t.a[k])
            if t.kind == 'switch':
                work.extend(x for _, x in t.a['targets'])
                if t.a['otherwise'] is not None:
                    work.append(t.a['otherwise'])
        return seen
    hook_blocks = [bid for bid, t in txt.items() if 'panic::set_hook' in t or 'set_hook(' in t]
    spawn_blocks = [bid for bid, t in txt.items() if '::spawn' in t and 'Builder' in t]
    facts['hook_before_spawn'] = bool(hook_blocks) and bool(spawn_blocks) and \
        all(sb not in reach(skip=hook_blocks[0]) for sb in spawn_blocks)
    facts['hook_exits'] = False
    if hook:
        hook[0].parse()
        facts['hook_exits'] = any(re.search(r'(?:process::)?\bexit\(', b.term.text or '') for b in hook[0].blocks.values() if not b.cleanup)
    facts['counter_starts_at_zero'] = any(re.search(r'Atomic(?:Usize)?::(?:<usize>::)?new\(const 0_usize\)', t) for t in txt.values())
    return facts


def _duration_ms(texts):
    ms = None
    for t in texts:
        m = re.search(r'Duration::from_(secs|millis|micros)\(const (\d+)_u64\)', t)
        if m:
            v = int(m.group(2)) * {'secs': 1000.0, 'millis': 1.0, 'micros': 0.001}[m.group(1)]
            ms = v if ms is None else max(ms, v)
    return ms


def consumer_facts(prog, repo, which='pipe'):
    """How the consumer side (Iterator::next of Pipe / Buffered) receives: blocking recv (the model's consumer), or a
    receive that can give up (recv_timeout / try_recv): then end of stream may be observed while senders are alive."""
    pat = r'^impl<O> Iterator for Pipe<O>' if which == 'pipe' else r'^impl<T> Iterator for Buffered<T>'
    line = impl_of(prog, pat, repo)
    nx = [f for n, f in prog.functions.items() if ('loading.rs:%d:' % line) in n and n.endswith('>::next')]
    if len(nx) != 1:
        raise Unsupported('MIRBMC: consumer next() body not found')
    nx[0].parse()
    txt = [(b.term.text or '') for b in nx[0].blocks.values() if not b.cleanup]
    calls = [t for t in txt if '(' in t and '->' in t]
    out = {'recv': 'none', 'timeout_ms': None}
    for t in calls:
        if re.search(r'Receiver::<[^>]*>::recv\(', t):
            out['recv'] = 'blocking'
        elif re.search(r'Receiver::<[^>]*>::(recv_timeout|recv_deadline)\(', t):
            out['recv'] = 'timeout'
        elif re.search(r'Receiver::<[^>]*>::try_recv\(', t):
            out['recv'] = 'nonblocking'
    # a timeout given as a named constant: read the constant's initialiser from the dump
    for t in list(calls):
        for nm in re.findall(r'const (?:[\w:]+::)?([A-Z][A-Z0-9_]*)\b', t):
            for n, f in prog.functions.items():
                if getattr(f, 'kind', '') == 'const' and (n == nm or n.endswith('::' + nm)):
                    f.parse()
                    txt = txt + [(b.term.text or '') for b in f.blocks.values() if not b.cleanup] + \
                        [(st.text or '') for b in f.blocks.values() if not b.cleanup for st in b.stmts]
    out['timeout_ms'] = _duration_ms(txt)
    if out['recv'] == 'none':
        raise Unsupported('MIRBMC: the consumer does not receive through Receiver::recv / recv_timeout / try_recv')
    return out


def drop_facts(prog, which='pipe'):
    """What dropping the iterator does before its fields (the Receiver) are dropped: nothing when the type has no Drop
    impl (the model's `drop the receiver` action); a Drop impl that joins the background thread(s) makes the consumer
    wait for them first; any other Drop impl is outside the model."""
    ty = 'Pipe<O>' if which == 'pipe' else 'Buffered<T>'
    fs = [f for n, f in prog.functions.items() if n.endswith('>::drop') and ('(_1: &mut %s)' % ty) in (f.header or '')]
    if not fs:
        return {'drop_impl': False, 'joins': False}
    if len(fs) > 1:
        raise Unsupported('MIRBMC: several Drop impls for ' + ty)
    fs[0].parse()
    from resolve import parse_callee
    keys = set()
    for b in fs[0].blocks.values():
        if not b.cleanup and b.term.kind == 'call' and b.term.a['func']:
            keys.add(parse_callee(b.term.a['func']).key())
    harmless = {'Option::take', 'Option::is_some', 'Option::is_none', 'mem::drop', 'mem::take', 'mem::replace', 'Result::ok',
                'Result::is_ok', 'Result::is_err', 'Option::unwrap', 'Option::expect', 'Result::unwrap', 'Result::expect',
                'Vec::drain', 'IntoIterator::into_iter', 'Iterator::next', 'Deref::deref', 'DerefMut::deref_mut', 'Vec::pop'}
    joins = bool(keys & {'JoinHandle::join'})
    other = keys - harmless - {'JoinHandle::join'}
    if other:
        raise Unsupported('MIRBMC: Drop impl of %s calls %s (outside the protocol model)' % (ty, sorted(other)))
    return {'drop_impl': True, 'joins': joins}


class ConstEval:
    """Evaluates scalar locals of Pipe::new as functions of num_threads (_3): single-assignment locals defined by use / cast /
    arithmetic / comparison over constants and other such locals.  Anything else evaluates to None (unknown)."""

    def __init__(self, fn, env):
        self.fn, self.env = fn, dict(env)
        self.defs = {}
        for b in fn.blocks.values():
            if b.cleanup:
                continue
            for st in b.stmts:
                if st.kind == 'assign' and not st.place.proj:
                    self.defs.setdefault(st.place.local, []).append(st.rv)

    def operand(self, op, depth=0):
        if op.kind == 'const':
            c = op.const
            return c.value if c.kind in ('int', 'bool') else None
        pl = op.place
        v = self.local(pl.local, depth + 1)
        for pr in pl.proj:
            if pr[0] == 'field' and isinstance(v, tuple):
                v = v[pr[1]]
            elif pr[0] in ('deref', 'downcast'):
                continue
            else:
                return None
        return v

    def local(self, l, depth=0):
        if l in self.env:
            return self.env[l]
        ds = self.defs.get(l, [])
        if len(ds) != 1 or depth > 12:
            return None
        rv = ds[0]
        k, a = rv.kind, rv.a
        if k == 'use':
            return self.operand(a[0], depth)
        if k == 'cast':
            return self.operand(a[0], depth)
        if k == 'binop':
            x, y = self.operand(a[1], depth), self.operand(a[2], depth)
            if x is None or y is None or isinstance(x, tuple) or isinstance(y, tuple):
                return None
            op = a[0]
            if op in ('AddWithOverflow', 'SubWithOverflow', 'MulWithOverflow'):
                r = {'A': x + y, 'S': x - y, 'M': x * y}[op[0]]
                return (r, False)
            f = {'Add': lambda: x + y, 'Sub': lambda: x - y, 'Mul': lambda: x * y, 'Gt': lambda: x > y, 'Ge': lambda: x >= y,
                 'Lt': lambda: x < y, 'Le': lambda: x <= y, 'Eq': lambda: x == y, 'Ne': lambda: x != y}.get(op)
            return f() if f else None
        return None


def worker_captures(prog, repo, num_threads):
    """values of the scalar captures of the worker closure (e.g. a flag computed from num_threads) for one configuration:
    {capture index: int / bool}; captures that are not scalars or cannot be evaluated are left out"""
    line = impl_of(prog, r'^impl<O> Pipe<O>', repo)
    fns = [f for n, f in prog.functions.items() if ('loading.rs:%d:' % line) in n]
    new = [f for f in fns if f.name.endswith('>::new')][0]
    new.parse()
    ev = ConstEval(new, {3: num_threads})
    out = {}
    for b in new.blocks.values():
        if b.cleanup:
            continue
        for st in b.stmts:
            if st.kind == 'assign' and st.rv.kind == 'closure' and len(st.rv.a[1]) >= 3:      # the worker closure (several captures)
                for idx, (name, op) in enumerate(st.rv.a[1]):
                    v = ev.operand(op)
                    if isinstance(v, (int, bool)) and not isinstance(v, tuple):
                        out[idx] = v
    return out


def spawn_facts(prog, repo):
    """number of worker threads spawned by Pipe::new as a function of num_threads: the spawn loop iterates over the range
    start..num_threads (start read from the MIR); anything else is outside the model"""
    line = impl_of(prog, r'^impl<O> Pipe<O>', repo)
    new = [f for n, f in prog.functions.items() if ('loading.rs:%d:' % line) in n and n.endswith('>::new')]
    new[0].parse()
    starts = []
    for b in new[0].blocks.values():
        if b.cleanup:
            continue
        for st in b.stmts:
            m = re.search(r'Range::<(?:u8|usize)> \{ start: const (\d+)_(?:u8|usize), end: (?:move|copy) _(\d+) \}', st.text or '')
            if m:
                starts.append((int(m.group(1)), int(m.group(2))))
            elif re.search(r'RangeInclusive::<(?:u8|usize)>|Range::<(?:u8|usize)> \{ start: (?!const)', st.text or ''):
                starts.append(None)
    if len(starts) != 1 or starts[0] is None:
        raise Unsupported('MIRBMC: spawn loop of Pipe::new is not `for _ in <const>..<expression over num_threads>`')
    start, end_local = starts[0]
    # the end of the range as a function of num_threads (evaluated for the configurations used: 1..4)
    ends = {}
    for T in (1, 2, 3, 4):
        e = ConstEval(new[0], {3: T}).local(end_local)
        if not isinstance(e, int) or isinstance(e, bool):
            raise Unsupported('MIRBMC: the end of the spawn range of Pipe::new is not an arithmetic expression over num_threads')
        ends[T] = e
    return {'spawn_start': start, 'spawn_end': ends}


def buffered_facts(prog, repo):
    """channel of Buffered::new: sync_channel(buffer_size) / unbounded channel / something else"""
    line = impl_of(prog, r'^impl<T> Buffered<T>', repo)
    new = [f for n, f in prog.functions.items() if ('loading.rs:%d:' % line) in n and n.endswith('>::new')]
    if len(new) != 1:
        raise Unsupported('MIRBMC: Buffered::new body not found')
    new[0].parse()
    txt = [(b.term.text or '') for b in new[0].blocks.values() if not b.cleanup]
    if any(re.search(r'sync_channel::<[^(]*>\((?:copy|move) _2\)', t) for t in txt):
        return {'channel': 'buffer_size'}
    if any(re.search(r'mpsc::channel::<', t) for t in txt):
        return {'channel': 'unbounded'}
    return {'channel': 'other'}


def buffered_worker(prog, repo):
    line = impl_of(prog, r'^impl<T> Buffered<T>', repo)
    c = [f for n, f in prog.functions.items() if ('loading.rs:%d:' % line) in n and n.endswith('::new::{closure#0}')]
    if len(c) != 1:
        raise Unsupported('MIRBMC: Buffered producer closure not found')
    return c[0]


def solve(system, formula):
    s = z3.SolverFor('QF_BV')
    s.set('timeout', system.cfg.get('timeout_ms', 600000))
    s.add(system.solver.assertions())
    s.add(formula)
    t0 = time.time()
    r = s.check()
    mdl = s.model() if r == z3.sat else None
    return r, mdl, time.time() - t0


_G = {}


def _job(job):
    """job = dict(name, which ('pipe'|'buffered'), W, cap, N, K, n_mode, cfg, query) -> result dict"""
    try:
        if 'prog' not in _G:
            _G['prog'] = Program(job['mir'])
        prog = _G['prog']
        fn = pipe_facts(prog, job['repo'])['worker'] if job['which'] == 'pipe' else buffered_worker(prog, job['repo'])
        tp = mirbmc.ThreadProgram(fn, prog)
        cfg = dict(job['cfg'])
        n = BVI('n')
        t0 = time.time()
        sysm = mirbmc.System(tp, W=job['W'], cap=job['cap'], nmax=job['N'], n_items=n, K=job['K'], cfg=cfg)
        if job['n_mode'] == 'bounded':
            sysm.solver.add(z3.ULE(n, job['N']))
        else:
            sysm.solver.add(n == 40)       # effectively unbounded upstream (longer than any K used)
        build_s = time.time() - t0
        import harnesses.bmc_queries as Q
        formula, expect = Q.QUERIES[job['query']](sysm, job, n)
        r, mdl, dt = solve(sysm, formula)
        out = {'name': job['name'], 'query': job['query'], 'result': str(r), 'expect': expect, 'solve_s': round(dt, 2),
               'build_s': round(build_s, 2), 'K': job['K'], 'W': job['W'], 'N': job['N'], 'cap': job['cap'],
               'steps': job['K'], 'block_instances': sysm.stats['block_instances'], 'visible_blocks': sysm.visible_blocks,
               'function': fn.name, 'orderings': sorted(tp.orderings)}
        out.update({k: job[k] for k in ('lookahead_bound', 'drop_bound', 'buffer_size', 'num_threads', 'consumer_timeout_ms') if k in job})
        if mdl is not None:
            out['trace'] = sysm.trace(mdl)
            out['n'] = mdl.eval(n, model_completion=True).as_long()
        return out
    except Unsupported as e:
        return {'name': job['name'], 'query': job['query'], 'result': 'unsupported', 'expect': None, 'error': str(e)}
    except Exception as e:
        return {'name': job['name'], 'query': job['query'], 'result': 'error', 'expect': None,
                'error': '%s: %s\n%s' % (type(e).__name__, e, traceback.format_exc()[-1200:])}


def run_jobs(jobs, procs=16):
    ctx = mp.get_context('fork')
    with ctx.Pool(min(procs, len(jobs))) as pool:
        return list(pool.imap_unordered(_job, jobs, chunksize=1))


LOOKAHEAD_CLAIM = 'bounded lookahead'


def run_unthreaded(tier, mir, repo, native, seed, procs, prop, only=None):
    """The num_threads = 0 branch of Pipe (no thread, so no schedule): MIRSE interprets Pipe::new / Pipe::next of the
    real code (harnesses/c05seq.py).  C05 takes every claim but the lookahead one, C09 only the lookahead claim."""
    import json
    import engine
    import harnesses
    h = harnesses.get('c05seq')
    shapes = h.shapes(tier)
    opts = {'mir': mir, 'repo': repo, 'tier': tier, 'seed': seed, 'stop_on_violation': False, 'first_only': False,
            'deadline': time.time() + 300}
    mine = (lambda what: what.startswith(LOOKAHEAD_CLAIM)) if prop == 'C09' else (lambda what: not what.startswith(LOOKAHEAD_CLAIM))
    out = {'violations': [], 'incon': [], 'coverage': {}}
    twins = engine.run_harness('c05seq', shapes[-2:], dict(opts, twin=True), procs=min(procs, 4))
    twin_ok = sum(1 for r in twins if any(v['what'] == 'reachability witness' for v in r['violations']))
    results = engine.run_harness('c05seq', shapes, opts, procs=min(procs, 8))
    tot = engine.summarize(results)
    for u in tot['unsupported']:
        out['incon'].append('unthreaded branch (MIRSE): ' + u[:600])
    if twin_ok == 0 or (tot['ok_paths'] == 0 and not tot['violations']):
        out['incon'].append('unthreaded branch (MIRSE): vacuous run (no path reaches the end of the harness)')
    seen = set()
    for v in tot['violations'] + tot['bounds']:
        if v['what'] in seen:
            continue
        seen.add(v['what'])
        failed = h.concrete_check(native, v['inputs'], v['shape'])
        if not mine(v['what']) and not any(mine(f) for f in failed):
            continue        # the other property's claim
        rec = {'property': prop, 'claim': 'unthreaded pipe (num_threads = 0): ' + v['what'], 'config': {'W': 0, 'n': v['shape']['n']},
               'shape': v['shape'], 'inputs': v['inputs'], 'native_failed_claims': [f for f in failed if mine(f)]}
        if rec['native_failed_claims']:
            out['violations'].append(rec)
        elif not failed:
            out['incon'].append('unthreaded branch: symbolic counterexample of "%s" did not reproduce natively' % v['what'])
    out['coverage'] = {'engine': 'MIRSE', 'shapes': tot['shapes'], 'feasible_paths': tot['ok_paths'], 'solver_queries': tot['checks'],
                       'property_assertions_discharged': tot['requires'], 'functions_encoded': dict(tot['encoded']),
                       'std_models_used': dict(tot['models']), 'vacuity_twins_reached_end': twin_ok,
                       'bounds': 'n in [0, %d] items with symbolic payloads, num_threads = 0' % h.MAX_N[tier]}
    return out
