"""C01: byte and character tokenizers encode every character faithfully and losslessly."""
import z3
from values import *
from harnesses.hlib import *
from harnesses.tok_common import *

PROPERTY = 'C01'
VALIDATE_MODELS = ['ws', 'utf8', 'graphemes']
VALIDATION_CASES = {'quick': 60, 'thorough': 200}
TIME_BUDGET = {'quick': 900, 'thorough': 3300}
OPTS = {'quick': {'hash_order': 'insertion', 'step_budget': 3000000}, 'thorough': {'hash_order': 'insertion', 'step_budget': 6000000}}
CHARS = 'abcdefghijklmnopqrstuvwxyzABCDEFGHIJKLMNOPQRSTUVWXYZ0123456789""!"#$%&\'()*+,-./:;<=>?@[\\]^_`{|}~"" '
BOUNDS = {
    'quick': 'byte tokenizer: fully symbolic texts of <= 3 characters (all UTF-8 widths) and templates that contain or '
             'nearly contain a special-token spelling with symbolic neighbours (<pad>, <pad + 1 symbolic, symbolic + <bos> + '
             'symbolic, two adjacent special tokens), configs: special sets default / bos_eos / dup_extra / two_prefix (two distinct prefix and suffix tokens), groups bytes / '
             'code points, pad_to_multiple_of None / 128, graphemes on/off, ignore_special_tokens symbolic; char tokenizer: '
             'texts of <= 3 symbolic characters (graphemes over Sigma_g) and the same templates',
    'thorough': 'additionally texts of 4 symbolic characters, special spellings with symbolic neighbours on both sides, repeated / '
                'interrupted / nested spellings (<pad><pad>, <pa?d>, <<bos>pad>, <bos>?<eos>), every groups x special combination, pad_to_multiple_of 1',
}
OUTSIDE = ['special tokens that are prefixes of one another', 'HuggingFace / dummy tokenizers', 'regex engine internals '
           '(leftmost-first literal alternation modelled, diff-tested)']
ASSUMPTIONS = ['decoding with special tokens kept returns prefix spellings + text + suffix spellings (the text itself when '
               'no prefix/suffix is configured)', 'HashMap order fixed to insertion order']
KNOWN_MATCHERS = {}
P = [ord(c) for c in '<pad>']
B = [ord(c) for c in '<bos>']
TEMPLATES = {
    'sym1': ['w1'], 'sym2': ['w2', 'w1'], 'sym3': ['w3', 'w1', 'w4'], 'sym3b': ['w1', 'w2', 'w1'], 'sym2b': ['w1', 'w1'], 'empty': [],
    'pad': P, 'pad_pre': ['w1'] + P, 'pad_post': P + ['w2'], 'near_pad': P[:4] + ['w1'], 'near_pad2': ['w1'] + P[1:],
    'bos_mid': ['w3'] + B + ['w1'], 'two': B + P, 'lt': [ord('<'), 'w1', ord('>')],
}
E = [ord(c) for c in '<eos>']
X = [ord(c) for c in '<|x|>']
QUICK_TEMPLATES = list(TEMPLATES)
# texts for the special configuration whose tokens contain regex metacharacters
META_TEMPLATES = {'meta_x': ['w1'] + X + ['w2'], 'meta_dot': [ord('a'), 'w1', ord('b')], 'meta_near': X[:2] + ['w1'] + X[3:],
                  'meta_bar': [ord('|'), 'w1', ord('x')]}
TEMPLATES.update(META_TEMPLATES)
# thorough tier only: four symbolic characters, special spellings with symbolic neighbours on both sides, repeated /
# interrupted spellings
TEMPLATES.update({
    'sym4': ['w1', 'w2', 'w3', 'w1'], 'sym4b': ['w4', 'w1', 'w1', 'w2'], 'sym4c': ['w1', 'w1', 'w1', 'w1'],
    'pad_both': ['w2'] + P + ['w1'], 'pad_pad': P + P, 'pad_sym_pad': P + ['w1'] + P, 'broken_pad': P[:3] + ['w1'] + P[3:],
    'bos_sym_eos': B + ['w1'] + E, 'eos_bos': E + B, 'nested': P[:1] + B + P[1:], 'near_bos2': B[:4] + ['w2', 'w1'],
})


def templates(tier):
    return QUICK_TEMPLATES if tier == 'quick' else [t for t in TEMPLATES if t not in META_TEMPLATES]


def shapes(tier):
    out = []
    tnames = templates(tier)
    for t in tnames:
        for sp in ('default', 'bos_eos', 'dup_extra'):
            for g in (False, True):
                for groups in ('Bytes', 'CodePoints'):
                    if tier == 'quick' and (groups == 'CodePoints') != (sp == 'bos_eos'):
                        continue
                    out.append({'kind': 'byte', 'template': t, 'special': sp, 'g': g, 'groups': groups,
                                'pad_to': 128 if (sp == 'dup_extra' and not g) else None})
                    if tier != 'quick' and sp == 'default' and groups == 'Bytes':
                        out.append({'kind': 'byte', 'template': t, 'special': sp, 'g': g, 'groups': groups, 'pad_to': 1})
                out.append({'kind': 'char', 'template': t, 'special': sp, 'g': g})
    for t in (['empty', 'sym2', 'pad_post'] if tier == 'quick' else tnames):
        for g in (False, True):
            out.append({'kind': 'byte', 'template': t, 'special': 'two_prefix', 'g': g, 'groups': 'Bytes', 'pad_to': None})
            out.append({'kind': 'char', 'template': t, 'special': 'two_prefix', 'g': g})
    for t in list(META_TEMPLATES) + ['lt', 'sym2', 'empty']:
        out.append({'kind': 'byte', 'template': t, 'special': 'meta', 'g': False, 'groups': 'Bytes', 'pad_to': None})
        out.append({'kind': 'char', 'template': t, 'special': 'meta', 'g': False})
    for t in ('meta_bar', 'sym2', 'sym1', 'empty'):
        out.append({'kind': 'byte', 'template': t, 'special': 'onebyte', 'g': False, 'groups': 'Bytes', 'pad_to': None})
        out.append({'kind': 'char', 'template': t, 'special': 'onebyte', 'g': False})
    out.sort(key=lambda s: -len(TEMPLATES[s['template']]))
    return out


def run(ctx, shape, opts):
    m = ctx.m
    kind = shape['kind']
    g = shape['g']
    T = BYTE_T if kind == 'byte' else CHAR_T
    tok = byte_tokenizer(ctx, shape) if kind == 'byte' else char_tokenizer(ctx, shape)
    text = template_string(ctx, 'text', TEMPLATES[shape['template']])
    chars = text.chars()
    if g:
        assume_sigma_g(ctx, [c for c in chars if c.sym()])
    ign = ctx.branch(ctx.in_bool('ignore_special_tokens'))
    r = tcall(m, T, 'tokenize', tok, text, ign)
    ctx.require(r.variant == 'Ok', 'tokenize succeeds')
    ids = r.fields[0].get('token_ids').items
    ctx.out('ids', VecObj(ids))
    spec = expected_special_tokens(shape, kind)
    nreg = 256 if kind == 'byte' else len(unique(CHARS))
    tokens, padname, prefix, suffix = SPECIALS[shape['special']]
    pre = [nreg + spec.index(x) for x in prefix]
    suf = [nreg + spec.index(x) for x in suffix]
    segs = [('c', c) for c in chars] if ign else scan_specials(ctx, chars, unique(tokens) if kind == 'byte' else unique(tokens + ['<unk>']))
    from models_core import char_utf8_bytes
    exp = [Int(i, 'u32') for i in pre]
    if kind == 'byte':
        for s in segs:
            if s[0] == 's':
                exp.append(Int(nreg + s[1], 'u32'))
            else:
                exp.extend(m.cast(b, 'u32', 'IntToInt') for b in char_utf8_bytes(ctx, s[1]))
    else:
        # one id per character unit; unknown id for characters outside the alphabet / multi-code-point clusters
        unk = nreg + spec.index('<unk>')
        alphabet = unique(CHARS)
        run_chars = []

        def flush():
            if not run_chars:
                return
            for a, b in units_of(ctx, run_chars, g):
                if b - a > 1:
                    exp.append(Int(unk, 'u32'))
                    continue
                c = run_chars[a]
                if isinstance(c.v, int):
                    exp.append(Int(alphabet.index(chr(c.v)) if chr(c.v) in alphabet else unk, 'u32'))
                else:
                    t = z3.BitVecVal(unk, 32)
                    for k in range(len(alphabet) - 1, -1, -1):
                        t = z3.If(c.v == ord(alphabet[k]), z3.BitVecVal(k, 32), t)
                    exp.append(Int(t, 'u32'))
            del run_chars[:]
        for s in segs:
            if s[0] == 's':
                flush()
                exp.append(Int(nreg + s[1], 'u32'))
            else:
                run_chars.append(s[1])
        flush()
    exp.extend(Int(i, 'u32') for i in suf)
    ctx.require(len(ids) == len(exp) and m.conj([m.eq(a, b) for a, b in zip(ids, exp)]) if len(ids) == len(exp) else False,
                'token ids == prefix ids + one id per byte / character (special occurrences as their id) + suffix ids')
    # round trip with special tokens kept
    d = tcall(m, T, 'de_tokenize', tok, SliceRef(list(ids), 0, len(ids)), False)
    ctx.out('decoded', d)
    pre_s = [Int(ord(ch), 'char') for x in prefix for ch in x]
    suf_s = [Int(ord(ch), 'char') for x in suffix for ch in x]
    if kind == 'byte':
        ctx.require(d.variant == 'Ok' and ctx.must(chars_equal(ctx, out_chars(ctx, d.fields[0]), pre_s + list(chars) + suf_s)),
                    'decoding with special tokens kept returns the original text (between the prefix / suffix spellings)')
    else:
        # round trip over the alphabet: only when no unknown id was produced
        unk_id = Int(nreg + spec.index('<unk>'), 'u32')
        if ctx.must(m.conj([m.bnot(m.eq(e, unk_id)) for e in exp[len(pre):len(exp) - len(suf)]])):
            ctx.require(d.variant == 'Ok' and ctx.must(chars_equal(ctx, out_chars(ctx, d.fields[0]), pre_s + list(chars) + suf_s)),
                        'decoding round-trips every text over the alphabet')
    ctx.sample = {'kind': kind, 'template': shape['template'], 'special': shape['special'], 'graphemes': g,
                  'ignore_special_tokens': ign, 'ids': len(ids)}


def _unk_only_from_literal(segs, spec):
    return False


# ------------------------------------------------------------------ native side

def _nshape(shape):
    d = dict(shape)
    tokens, pad, prefix, suffix = SPECIALS[shape['special']]
    d.update({'tokens': tokens, 'pad': pad, 'prefix': prefix, 'suffix': suffix})
    return d


def native_outputs(native, shape, inputs):
    k, v = native_ok(native.call('tokenize_roundtrip', shape=_nshape(shape), text=inputs['text'],
                                 ign=bool(inputs['ignore_special_tokens'])))
    if k != 'ok':
        return {'panic': v}
    return {'ids': v['ids'], 'decoded': v['decoded'], '_groups': v.get('groups')}


def concrete_check(native, inputs, shape):
    kind, g = shape['kind'], shape['g']
    o = native_outputs(native, shape, inputs)
    if 'panic' in o:
        return ['no panic']
    text = inputs['text']
    ign = bool(inputs['ignore_special_tokens'])
    spec = expected_special_tokens(shape, kind)
    nreg = 256 if kind == 'byte' else len(unique(CHARS))
    tokens, padname, prefix, suffix = SPECIALS[shape['special']]
    pre = [nreg + spec.index(x) for x in prefix]
    suf = [nreg + spec.index(x) for x in suffix]
    segs = [('c', c) for c in text] if ign else scan_specials_py(text, unique(tokens) if kind == 'byte' else unique(tokens + ['<unk>']))
    exp = list(pre)
    has_unk = False
    if kind == 'byte':
        for s in segs:
            if s[0] == 's':
                exp.append(nreg + s[1])
            else:
                exp.extend(chr(s[1]).encode('utf-8'))
    else:
        unk = nreg + spec.index('<unk>')
        alphabet = unique(CHARS)
        runc = []

        def flush():
            nonlocal has_unk
            if not runc:
                return
            if g:
                lens = native.call('graphemes', s=runc)['ok']
            else:
                lens = [1] * len(runc)
            a = 0
            for l in lens:
                if l > 1 or chr(runc[a]) not in alphabet:
                    exp.append(unk)
                    has_unk = True
                else:
                    exp.append(alphabet.index(chr(runc[a])))
                a += l
            del runc[:]
        for s in segs:
            if s[0] == 's':
                flush()
                exp.append(nreg + s[1])
            else:
                runc.append(s[1])
        flush()
    exp.extend(suf)
    failed = []
    if o['ids'] != exp:
        failed.append('token ids == prefix ids + one id per byte / character (special occurrences as their id) + suffix ids')
    full = [ord(ch) for x in prefix for ch in x] + list(text) + [ord(ch) for x in suffix for ch in x]
    if kind == 'byte':
        if o['decoded'] != {'Ok': full}:
            failed.append('decoding with special tokens kept returns the original text (between the prefix / suffix spellings)')
    elif not has_unk and o['decoded'] != {'Ok': full}:
        failed.append('decoding round-trips every text over the alphabet')
    return failed


def _case(kind, text, sp='default', g=False, ign=False, groups='Bytes', pad_to=None):
    cps = [ord(c) for c in text]
    sh = {'kind': kind, 'template': 'sym1', 'special': sp, 'g': g}
    if kind == 'byte':
        sh.update({'groups': groups, 'pad_to': pad_to})
    return (sh, {'text': cps, 'ignore_special_tokens': ign})


FIXED_CASES = [_case('byte', 'a täst'), _case('byte', 'a<pad>b<bos>', 'bos_eos', True), _case('byte', 'a<pad>b', 'default', False, True),
               _case('char', 'a täst', 'default', True), _case('char', 'x<bos>y<pa', 'bos_eos'), _case('byte', '<x><pad', 'dup_extra', pad_to=128)]


def random_case(rng):
    pool = ['a', 'b', '<', '>', 'p', 'ä', '中', '😀', ' ', '<pad>', '<bos>', '<eos>', '<x>', '<pa', 'é', '́']
    text = ''.join(rng.choice(pool) for _ in range(rng.randint(0, 5)))
    kind = rng.choice(['byte', 'char'])
    return _case(kind, text, rng.choice(['default', 'bos_eos', 'dup_extra']), rng.random() < 0.5, rng.random() < 0.4,
                 rng.choice(['Bytes', 'CodePoints']), rng.choice([None, 128]))
