"""C06: Batched partitions the item stream and respects the batch limit."""
import z3
from values import *
from harnesses.hlib import *
from models_core import ListIter

PROPERTY = 'C06'
VALIDATE_MODELS = []
VALIDATION_CASES = {'quick': 200, 'thorough': 600}
TIME_BUDGET = {'quick': 900, 'thorough': 3300}
OPTS = {'quick': {'step_budget': 60000}, 'thorough': {'step_budget': 120000}}
BOUNDS = {
    'quick': '0-3 items with symbolic sizes; regime small: sizes < 16, batch_limit < 32, prefetch_factor < 4; regime wide '
             '(<= 2 items): sizes < 2^20, one of batch_limit / prefetch_factor an unconstrained 64-bit symbol and the other '
             'from {0, 3, 2^32, 2^63, 2^64-1}; sort x shuffle x '
             '{BatchSize, PaddedItemSize}; seed symbolic or absent; every random stream (draws / permutations are solver '
             'or fork variables)',
    'thorough': '0-4 items (wide regime <= 3 items)',
}
OUTSIDE = ['more items', 'item sizes >= 2^20 in the wide regime (count * size then overflows usize only for sizes no real '
           'item can have)', 'the ChaCha8 stream itself']
ASSUMPTIONS = ['items are values of a harness type whose ItemSize::size returns its size field',
               'rand modelled as every stream; determinism is checked as absence of draws from unseeded generators']
KNOWN_MATCHERS = {}
VALIDATION_ALLOW_FORKS = True
LT = ['BatchSize', 'PaddedItemSize']
EXTREMES = [0, 3, 1 << 32, 1 << 63, (1 << 64) - 1]


def setup_machine(machine, shape, opts):
    machine.stubs['ItemSize::size'] = lambda ctx, args, ck: ctx.m.peel(args[0]).fields[0]


def shapes(tier):
    n, nw = (3, 2) if tier == 'quick' else (4, 3)
    out = []
    for k in range(n + 1):
        for sort in (False, True):
            for shuffle in (False, True):
                for lt in LT:
                    out.append({'n': k, 'sort': sort, 'shuffle': shuffle, 'limit_type': lt, 'regime': 'small'})
                    if k <= nw:
                        # wide regime: one of (limit, prefetch) is an extreme constant, the other an unconstrained
                        # 64-bit symbol (a fully symbolic 64x64 multiplication is beyond the solver)
                        for ext in EXTREMES:
                            out.append({'n': k, 'sort': sort, 'shuffle': shuffle, 'limit_type': lt, 'regime': 'wide',
                                        'prefetch_const': ext})
                            out.append({'n': k, 'sort': sort, 'shuffle': shuffle, 'limit_type': lt, 'regime': 'wide',
                                        'limit_const': ext})
    out.sort(key=lambda s: (-s['n'] if s['n'] > 1 else -99, s['regime']))
    out = [s for s in out if s['n'] <= 1] + [s for s in out if s['n'] > 1]
    return out


def lim_of(ctx, sizes, lt):
    """limit value of a group of items (z3 / python int): count, or count * max size."""
    m = ctx.m
    if lt == 'BatchSize':
        return Int(len(sizes), 'usize')
    mx = Int(0, 'usize')
    for s in sizes:
        mx = Int(z3.If(z3.UGE(mx.z(), s.z()), mx.z(), s.z()), 'usize') if (mx.sym() or s.sym()) else Int(max(mx.v, s.v), 'usize')
    return m.int_binop('Mul', Int(len(sizes), 'usize'), mx)


def run(ctx, shape, opts):
    m = ctx.m
    n = shape['n']
    lt = shape['limit_type']
    sort, shuffle = shape['sort'], shape['shuffle']
    sizes = [ctx.in_int('size%d' % i, 'usize') for i in range(n)]
    limit = ctx.in_int('limit', 'usize')
    prefetch = ctx.in_int('prefetch', 'usize')
    if ctx.concrete is None and 'prefetch_const' in shape:
        prefetch = Int(shape['prefetch_const'], 'usize')
        ctx.inputs['prefetch'] = prefetch.v
    if ctx.concrete is None and 'limit_const' in shape:
        limit = Int(shape['limit_const'], 'usize')
        ctx.inputs['limit'] = limit.v
    if ctx.concrete is None:
        small = shape['regime'] == 'small'
        for s in sizes:
            ctx.assume(z3.ULT(s.z(), 16 if small else (1 << 20)))
        if small:
            ctx.assume(z3.ULT(limit.z(), 32))
            ctx.assume(z3.ULT(prefetch.z(), 4))
    has_seed = ctx.in_choice('has_seed', 2)
    seed = Some(ctx.in_int('seed', 'u64')) if has_seed else NONE()
    items = [Struct('VItem', [sizes[i], Int(i, 'usize')], ['size', 'id']) for i in range(n)]
    b = m.call('Batched::new', ListIter(items), sort, shuffle, prefetch, limit,
               Enum('BatchLimitType', lt, LT.index(lt), []), seed)
    batches = []
    for _ in range(n + 1):
        v = m.iter_next(ref_to(b))
        if v is STOP:
            break
        batches.append([it.fields[1].v for it in v.items])
    else:
        ctx.fail('the iteration terminates (None after all items were emitted)')
    ctx.out('batches', batches)
    flat = [i for bt in batches for i in bt]
    ctx.require(sorted(flat) == list(range(n)), 'every item appears in exactly one batch')
    ctx.require(all(len(bt) > 0 for bt in batches), 'no batch is empty')
    one = Int(1, 'usize')
    lim_eff = limit if not ctx.branch(m.int_binop('Lt', limit, one)) else one
    for bt in batches:
        if len(bt) > 1:
            ctx.require(m.int_binop('Le', lim_of(ctx, [sizes[i] for i in bt], lt), lim_eff),
                        'every batch with more than one item satisfies the limit')
    if not sort and not shuffle:
        ctx.require(flat == list(range(n)), 'without sort and shuffle the batches concatenate to the input order')
        pos = 0
        for bt in batches:
            nxt = pos + len(bt)
            if nxt < n:
                grp = [sizes[i] for i in range(pos, nxt + 1)]
                ctx.require(m.int_binop('Gt', lim_of(ctx, grp, lt), lim_eff), 'each batch is greedy-maximal')
            pos = nxt
    if has_seed:
        ctx.require(getattr(ctx, 'unseeded_draws', 0) == 0, 'with a seed, no randomness comes from an unseeded generator')
    ctx.sample = {'n': n, 'sort': sort, 'shuffle': shuffle, 'limit_type': lt, 'regime': shape['regime'], 'batches': batches}


# ------------------------------------------------------------------ native side

def native_outputs(native, shape, inputs, seed='given'):
    n = shape['n']
    sd = (inputs.get('seed') if inputs.get('has_seed') else None) if seed == 'given' else seed
    k, v = native_ok(native.call('batched', sizes=[str(inputs['size%d' % i]) for i in range(n)], sort=shape['sort'],
                                 shuffle=shape['shuffle'], prefetch=str(inputs['prefetch']), limit=str(inputs['limit']),
                                 limit_type=shape['limit_type'], seed=None if sd is None else str(sd), _timeout=10.0))
    if k == 'timeout':
        return {'timeout': True}
    if k != 'ok':
        return {'panic': v}
    return {'batches': v}


def concrete_check(native, inputs, shape):
    n, lt = shape['n'], shape['limit_type']
    sizes = [inputs['size%d' % i] for i in range(n)]
    if any(s >= (1 << 20) for s in sizes):
        return []
    limit = max(inputs['limit'], 1)
    seeds = ['given']
    if shape['shuffle'] and inputs.get('has_seed'):
        seeds += list(range(30))
    failed = []

    def lim(idx):
        return len(idx) if lt == 'BatchSize' else len(idx) * max([sizes[i] for i in idx] or [0])
    for sd in seeds:
        o = native_outputs(native, shape, inputs, sd)
        if 'timeout' in o:
            return ['the iteration terminates (None after all items were emitted)']
        if 'panic' in o:
            return ['no panic']
        batches = o['batches']
        flat = [i for bt in batches for i in bt]
        if sorted(flat) != list(range(n)):
            failed.append('every item appears in exactly one batch')
        if not all(len(bt) > 0 for bt in batches):
            failed.append('no batch is empty')
        for bt in batches:
            if len(bt) > 1 and lim(bt) > limit:
                failed.append('every batch with more than one item satisfies the limit')
        if not shape['sort'] and not shape['shuffle']:
            if flat != list(range(n)):
                failed.append('without sort and shuffle the batches concatenate to the input order')
            pos = 0
            for bt in batches:
                nxt = pos + len(bt)
                if nxt < n and lim(list(range(pos, nxt + 1))) <= limit:
                    failed.append('each batch is greedy-maximal')
                pos = nxt
        if failed:
            break
    if inputs.get('has_seed') and not failed:
        # the same seed must give the same batches: repeat the run, also with a configuration in which the order of the
        # items is fully visible (one item per batch, everything prefetched)
        probe = dict(inputs, limit=1, prefetch=8)
        for cfg in (inputs, probe):
            first = native_outputs(native, shape, cfg)
            if any(native_outputs(native, shape, cfg) != first for _ in range(6)):
                failed.append('with a seed, no randomness comes from an unseeded generator')
                break
    return sorted(set(failed))


def _case(sizes, sort, shuffle, prefetch, limit, lt, seed=22):
    inp = {'limit': limit, 'prefetch': prefetch, 'has_seed': 1, 'seed': seed}
    for i, s in enumerate(sizes):
        inp['size%d' % i] = s
    return ({'n': len(sizes), 'sort': sort, 'shuffle': shuffle, 'limit_type': lt, 'regime': 'small'}, inp)


FIXED_CASES = [_case([4, 4, 4, 2, 9], False, False, 1, 8, 'PaddedItemSize'), _case([3, 1, 2], False, False, 0, 0, 'BatchSize'),
               _case([1, 2, 3, 4], False, False, 4, 2, 'BatchSize')]


def random_case(rng):
    # only the deterministic mode can be compared output-by-output (random modes are replayed by seed search)
    n = rng.randint(0, 5)
    return _case([rng.choice([0, 1, 2, 3, 5, 9, 40]) for _ in range(n)], False, False, rng.choice([0, 1, 2, 3]),
                 rng.choice([0, 1, 2, 3, 6, 10, 1 << 63, (1 << 64) - 1]), rng.choice(LT), rng.randrange(1 << 64))
