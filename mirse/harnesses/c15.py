"""C15: corrupt::edit_word makes one bounded edit and never touches protected positions."""
import itertools
import z3
from values import *
from harnesses.hlib import *
from models_rand import RngObj
from models_coll import map_insert
from harnesses.c14 import mk_enum

PROPERTY = 'C15'
VALIDATE_MODELS = ['utf8']
VALIDATION_CASES = {'quick': 60, 'thorough': 200}
TIME_BUDGET = {'quick': 900, 'thorough': 3300}
OPTS = {'quick': {'hash_order': 'insertion'}, 'thorough': {'hash_order': 'insertion'}}
BOUNDS = {
    'quick': 'words of 0-2 symbolic characters (widths 1 and 3), every non-empty subset of {insert, delete, replace, swap} '
             'that is a single kind or all four, every exclusion subset, context tables keyed by the contexts of the word '
             'itself (each entry present or absent) with edit lists [x], [yz, empty string] and (grapheme mode) one 2-code-point grapheme cluster, can_delete / can_swap '
             'arbitrary (fresh Boolean per call), full_delete both, grapheme-mode words that contain the cluster CR LF or e + U+0301 next to symbolic letters, every random stream; chains of 2 edits for 1-character '
             'words; code-point mode and grapheme mode over ASCII letters; the corrupt_spelling driver (artificial mode, delete + swap) on '
             'the texts ab, abc, a with symbolic seed and per-character edit probability',
    'thorough': 'words of 0-3 characters, all 15 kind subsets, chains of 2 edits up to 2 characters',
}
OUTSIDE = ['edit strings that merge with their neighbours into one grapheme cluster in grapheme mode (an edit string that is itself a multi-code-point cluster is inside)',
           'exclusion indices outside the word', 'the realistic / mixed modes of the corrupt_spelling driver (misspelling files, character table)',
           'HashSet iteration order fixed to insertion order (results compared as sets)']
ASSUMPTIONS = ['rand modelled as every stream', 'can_delete / can_swap are arbitrary Boolean functions']
KNOWN_MATCHERS = {}
VALIDATION_ALLOW_FORKS = True
KINDS = ['insert', 'delete', 'replace', 'swap']
TABLES = [(['x'], [1.0]), (['yz', ''], [0.5, 0.5]), (['e\u0301'], [1.0])]   # table 2: one 2-code-point grapheme cluster


def py_units(cps, g):
    """units of a concrete word over the alphabet used here: CR LF and base + U+0301 are one cluster in grapheme mode"""
    out = []
    for c in cps:
        if g and out and ((c == 0x301 and out[-1][-1] not in (13, 10)) or (c == 10 and out[-1] == [13])):
            out[-1].append(c)
        else:
            out.append([c])
    return out


def flat(units):
    return [c for u in units for c in u]


def t_units(t, g):
    """edit string (list of chars) as units of the mode"""
    if g and len(t) == 2 and (t[1].v if hasattr(t[1], 'v') else t[1]) == 0x301:
        return [list(t)]
    return [[c] for c in t]


def tlen(t, g):
    """length of an edit string in characters of the mode (the cluster e + U+0301 is one grapheme)"""
    return 1 if (g and len(t) == 2 and t[1].v == 0x301) else len(t)


def shapes(tier):
    out = []
    nmax = 2 if tier == 'quick' else 3
    if tier == 'quick':
        ksets = [[k] for k in KINDS] + [KINDS]
    else:
        ksets = [list(c) for r in range(1, 5) for c in itertools.combinations(KINDS, r)]
    for n in range(nmax + 1):
        for ws in itertools.product((1, 3), repeat=n):
            for ks in ksets:
                for g in (False, True):
                    if g and any(w != 1 for w in ws):
                        continue
                    for tbl in range(len(TABLES)):
                        chain = 2 if (n <= (1 if tier == 'quick' else 2) and len(ks) > 1) else 1
                        if tbl == 2:
                            # the multi-code-point cluster only matters in grapheme mode and for insert / replace
                            if not g or not ({'insert', 'replace'} & set(ks)):
                                continue
                            chain = 1
                        out.append({'widths': list(ws), 'kinds': ks, 'g': g, 'table': tbl, 'chain': chain})
    # grapheme mode: words that contain a multi-code-point cluster (CR LF, e + U+0301) next to symbolic letters
    for tm in (['l', 13, 10], [13, 10, 'l'], ['l', 13, 10, 'l'], ['l', 0x65, 0x301]) + (() if tier == 'quick' else ([0x65, 0x301, 'l', 'l'],)):
        for ks in ([[k] for k in KINDS] + ([KINDS] if (len(tm) < 4 or tier != 'quick') else [])):
            out.append({'widths': [1] * len(tm), 'tmpl': tm, 'kinds': ks, 'g': True, 'table': 0, 'chain': 1})
    for word in (['ab', 'abc', 'a'] if tier == 'quick' else ['ab', 'abc', 'a', 'abcd', 'ab cd']):
        for fd in (False, True):
            out.append({'part': 'driver', 'text': word, 'full_delete': fd, 'widths': [1] * len(word), 'kinds': ['delete', 'swap'], 'chain': 0})
    out.sort(key=lambda s: -(len(s['widths']) * 3 + len(s['kinds']) + s['chain']))
    return out


def chain_reachable(word, full_delete):
    """Reference for the corrupt_spelling chain with delete / swap on alphabetic words: every word reachable by 1..len(word)
    edits where each edit avoids the positions recorded by the previous ones (exclusion set handed on along the chain)."""
    n0 = len(word)
    seen = set()
    res = set()

    def step(w, excl, left, done):
        if done >= 1:
            res.add(w)        # num_edits may be any number in 1..n0
        if left == 0:
            return
        key = (w, frozenset(excl), left, done)
        if key in seen:
            return
        seen.add(key)
        n = len(w)
        step(w, excl, left - 1, done + 1)        # an edit kind without candidates leaves the word unchanged
        if full_delete or n > 1:
            for i in range(n):
                if i not in excl:
                    step(w[:i] + w[i + 1:], {(e - 1 if e > i else e) for e in excl}, left - 1, done + 1)
        for i in range(n - 1):
            if i not in excl and i + 1 not in excl:
                step(w[:i] + w[i + 1] + w[i] + w[i + 2:], set(excl) | {i, i + 1}, left - 1, done + 1)
    step(word, set(), n0, 0)
    return res


def run_driver(ctx, shape, opts):
    """corrupt_spelling (artificial mode, delete + swap): edit_word is chained with the returned exclusion set"""
    m = ctx.m
    seed = ctx.in_int('seed', 'u64')
    charp = ctx.in_fp('char_p')
    if ctx.concrete is None:
        ctx.assume(z3.And(z3.fpGEQ(charp.v, z3.FPVal(0.0, z3.Float64())), z3.fpLEQ(charp.v, z3.FPVal(1.0, z3.Float64()))))
    calls = []

    entered = []

    def on_entry(c, args):
        ex = c.m.peel(args[7])      # read at entry: the set is moved into the function and updated in place
        entered.append(None if ex.variant == 'None' else {e[0].v for e in c.m.peel(ex.fields[0]).entries})

    def observe(c, args, ret):
        rs = {e[0].v for e in c.m.peel(ret.fields[1]).entries}
        calls.append((c.m.peel(args[0]).concrete(), entered.pop(), c.m.peel(ret.fields[0]).as_str().concrete(), rs))
    m.entry_observers['edit_word'] = on_entry
    m.observers['edit_word'] = observe
    ctx.unseeded_draws = 0
    ctx.rng_seed_terms = []
    try:
        cfg = mk_enum(m, 'PreprocessingFnConfig', 'SpellingCorruption', [mk_enum(m, 'Part', 'Input'), FP(1.0, 'f64'), shape['full_delete'],
                                                                    mk_enum(m, 'SpellingCorruptionMode', 'Artificial', [charp, FP(1.0, 'f64'), NONE()])])
        pf = m.call('preprocessing', cfg)
        item = Struct('TrainData', [m.new_string(shape['text']), m.new_string('t')], ['input', 'target'])
        info = Struct('TextDataInfo', [seed, Int(0, 'usize'), MapObj('HashMap')], ['seed', 'file_idx', 'marks'])
        r = m.call_value(pf, [item, info])
    finally:
        m.observers.pop('edit_word', None)
        m.entry_observers.pop('edit_word', None)
    ctx.require(r.variant == 'Ok', 'spelling corruption succeeds')
    got = m.peel(r.fields[0].fields[0]).get('input').as_str().concrete()
    if ctx.outputs is not None:
        ctx.outputs['ok'] = True
    ctx.require(got is not None and bool(calls), 'every word is edited at least once when the corruption probability is 1')
    # the chain: the first call of a word starts from the empty set, every later call receives what the previous returned
    words = shape['text'].split(' ')
    k = 0
    outw = []
    for w in words:
        prev = None
        cur = w
        first = True
        while k < len(calls) and calls[k][0] == cur:
            wi, ex, wo, rs = calls[k]
            if first:
                ctx.require(not ex, 'the first edit of a word starts from an empty exclusion set')
            else:
                ctx.require((ex or set()) == prev, 'corrupt_spelling hands the exclusion set returned by one edit to the next edit of the word')
            prev, cur, first = rs, wo, False
            k += 1
            if len(cur) == 0:
                break
        ctx.require(not first, 'every word is edited at least once when the corruption probability is 1')
        ctx.require(cur in chain_reachable(w, shape['full_delete']), 'chained edits never touch a position that an earlier edit of the chain produced')
        if cur:
            outw.append(cur)
    ctx.require(k == len(calls), 'edit_word is called only for the words of the text, in order')
    ctx.require(got == ' '.join(outw), 'the result is the edited words joined by single spaces (fully deleted words dropped)')
    ctx.require(ctx.unseeded_draws == 0, 'no randomness from an unseeded generator')
    for sd in ctx.rng_seed_terms:
        ctx.require(m.eq(sd, seed), 'the generator is seeded with info.seed')
    ctx.sample = {'driver': shape['text'], 'result': got, 'edits': len(calls)}


BOW = '<bow>'
EOW = '<eow>'


def cow(ctx, x):
    """Cow::Owned(String) of a char list or a python string."""
    if isinstance(x, str):
        return Enum('Cow', 'Owned', 1, [ctx.m.new_string(x)])
    buf = StrBuf(x, [ctx.char_width(c) for c in x])
    return Enum('Cow', 'Owned', 1, [StringObj(buf)])


def edits_value(ctx, tbl):
    edits, weights = TABLES[tbl]
    return Tup([VecObj([ctx.m.new_string(e) for e in edits]), VecObj([FP(w, 'f64') for w in weights])])


def build_tables(ctx, chars, tbl, present_ins, present_rep):
    """InsertEdits / ReplaceEdits whose keys are the contexts occurring in the word (`chars`: list of units)."""
    n = len(chars)
    ins = MapObj('HashMap')
    for idx in range(n + 1):
        if not present_ins[idx]:
            continue
        prev = list(chars[idx - 1]) if idx > 0 else BOW
        cur = list(chars[idx]) if idx < n else EOW
        map_insert(ctx, ins, Tup([cow(ctx, prev), cow(ctx, cur)]), edits_value(ctx, tbl))
    rep = MapObj('HashMap')
    for idx in range(n):
        if not present_rep[idx]:
            continue
        prev = list(chars[idx - 1]) if idx > 0 else BOW
        nxt = list(chars[idx + 1]) if idx + 1 < n else EOW
        map_insert(ctx, rep, Tup([cow(ctx, prev), cow(ctx, list(chars[idx])), cow(ctx, nxt)]), edits_value(ctx, tbl))
    return (Struct('InsertEdits', [ins], ['insertions']), Struct('ReplaceEdits', [rep], ['replacements']))


def candidates(word, excl, kinds, tbl, g=False):
    """All results one edit may legally produce: list of (kind, new_word(list of units), new_excl(set)); `word` is a list
    of units (each a list of chars), positions are unit indices."""
    n = len(word)
    out = []
    texts = [t_units([Int(ord(c), 'char') for c in e], g) for e in TABLES[tbl][0]]
    tlen = lambda t, g: len(t)
    if 'insert' in kinds:
        for idx in range(n + 1):
            if idx in excl or (idx > 0 and idx - 1 in excl):
                continue
            for t in texts:
                ne = {(e + tlen(t, g) if e >= idx else e) for e in excl} | set(range(idx, idx + tlen(t, g)))
                out.append(('insert', word[:idx] + t + word[idx:], ne))
    if 'delete' in kinds:
        for idx in range(n):
            if idx in excl:
                continue
            out.append(('delete', word[:idx] + word[idx + 1:], {(e - 1 if e > idx else e) for e in excl}))
    if 'replace' in kinds:
        for idx in range(n):
            if idx in excl:
                continue
            for t in texts:
                ne = {(e + tlen(t, g) - 1 if e > idx else e) for e in excl} | set(range(idx, idx + tlen(t, g)))
                out.append(('replace', word[:idx] + t + word[idx + 1:], ne))
    if 'swap' in kinds:
        for idx in range(n - 1):
            if idx in excl or idx + 1 in excl:
                continue
            out.append(('swap', word[:idx] + [word[idx + 1], word[idx]] + word[idx + 2:], excl | {idx, idx + 1}))
    return out


def run(ctx, shape, opts):
    if shape.get('part') == 'driver':
        return run_driver(ctx, shape, opts)
    m = ctx.m
    g = shape['g']
    kinds = shape['kinds']
    tbl = shape['table']
    tmpl = shape.get('tmpl')
    if tmpl and ctx.concrete is None:
        # word template: 'l' = symbolic letter, integers = concrete code points (CR LF, e + U+0301: multi-code-point clusters)
        chars = [ctx.sym_char('word_c%d' % i, 1) if t == 'l' else Int(t, 'char') for i, t in enumerate(tmpl)]
        ctx.inputs['word'] = chars
        buf = StrBuf(chars, [ctx.char_width(c) for c in chars])
        s = StrRef(buf, 0, buf.byte_len())
    else:
        s = ctx.in_string('word', shape['widths'])
        chars = s.chars()
    if ctx.concrete is None:
        for c in chars:
            if ctx.char_width(c) == 1 and c.sym():
                # letters other than the edit alphabet x, y, z (so that inserted text is recognisable)
                ctx.assume(z3.And(z3.UGE(c.v, 0x61), z3.ULE(c.v, 0x77)))
    units0 = [list(chars[a:b]) for a, b in units_of(ctx, chars, g)]
    n = len(units0)
    excl = {i for i in range(n) if ctx.in_choice('excl%d' % i, 2)}
    present_ins = [ctx.in_choice('ins%d' % i, 2) for i in range(n + 1)] if 'insert' in kinds else [0] * (n + 1)
    present_rep = [ctx.in_choice('rep%d' % i, 2) for i in range(n)] if 'replace' in kinds else [0] * n
    full_delete = bool(ctx.in_choice('full_delete', 2)) if 'delete' in kinds else False
    ins, rep = build_tables(ctx, units0, tbl, present_ins, present_rep)
    answers = []

    def pred(c, *a):
        b = ctx.in_bool('pred%d' % len(answers))
        answers.append(b)
        return b
    dele = Struct('DeleteEdits', [full_delete, PyFn(pred, 'can_delete')], ['full_delete', 'can_delete'])
    swp = Struct('SwapEdits', [PyFn(pred, 'can_swap')], ['can_swap'])
    rng = RngObj('seeded', Int(0, 'u64'))
    word = units0
    cur = s
    cur_excl = set(excl)
    outs = []
    for step in range(shape['chain']):
        es = MapObj('HashSet', [[Int(e, 'usize'), None] for e in sorted(cur_excl)])
        r = m.call('edit_word', cur, g, ref_to(rng),
                   Some(ref_to(ins)) if 'insert' in kinds else NONE(),
                   Some(ref_to(dele)) if 'delete' in kinds else NONE(),
                   Some(ref_to(rep)) if 'replace' in kinds else NONE(),
                   Some(ref_to(swp)) if 'swap' in kinds else NONE(),
                   Some(es))
        nw = r.fields[0]
        ne_items = [e[0] for e in m.peel(r.fields[1]).entries]
        ctx.require(all(isinstance(e.v, int) for e in ne_items), 'exclusion indices are concrete on every path')
        ne = {e.v for e in ne_items}
        nwc = list(out_chars(ctx, nw))
        outs.append([to_py(ctx, nw), sorted(ne)])
        # ---- oracle
        alts = [m.conj([chars_equal(ctx, nwc, flat(word)), ne == cur_excl])]
        for kind, cw, ce in candidates(word, cur_excl, kinds, tbl, g):
            alts.append(m.conj([chars_equal(ctx, nwc, flat(cw)), ne == ce]))
        ctx.require(m.disj(alts), 'result is the word unchanged or exactly one edit of an enabled kind at an unprotected '
                                  'position, with the exclusion set re-indexed plus the edited positions')
        nunits_ = [list(nwc[a:b]) for a, b in units_of(ctx, nwc, g)]
        nunits = len(nunits_)
        ctx.require(all(0 <= e < nunits for e in ne), 'returned exclusion indices lie inside the new word')
        word = nunits_
        cur = m.peel(nw).as_str()
        cur_excl = ne
    ctx.out('steps', outs)
    ctx.sample = {'n': n, 'kinds': kinds, 'graphemes': g, 'excluded': sorted(excl), 'chain': shape['chain'],
                  'result_lengths': [len(o[0]) for o in outs]}


# ------------------------------------------------------------------ native side

def _native_run(native, shape, inputs, seed):
    w = py_units(inputs['word'], shape['g'])
    n = len(w)
    kinds = shape['kinds']
    ins_entries, rep_entries = [], []
    edits, weights = TABLES[shape['table']]
    ed = [[ord(c) for c in e] for e in edits]
    for idx in range(n + 1):
        if 'insert' in kinds and inputs.get('ins%d' % idx):
            prev = w[idx - 1] if idx > 0 else [ord(c) for c in BOW]
            cur = w[idx] if idx < n else [ord(c) for c in EOW]
            ins_entries.append({'prev': prev, 'cur': cur, 'edits': ed, 'weights': weights})
    for idx in range(n):
        if 'replace' in kinds and inputs.get('rep%d' % idx):
            prev = w[idx - 1] if idx > 0 else [ord(c) for c in BOW]
            nxt = w[idx + 1] if idx + 1 < n else [ord(c) for c in EOW]
            rep_entries.append({'prev': prev, 'cur': w[idx], 'next': nxt, 'edits': ed, 'weights': weights})
    preds = []
    k = 0
    while ('pred%d' % k) in inputs:
        preds.append(bool(inputs['pred%d' % k]))
        k += 1
    return native.call('edit_word_chain', word=inputs['word'], g=shape['g'], kinds=kinds, ins=ins_entries, rep=rep_entries,
                       full_delete=bool(inputs.get('full_delete', 0)), preds=preds,
                       excl=[i for i in range(n) if inputs.get('excl%d' % i)], chain=shape['chain'], seed=str(seed))


def native_outputs(native, shape, inputs):
    if shape.get('part') == 'driver':
        return {'ok': True}
    k, v = native_ok(_native_run(native, shape, inputs, inputs.get('native_seed', 0)))
    if k != 'ok':
        return {'panic': v}
    return {'steps': v}


def concrete_check(native, inputs, shape):
    if shape.get('part') == 'driver':
        # the real driver over many seeds: every result must be reachable by a chain that respects the exclusion sets
        failed = []
        for cp in (1.0, 0.5):
            k, v = native_ok(native.call('corrupt_spelling_run', text=shape['text'], full_delete=shape['full_delete'], char_p=cp,
                                         seeds=list(range(400)), _timeout=60.0))
            if k != 'ok':
                return ['no panic']
            ok_sets = [chain_reachable(w, shape['full_delete']) for w in shape['text'].split(' ')]
            import itertools as _it
            allowed = {' '.join(x for x in combo if x) for combo in _it.product(*ok_sets)}
            if any(o not in allowed for o in v):
                failed = ['chained edits never touch a position that an earlier edit of the chain produced',
                          'corrupt_spelling hands the exclusion set returned by one edit to the next edit of the word']
                break
        return failed
    kinds, tbl = shape['kinds'], shape['table']
    failed = set()
    for seed in range(48):
        k, v = native_ok(_native_run(native, shape, inputs, seed))
        if k != 'ok':
            return ['no panic']
        word = [[Int(c, 'char') for c in u] for u in py_units(inputs['word'], shape['g'])]
        excl = {i for i in range(len(word)) if inputs.get('excl%d' % i)}
        for nw, ne in v:
            ne = set(ne)
            ok = (nw == [c.v for c in flat(word)] and ne == excl)
            for kind, cw, ce in candidates(word, excl, kinds, tbl, shape['g']):
                if nw == [c.v for c in flat(cw)] and ne == ce:
                    ok = True
            if not ok:
                failed.add('result is the word unchanged or exactly one edit of an enabled kind at an unprotected '
                           'position, with the exclusion set re-indexed plus the edited positions')
            if not all(0 <= e < len(py_units(nw, shape['g'])) for e in ne):
                failed.add('returned exclusion indices lie inside the new word')
            word = [[Int(c, 'char') for c in u] for u in py_units(nw, shape['g'])]
            excl = ne
        if failed:
            break
    return sorted(failed)


def _case(word, kinds, **kw):
    cps = [ord(c) for c in word]
    inp = {'word': cps, 'full_delete': 1}
    for i in range(len(cps)):
        inp['excl%d' % i] = 0
    inp.update(kw)
    return ({'widths': widths_of(cps), 'kinds': kinds, 'g': False, 'table': 0, 'chain': 1}, inp)


# deterministic configurations only (a single candidate edit), so that outputs can be compared one to one
FIXED_CASES = [_case('a', ['delete'], pred0=1), _case('a', ['delete'], pred0=0), _case('ab', ['swap'], pred0=1),
               _case('', ['delete']), _case('b', ['replace'], rep0=1), _case('', ['insert'], ins0=1),
               _case('ab', ['swap'], pred0=1, excl0=1)]


def random_case(rng):
    return rng.choice(FIXED_CASES)
