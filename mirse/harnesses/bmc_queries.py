"""Property formulas over an unrolled MIRBMC System.  Each returns (formula, expected result: 'unsat' = property holds,
'sat' = reachability witness / vacuity guard)."""
import z3
from mirbmc import BVI, bv, DONE


def final(s):
    return s.shared[s.K]


def q_witness_complete(s, job, n):
    f = final(s)
    return z3.And(f.consumer_none, f.rcount == n, n == job['N']), 'sat'


def q_safety(s, job, n):
    f = final(s)
    N = job['N']
    bad = [z3.And(z3.UGT(f.rcount, j), f.rseq[j] != j) for j in range(N)]            # lost / duplicated / reordered
    bad += [z3.UGT(f.processed[j], 1) for j in range(N)]                              # processed more than once
    bad += [z3.And(z3.UGT(f.rcount, j), f.processed[j] == 0) for j in range(N)]       # received but never processed
    bad += [z3.And(f.consumer_none, f.rcount != n)]                                   # end of stream before the last item
    return z3.Or(*bad), 'unsat'


def q_stuck(s, job, n):
    return s.stuck(s.K), 'unsat'


def q_termination(s, job, n):
    # K = progress bound + 1: an execution in which every step makes progress would exceed the bound
    return z3.And(*s.progress), 'unsat'


def q_lookahead(s, job, n):
    f = final(s)
    return z3.UGT(f.pulled - f.rcount, job['lookahead_bound']), 'unsat'


def q_lookahead_tight(s, job, n):
    f = final(s)
    return f.pulled - f.rcount == job['lookahead_bound'], 'sat'


def q_drop_pulls(s, job, n):
    f = final(s)
    return z3.And(f.ghost != DONE, z3.Not(f.recv_alive), z3.UGT(f.pulled - f.ghost, job['drop_bound'])), 'unsat'


def q_drop_stuck(s, job, n):
    f = final(s)
    return z3.And(z3.Not(f.recv_alive), s.stuck(s.K, need_consumer=False)), 'unsat'


def q_drop_witness(s, job, n):
    f = final(s)
    return z3.And(z3.Not(f.recv_alive), s.all_workers_done(s.K)), 'sat'


def q_drop_join_blocks(s, job, n):
    # the consumer's Drop impl joins the background thread(s) before the receiver is dropped: dropping at a state in
    # which a thread is blocked (and only the consumer could unblock it) never returns
    f = final(s)
    return z3.And(f.recv_alive, s.workers_blocked(s.K)), 'unsat'


def q_panic(s, job, n):
    f = final(s)
    return z3.And(f.panicked, z3.Not(f.exited)), 'unsat'


def q_panic_witness(s, job, n):
    f = final(s)
    return f.panicked, 'sat'


QUERIES = {'witness': q_witness_complete, 'safety': q_safety, 'stuck': q_stuck, 'termination': q_termination,
           'lookahead': q_lookahead, 'lookahead_tight': q_lookahead_tight, 'drop_pulls': q_drop_pulls,
           'drop_stuck': q_drop_stuck, 'drop_witness': q_drop_witness, 'drop_join_blocks': q_drop_join_blocks, 'panic': q_panic, 'panic_witness': q_panic_witness}
