"""C20: Dictionary::create counts exactly, keeps the top entries, for any thread count; save/load; get_closest."""
import itertools
import z3
from values import *
from harnesses.hlib import *

PROPERTY = 'C20'
VALIDATE_MODELS = ['ws', 'utf8']
VALIDATION_CASES = {'quick': 60, 'thorough': 200}
TIME_BUDGET = {'quick': 900, 'thorough': 3300}
OPTS = {'quick': {'hash_order': 'insertion', 'step_budget': 3000000}, 'thorough': {'hash_order': 'insertion', 'step_budget': 6000000}}
BOUNDS = {
    'quick': 'corpora of 1-2 files with 0-3 lines in total (blank lines included), 0-2 words per line, words of 1-2 symbolic letters over {a, b} (character modes with at most 3 words: {a, b, #}); '
             'max_size in {None, 0, 1, 2, 5}, max_sequences in {None, 1, 2}, word mode and character mode (1-grams, 3-grams), '
             'num_threads in {0, 2} (worker threads sequentialised, the order in which their results reach the reducer is '
             'arbitrary for corpora of <= 2 lines); save -> load; get_closest for a symbolic query of 1-3 letters under both distance measures',
    'thorough': 'up to 4 lines, 3 words per line',
}
OUTSIDE = ['real files / text encodings', 'alphabets other than ASCII letters (the word-part regex and NFKC normalisation are '
           'modelled on ASCII)', 'true thread interleavings inside a line computation (lines are independent, see C05 for the '
           'mutex / channel protocol)', 'progress bar']
ASSUMPTIONS = ['files are in-memory line lists', 'thread::spawn + sync_channel sequentialised: spawned closures run to completion '
               'when the reducer first blocks; message order arbitrary', 'HashMap order fixed to insertion order (results compared as maps)']
KNOWN_MATCHERS = {}
VALIDATION_ALLOW_FORKS = True   # thread / message order choices fork even on concrete corpora
MAXSIZES = [None, 0, 1, 2, 5]
MAXSEQ = [None, 1, 2]


def shapes(tier):
    out = []
    layouts = [[], [[1]], [[2]], [[1], [1]], [[2], [1]], [[1], [2]], [[1], [1], [1]], [[2], [2]]]
    if tier != 'quick':
        layouts += [[[2], [1], [2]], [[3], [1]], [[1], [1], [1], [1]]]
    blank = [[[0]], [[0], [1]], [[1], [0], [1]], [[2], [0]], [[0], [0], [1]]]   # blank lines count nothing and end nothing
    for lay in blank:
        for th in (0, 2):
            for mode in ('word', 'char1'):
                out.append({'layout': lay, 'max_size': None, 'max_seq': None, 'mode': mode, 'threads': th, 'split_files': False})
    for lay in layouts:
        for ms in MAXSIZES:
            for mq in MAXSEQ:
                if mq is not None and mq > len(lay):
                    continue
                for mode in ('word', 'char1', 'char3'):
                    if mode != 'word' and (ms in (0, 5) or mq == 2):
                        continue
                    base = {'layout': lay, 'max_size': ms, 'max_seq': mq, 'mode': mode, 'threads': 2 if len(lay) > 1 else 0,
                            'split_files': len(lay) == 2}
                    if mode == 'word' and ms is None and mq is None and lay:
                        # get_closest: one shape per (query length, distance measure)
                        for ql in (1, 2, 3):
                            for nm in (0, 1):
                                if ql == 3 and sum(l[0] for l in lay) > 3 and tier == 'quick':
                                    continue
                                out.append(dict(base, closest=[ql, nm]))
                    else:
                        out.append(base)
    out.sort(key=lambda s: -sum(sum(l) for l in s['layout']))
    return out


def setup_machine(machine, shape, opts):
    machine.stubs['progress_bar'] = lambda ctx, args, ck: Opaque('ProgressBar')
    machine.stubs['utils::progress_bar'] = machine.stubs['progress_bar']
    machine.chan_order_all = shape is None or len(shape['layout']) <= 2
    machine.files = {}
    machine.pending_threads = []


def word_value(ctx, name, nletters, alpha=(0x61, 0x62)):
    s = ctx.in_string(name, [1] * nletters)
    if ctx.concrete is None:
        for c in s.chars():
            ctx.assume(z3.Or(*[c.v == a for a in alpha]))
    return s.chars()


def lev(ctx, a, b):
    """reference Levenshtein distance over symbolic letters"""
    d = [[0] * (len(b) + 1) for _ in range(len(a) + 1)]
    for i in range(len(a) + 1):
        d[i][0] = i
    for j in range(len(b) + 1):
        d[0][j] = j
    for i in range(1, len(a) + 1):
        for j in range(1, len(b) + 1):
            same = ctx.branch(ctx.m.eq(a[i - 1], b[j - 1]))
            d[i][j] = min(d[i - 1][j] + 1, d[i][j - 1] + 1, d[i - 1][j - 1] + (0 if same else 1))
    return d[len(a)][len(b)]


def tokens_of_line(words, mode):
    """token = list of chars (word mode / char1) or list of token pieces for 3-grams ('<bow>' / '<eow>' strings or [char])"""
    toks = []
    for w in words:
        if mode == 'word':
            toks.append(('w', tuple(range(len(w))), w))
        elif mode == 'char1':
            for c in w:
                toks.append(('c', None, [c]))
        else:
            seq = ['<bow>'] + [[c] for c in w] + ['<eow>']
            for k in range(len(seq) - 2):
                win = seq[k:k + 3]
                # the middle element is a letter of the word (always alphabetic): kept
                flat = []
                for n_, piece in enumerate(win):
                    if n_:
                        flat.append(SPACE)
                    flat.extend([Int(ord(x), 'char') for x in piece] if isinstance(piece, str) else piece)
                toks.append(('g', None, flat))
    return [t[2] for t in toks]


def run(ctx, shape, opts):
    m = ctx.m
    m.files = {}
    m.pending_threads = []
    lay = shape['layout']
    lines_words = []
    for li, line in enumerate(lay):
        ws = []
        for wi, nl in enumerate([1 + ((li + wi) % 2) for wi in range(line[0])]):
            # character modes also count punctuation: '#' is in the alphabet there (it starts a line of the saved file)
            ws.append(word_value(ctx, 'w%d_%d' % (li, wi), nl, (0x61, 0x62, 0x23) if (shape['mode'] != 'word' and sum(l[0] for l in lay) <= 3) else (0x61, 0x62)))
        lines_words.append(ws)

    def line_string(ws):
        chars = []
        for k, w in enumerate(ws):
            if k:
                chars.append(SPACE)
            chars.extend(w)
        return StringObj(StrBuf(chars, [1] * len(chars)))
    strs = [line_string(ws) for ws in lines_words]
    if shape['split_files']:
        m.files['f0'] = strs[:1]
        m.files['f1'] = strs[1:]
        paths = [m.str_lit('f0'), m.str_lit('f1')]
    else:
        m.files['f0'] = strs
        paths = [m.str_lit('f0')]
    ms, mq = shape['max_size'], shape['max_seq']
    mode = shape['mode']
    r = m.call('dictionary::<impl at src/dictionary.rs>::create' if False else 'Dictionary::create',
               SliceRef(paths, 0, len(paths)), NONE() if ms is None else Some(Int(ms, 'usize')),
               NONE() if mq is None else Some(Int(mq, 'usize')), Int(shape['threads'], 'u8'), mode != 'word',
               Int(3 if mode == 'char3' else 1, 'u8'), False)
    ctx.require(r.variant == 'Ok', 'Dictionary::create succeeds')
    d = r.fields[0]
    entries = [(e[0], e[1]) for e in m.peel(d.get('inner')).entries]
    ctx.out('items', sorted([[to_py(ctx, k), to_py(ctx, v)] for k, v in entries]) if ctx.outputs is not None else None)
    ctx.out('freq_sum', d.get('freq_sum'))
    # ---- oracle: exact counts of the first max_sequences lines
    counted = lines_words if mq is None else lines_words[:mq]
    toks = []
    for ws in counted:
        toks.extend(tokens_of_line(ws, mode))
    groups = []       # list of [token chars, count]
    for t in toks:
        for gq in groups:
            if ctx.branch(chars_equal(ctx, gq[0], t)):
                gq[1] += 1
                break
        else:
            groups.append([t, 1])
    limit = len(groups) if ms is None else min(ms, len(groups))
    ctx.require(len(entries) == limit, 'the dictionary keeps min(max_size, number of distinct entries) entries (None = unlimited)')
    kept = []
    for k, v in entries:
        kc = out_chars(ctx, k)
        hit = None
        for gq in groups:
            if ctx.branch(chars_equal(ctx, kc, gq[0])):
                hit = gq
                break
        ctx.require(hit is not None, 'every entry is a token of the corpus')
        ctx.require(isinstance(v.v, int) and v.v == hit[1], 'every kept entry has exactly its frequency in the counted lines')
        kept.append(hit)
    ctx.require(len({id(x) for x in kept}) == len(kept), 'entries are distinct')
    omitted = [gq for gq in groups if all(gq is not x for x in kept)]
    if kept and omitted:
        ctx.require(min(x[1] for x in kept) >= max(x[1] for x in omitted), 'no kept entry is less frequent than an omitted one')
    ctx.require(m.eq(d.get('freq_sum'), Int(sum(x[1] for x in kept), 'usize')) is True, 'freq_sum is the total of the kept frequencies')
    # ---- save -> load
    sr = m.call('Dictionary::save', ref_to(d), m.str_lit('dict.txt'))
    ctx.require(sr.variant == 'Ok', 'save succeeds')
    lr = m.call('Dictionary::load', m.str_lit('dict.txt'))
    ctx.require(lr.variant == 'Ok', 'load succeeds on a saved dictionary')
    d2 = lr.fields[0]
    e2 = [(e[0], e[1]) for e in m.peel(d2.get('inner')).entries]
    same = len(e2) == len(entries)
    if same:
        for k, v in entries:
            found = False
            for k2, v2 in e2:
                if ctx.branch(m.eq(k, k2)):
                    found = isinstance(v2.v, int) and v2.v == v.v
                    break
            same = same and found
    ctx.require(same and m.eq(d2.get('freq_sum'), d.get('freq_sum')) is True, 'save followed by load reproduces the dictionary')
    # ---- get_closest
    if mode == 'word' and entries and (ctx.concrete is not None and 'query' in ctx.concrete or
                                       ctx.concrete is None and shape.get('closest')):
        if ctx.concrete is None:
            ql, nm = shape['closest']
            ctx.inputs['qlen'], ctx.inputs['normalized'] = ql - 1, nm
        else:
            ql, nm = ctx.concrete['qlen'] + 1, ctx.concrete.get('normalized', 0)
        q = word_value(ctx, 'query', ql)
        qs = StringObj(StrBuf(q, [1] * len(q)))
        norm = bool(nm)
        meas = m.enum_variants_of('DictionaryDistanceMeasure')
        mname = 'NormalizedEditDistance' if norm else 'EditDistance'
        gc = m.call('Dictionary::get_closest', ref_to(d), qs.as_str(), Enum('DictionaryDistanceMeasure', mname, meas.index(mname), []))
        ctx.require(gc.variant == 'Some', 'get_closest returns an entry of a non-empty dictionary')
        term, freq = gc.fields[0].fields[0], gc.fields[0].fields[1]
        from fractions import Fraction
        # normalised measure: distance divided by the longer length (exact rational comparison)
        dists = [((Fraction(lev(ctx, q, gq[0]), max(len(q), len(gq[0]), 1)) if norm else lev(ctx, q, gq[0])), gq[1], gq) for gq in kept]
        best = min(x[0] for x in dists)
        cands = [x for x in dists if x[0] == best]
        topf = max(x[1] for x in cands)
        tc = out_chars(ctx, term)
        ok = False
        for x in cands:
            if x[1] == topf and ctx.branch(chars_equal(ctx, tc, x[2][0])):
                ok = True
        ctx.require(ok and isinstance(freq.v, int) and freq.v == topf, 'get_closest returns an entry at minimal edit distance, the most frequent among ties')
        ctx.out('closest_freq', freq)
    ctx.sample = {'layout': lay, 'max_size': ms, 'max_seq': mq, 'mode': mode, 'distinct': len(groups), 'kept': len(entries)}


# ------------------------------------------------------------------ native side

def _lines_py(shape, inputs):
    out = []
    for li, line in enumerate(shape['layout']):
        ws = []
        for wi in range(line[0]):
            ws.append(''.join(chr(c) for c in inputs['w%d_%d' % (li, wi)]))
        out.append(' '.join(ws))
    return out


def _native(native, shape, inputs):
    lines = _lines_py(shape, inputs)
    files = [lines[:1], lines[1:]] if shape['split_files'] else [lines]
    q = ''.join(chr(c) for c in inputs.get('query', [])) if 'query' in inputs else None
    return native_ok(native.call('dictionary', normalized=bool(inputs.get('normalized', 0)), files=files, max_size=shape['max_size'], max_seq=shape['max_seq'], threads=shape['threads'],
                                 chars=shape['mode'] != 'word', grams=3 if shape['mode'] == 'char3' else 1, query=q, _timeout=20.0))


def native_outputs(native, shape, inputs):
    k, v = _native(native, shape, inputs)
    if k != 'ok':
        return {'panic': v}
    out = {'items': sorted([[[ord(c) for c in w], f] for w, f in v['items']]), 'freq_sum': v['freq_sum']}
    if v.get('closest') is not None:
        out['closest_freq'] = v['closest'][1]
    return out


def concrete_check(native, inputs, shape):
    k, v = _native(native, shape, inputs)
    if k != 'ok':
        return ['no panic']
    lines = _lines_py(shape, inputs)
    mq, ms, mode = shape['max_seq'], shape['max_size'], shape['mode']
    counted = lines if mq is None else lines[:mq]
    counts = {}
    for ln in counted:
        for w in ln.split():
            if mode == 'word':
                toks = [w]
            elif mode == 'char1':
                toks = list(w)
            else:
                seq = ['<bow>'] + list(w) + ['<eow>']
                toks = [' '.join(seq[i:i + 3]) for i in range(len(seq) - 2)]
            for t in toks:
                counts[t] = counts.get(t, 0) + 1
    failed = []
    items = dict(v['items'])
    limit = len(counts) if ms is None else min(ms, len(counts))
    if len(items) != limit:
        failed.append('the dictionary keeps min(max_size, number of distinct entries) entries (None = unlimited)')
    if any(w not in counts for w in items):
        failed.append('every entry is a token of the corpus')
    elif any(items[w] != counts[w] for w in items):
        failed.append('every kept entry has exactly its frequency in the counted lines')
    omitted = [counts[w] for w in counts if w not in items]
    if items and omitted and min(items.values()) < max(omitted):
        failed.append('no kept entry is less frequent than an omitted one')
    if v['freq_sum'] != sum(items.values()):
        failed.append('freq_sum is the total of the kept frequencies')
    if not v['roundtrip']:
        failed.append('save followed by load reproduces the dictionary')
    if v.get('closest') is not None and items:
        q = ''.join(chr(c) for c in inputs['query'])

        def levp(a, b):
            d = list(range(len(b) + 1))
            for i in range(1, len(a) + 1):
                nd = [i]
                for j in range(1, len(b) + 1):
                    nd.append(min(d[j] + 1, nd[j - 1] + 1, d[j - 1] + (a[i - 1] != b[j - 1])))
                d = nd
            return d[-1]
        from fractions import Fraction
        if inputs.get('normalized', 0):
            lev0 = levp
            levp = lambda a, b: Fraction(lev0(a, b), max(len(a), len(b), 1))
        best = min(levp(q, w) for w in items)
        topf = max(items[w] for w in items if levp(q, w) == best)
        term, freq = v['closest'][0], v['closest'][1]
        if not (term in items and levp(q, term) == best and items[term] == topf and freq == topf):
            failed.append('get_closest returns an entry at minimal edit distance, the most frequent among ties')
    return failed


def _case(lines, ms, mq, mode='word', query=None):
    lay = [[len(l.split())] for l in lines]
    inp = {}
    for li, l in enumerate(lines):
        for wi, w in enumerate(l.split()):
            inp['w%d_%d' % (li, wi)] = [ord(c) for c in w]
    if query is not None:
        inp['query'] = [ord(c) for c in query]
        inp['qlen'] = len(query) - 1
        inp['normalized'] = len(query) % 2
    return ({'layout': lay, 'max_size': ms, 'max_seq': mq, 'mode': mode, 'threads': 2 if len(lay) > 1 else 0, 'split_files': len(lay) == 2}, inp)


def _mk(lines):
    # word lengths must follow the harness pattern 1 + (li + wi) % 2
    return lines


FIXED_CASES = [_case(['a', 'bc'], 5, None, 'word', 'b'), _case(['a bc', 'ab'], 1, None, 'word', 'ab'), _case(['a', 'ab', 'c'], 2, 2, 'char1'),
               _case(['a bc'], 5, 1, 'char3')]


def random_case(rng):
    nl = rng.randint(0, 3)
    lines = []
    for li in range(nl):
        nw = rng.randint(1, 2)
        ws = []
        for wi in range(nw):
            ws.append(''.join(rng.choice('abc') for _ in range(1 + (li + wi) % 2)))
        lines.append(' '.join(ws))
    mode = rng.choice(['word', 'word', 'char1', 'char3'])
    ms = rng.choice([0, 1, 2, 5])
    mq = rng.choice([None, 1, 2])
    if mq is not None and mq > nl:
        mq = None
    q = None
    return _case(lines, ms, mq, mode, ''.join(rng.choice('abc') for _ in range(rng.randint(1, 2))) if mode == 'word' else None)
