"""C05 / C09, unthreaded branch (num_threads = 0): `Pipe::new(iter, f, 0)` + `Pipe::next` interpreted by MIRSE.

The thread protocol (num_threads >= 1) is MIRBMC's subject; this sub-harness covers the branch that spawns no thread:
the pipe must be a lazy sequential map.  Run from c05.custom_main / c09.custom_main through engine.run_harness."""
import z3
from values import *
from harnesses.hlib import *
from models_core import ListIter

PROPERTY = 'C05'
MAX_N = {'quick': 4, 'thorough': 7}
LOOKAHEAD = 2       # generous constant: pulled - consumed <= LOOKAHEAD in every state (real code: 0)


def shapes(tier):
    return [{'n': n, 'part': 'unthreaded'} for n in range(MAX_N[tier] + 1)]


class CountIter(ListIter):
    def __init__(self, items, log):
        ListIter.__init__(self, items)
        self.log = log

    def nxt(self, ctx):
        k = self.i
        v = ListIter.nxt(self, ctx)
        if v is not STOP:
            self.log.append(('pull', k))
        return v


def run(ctx, shape, opts):
    m = ctx.m
    n = shape['n']
    log = []
    # item payloads are symbolic: the pipe cannot depend on them
    xs = [ctx.in_int('x%d' % i, 'u32') for i in range(n)]
    items = [Tup([Int(i, 'usize'), xs[i]]) for i in range(n)]

    def f(c, item):
        idx = item.fields[0].v
        log.append(('proc', idx))
        return Tup([Int(idx, 'usize'), item.fields[1], Int(1, 'u8')])
    pipe = m.call('Pipe::new', BoxObj(CountIter(items, log)), ArcObj(PyFn(f, 'pipeline')), Int(0, 'u8'))
    got = []
    ended = False
    for k in range(n + 2):
        v = m.call('Pipe::next', ref_to(pipe)) if False else m.iter_next(ref_to(pipe))
        pulled = sum(1 for e in log if e[0] == 'pull')
        if v is STOP:
            ended = True
            ctx.require(len(got) == n, 'the iteration ends only after the last item')
            continue
        ctx.require(not ended, 'no item after the end of the stream')
        got.append(v)
        ctx.require(pulled - len(got) <= LOOKAHEAD, 'bounded lookahead: pulled - consumed does not grow with the input length (unthreaded pipe)')
    ctx.require(ended, 'the iteration ends after the last item')
    ctx.require(len(got) == n, 'no item lost or duplicated')
    for i, v in enumerate(got[:n]):
        v = m.peel(v)
        ctx.require(isinstance(v, Tup) and len(v.fields) == 3 and v.fields[0].v == i, 'outputs are f(x0), f(x1), ... in input order')
        if isinstance(v, Tup) and len(v.fields) == 3:
            ctx.require(m.eq(v.fields[1], xs[i]), 'outputs are f(x0), f(x1), ... in input order')
    procs = [e[1] for e in log if e[0] == 'proc']
    ctx.require(sorted(procs) == list(range(n)), 'every input is processed exactly once')
    ctx.out('outputs', [m.peel(v).fields[0].v for v in got if isinstance(m.peel(v), Tup)])
    ctx.sample = {'n': n, 'log': [list(e) for e in log]}


def concrete_check(native, inputs, shape):
    n = max(shape['n'], 1)
    failed = []
    for n_ in sorted({n, n + 3}):
        k, v = native_ok(native.call('pipe_run', n=n_, w=0, delays_ms=[0] * n_, consume=-1, then='drain', _timeout=20.0))
        if k == 'timeout':
            failed.append('the iteration ends after the last item')
            continue
        if k != 'ok':
            failed.append('no panic')
            continue
        if v['outputs'] != list(range(n_)):
            failed.append('outputs are f(x0), f(x1), ... in input order')
        if any(p != 1 for p in v['processed'][:n_]):
            failed.append('every input is processed exactly once')
        k, v = native_ok(native.call('pipe_run', n=n_ + 6, w=0, delays_ms=[], consume=1, then='idle', settle_ms=50, _timeout=20.0))
        if k == 'ok' and v['pulled_end'] - 1 > LOOKAHEAD:
            failed.append('bounded lookahead: pulled - consumed does not grow with the input length (unthreaded pipe)')
    return sorted(set(failed))
