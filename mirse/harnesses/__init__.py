import importlib


def get(name):
    return importlib.import_module('harnesses.' + name)
