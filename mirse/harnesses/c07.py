"""C07: MultiTrainDataGenerator yields every item exactly once, in per-source order, and terminates."""
import itertools
import z3
from values import *
from harnesses.hlib import *

PROPERTY = 'C07'
VALIDATE_MODELS = []
VALIDATION_CASES = {'quick': 120, 'thorough': 400}
TIME_BUDGET = {'quick': 600, 'thorough': 3000}
BOUNDS = {
    'quick': '1-3 sources with 0-2 items each (every length vector), the three strategies, seed symbolic (u64) or absent; '
             'weighted draws: every index with positive weight (all random streams); six layouts in which one item of a source is an Err',
    'thorough': '1-4 sources with 0-3 items each',
}
OUTSIDE = ['more sources / longer sources', 'the ChaCha8 stream itself (modelled as every stream)',
           'jsonl parsing of the file-backed generators']
ASSUMPTIONS = ['rand modelled as all streams; reproducibility from the seed is checked as: no draw is taken from a '
               'generator that was not created from the seed', 'sources are in-memory ExactSizeIterators']
KNOWN_MATCHERS = {}
VALIDATION_ALLOW_FORKS = True
OPTS = {'quick': {'step_budget': 30000}, 'thorough': {'step_budget': 60000}}
STRATS = ['Sequential', 'Interleaved', 'Weighted']


def shapes(tier):
    ks, ml = (3, 2) if tier == 'quick' else (4, 3)
    out = []
    for k in range(1, ks + 1):
        for lens in itertools.product(range(ml + 1), repeat=k):
            for st in STRATS:
                out.append({'lengths': list(lens), 'strategy': st})
    # one item of a source is an Err (a malformed line in the middle of a file): it is an item like any other
    for lens, err in (([2], [0, 0]), ([3], [0, 1]), ([2, 2], [0, 0]), ([2, 1], [0, 1]), ([1, 2], [1, 0]), ([2, 1, 1], [0, 0])):
        for st in STRATS:
            out.append({'lengths': lens, 'strategy': st, 'err': err})
    out.sort(key=lambda s: sum(s['lengths']))
    return out


def reference_interleaved(lengths):
    rem = list(lengths)
    out = []
    cur = 0
    k = len(lengths)
    while any(rem):
        s = cur % k
        while not rem[s]:
            s = (s + 1) % k
        out.append((s, lengths[s] - rem[s]))
        rem[s] -= 1
        cur = s + 1
    return out


def run(ctx, shape, opts):
    m = ctx.m
    lengths = shape['lengths']
    st = shape['strategy']
    total = sum(lengths)
    err = tuple(shape['err']) if shape.get('err') else None

    def mk_item(s, j):
        if err == (s, j):
            return Err(Struct('anyhow::Error', [m.new_string('s%d_%d' % (s, j))], ['msg']))
        return Ok(Struct('TrainData', [m.new_string('s%d_%d' % (s, j)), m.new_string('t')], ['input', 'target']))
    gens = VecObj([BoxObj(ListIter([mk_item(s, j) for j in range(n)])) for s, n in enumerate(lengths)])
    from models_core import ListIter as _LI  # noqa
    has_seed = ctx.in_choice('has_seed', 2)
    seed = Some(ctx.in_int('seed', 'u64')) if has_seed else NONE()
    r = m.call('MultiTrainDataGenerator::new', gens, Enum('GenerationStrategy', st, STRATS.index(st), []), seed)
    if st == 'Weighted' and any(n == 0 for n in lengths):
        ctx.require(r.variant == 'Err', 'weighted strategy rejects empty sources')
        ctx.out('items', 'Err')
        return
    ctx.require(r.variant == 'Ok', 'generator construction succeeds')
    gen = r.fields[0]
    ctx.require(m.eq(gen.get('total_len'), Int(total, 'usize')) is True, 'len() is the total number of items')
    got = []
    for _ in range(total + 1):
        v = m.call('loading::<impl at src/data/loading.rs:270:1: 270:46>::next', ref_to(gen)) if False else \
            m.iter_next(ref_to(gen))
        if v is STOP:
            break
        item, src = v.fields
        ctx.require(item.variant in ('Ok', 'Err'), 'items are passed through unchanged')
        name = (item.fields[0].get('input') if item.variant == 'Ok' else item.fields[0].get('msg')).as_str().concrete()
        ctx.require((item.variant == 'Err') == (err is not None and name == 's%d_%d' % err), 'items are passed through unchanged')
        s, j = name[1:].split('_')
        ctx.require(isinstance(src.v, int) and src.v == int(s), 'item is tagged with its source index')
        got.append((int(s), int(j)))
    else:
        ctx.fail('the generator terminates after the last item')
    ctx.out('items', [[a, b, a] for a, b in got])
    ctx.require(len(got) == total and len(set(got)) == total, 'every item is yielded exactly once')
    for s in range(len(lengths)):
        ctx.require([j for (x, j) in got if x == s] == list(range(lengths[s])), 'per-source order is preserved')
    if st == 'Sequential':
        ctx.require(got == sorted(got), 'sequential visits the sources one after another')
    elif st == 'Interleaved':
        ctx.require(got == reference_interleaved(lengths), 'interleaved round-robins over the sources that still have items')
    if has_seed:
        ctx.require(getattr(ctx, 'unseeded_draws', 0) == 0, 'with a seed, no randomness comes from an unseeded generator')
    ctx.sample = {'lengths': lengths, 'strategy': st, 'order': got}


from models_core import ListIter  # noqa: E402


# ------------------------------------------------------------------ native side

def native_outputs(native, shape, inputs):
    seed = inputs.get('seed') if inputs.get('has_seed') else None
    extra = {'err': shape['err']} if shape.get('err') else {}
    k, v = native_ok(native.call('multi_gen', lengths=shape['lengths'], strategy=shape['strategy'],
                                 seed=None if seed is None else str(seed), _timeout=10.0, **extra))
    if k == 'timeout':
        return {'timeout': True}
    if k != 'ok':
        return {'panic': v}
    return {'items': v}


def concrete_check(native, inputs, shape):
    lengths, st = shape['lengths'], shape['strategy']
    total = sum(lengths)
    seeds = [inputs.get('seed')] if inputs.get('has_seed') else [None]
    if st == 'Weighted':
        seeds += list(range(0, 40))   # all-streams model: look for a concrete stream that shows the failure
    failed = []
    for sd in seeds:
        o = native_outputs(native, shape, dict(inputs, seed=sd, has_seed=sd is not None))
        if 'timeout' in o:
            return ['the generator terminates after the last item']
        if 'panic' in o:
            return ['no panic']
        got = o['items']
        if got == 'Err':
            if not (st == 'Weighted' and any(n == 0 for n in lengths)):
                failed.append('generator construction succeeds')
            continue
        if st == 'Weighted' and any(n == 0 for n in lengths):
            failed.append('weighted strategy rejects empty sources')
            continue
        pairs = [tuple(x[:2]) for x in got]
        if any(x[2] != x[0] for x in got):
            failed.append('item is tagged with its source index')
        if len(pairs) != total or len(set(pairs)) != total:
            failed.append('every item is yielded exactly once')
        for s in range(len(lengths)):
            if [j for (x, j) in pairs if x == s] != list(range(lengths[s])):
                failed.append('per-source order is preserved')
        if st == 'Sequential' and pairs != sorted(pairs):
            failed.append('sequential visits the sources one after another')
        if st == 'Interleaved' and pairs != reference_interleaved(lengths):
            failed.append('interleaved round-robins over the sources that still have items')
        if failed:
            break
    if st == 'Weighted' and inputs.get('has_seed') and not failed:
        a = native_outputs(native, shape, inputs)
        b = native_outputs(native, shape, inputs)
        if a != b:
            failed.append('with a seed, no randomness comes from an unseeded generator')
    return sorted(set(failed))


FIXED_CASES = [({'lengths': [2, 2], 'strategy': 'Sequential'}, {'has_seed': 1, 'seed': 22}),
               ({'lengths': [2, 3], 'strategy': 'Interleaved'}, {'has_seed': 1, 'seed': 22}),
               ({'lengths': [3, 2], 'strategy': 'Interleaved'}, {'has_seed': 0, 'seed': 0})]


def random_case(rng):
    k = rng.randint(1, 3)
    lens = [rng.randint(0, 3) for _ in range(k)]
    st = rng.choice(['Sequential', 'Interleaved'])
    return ({'lengths': lens, 'strategy': st}, {'has_seed': rng.randint(0, 1), 'seed': rng.randrange(1 << 64)})
