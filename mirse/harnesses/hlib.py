"""Helpers shared by property harnesses (oracles are written against these, not against the crate)."""
import itertools
import z3
from values import *
from models_core import char_is_whitespace
from models_text import in_sigma_g, grapheme_clusters


def width_shapes(max_n, widths=(1, 2, 3, 4), min_n=0):
    out = []
    for n in range(min_n, max_n + 1):
        for ws in itertools.product(widths, repeat=n):
            out.append(list(ws))
    return out


def units_of(ctx, chars, use_graphemes):
    """Character units (list of (start,end) over the code point list) in the given mode."""
    if use_graphemes:
        return grapheme_clusters(ctx, chars)
    return [(i, i + 1) for i in range(len(chars))]


def assume_sigma_g(ctx, chars):
    if chars:
        ctx.assume(z3.And(*[in_sigma_g(c) for c in chars]) if len(chars) > 1 else in_sigma_g(chars[0]))


def ws_flags(ctx, chars):
    """Decide whitespace-ness of each char on this path (forks)."""
    return [ctx.branch(char_is_whitespace(c)) for c in chars]


def assume_no_mixed_units(ctx, chars, units):
    """Precondition of the grapheme-mode claims: no unit mixes whitespace and non-whitespace code points."""
    for a, b in units:
        if b - a > 1:
            fl = [char_is_whitespace(c) for c in chars[a:b]]
            ctx.assume(ctx.m.disj([ctx.m.conj(fl), ctx.m.conj([ctx.m.bnot(f) for f in fl])]))


def chars_equal(ctx, got_chars, exp_chars):
    """Equality of two char lists as bool/z3 (length mismatch -> False)."""
    if len(got_chars) != len(exp_chars):
        return False
    return ctx.m.conj([ctx.m.eq(a, b) for a, b in zip(got_chars, exp_chars)])


def out_chars(ctx, v):
    v = ctx.m.peel(v)
    if isinstance(v, StringObj):
        return v.buf.chars
    if isinstance(v, StrRef):
        return v.chars()
    raise Unsupported('expected string result, got %r' % (v,))


SPACE = Int(0x20, 'char')


def describe_chars(chars):
    return [c.v if isinstance(c.v, int) else str(c.v) for c in chars]


def to_py(ctx, v):
    """Concrete interpreter value -> plain python (strings become code point lists)."""
    v = ctx.m.peel(v)
    if v is None or isinstance(v, (bool, int, float, str)):
        return v
    if isinstance(v, (list, tuple)):
        return [to_py(ctx, x) for x in v]
    if isinstance(v, dict):
        return {k: to_py(ctx, x) for k, x in v.items()}
    if isinstance(v, Int):
        return v.v if isinstance(v.v, int) else str(v.v)
    if isinstance(v, FP):
        if isinstance(v.v, float):
            return None if (v.v != v.v or v.v in (float('inf'), float('-inf'))) else v.v
        return str(v.v)
    if isinstance(v, StringObj):
        v = v.as_str()
    if isinstance(v, StrRef):
        return [c.v for c in v.chars()]
    if isinstance(v, VecObj):
        return [to_py(ctx, x) for x in v.items]
    if isinstance(v, SliceRef):
        return [to_py(ctx, x) for x in v.items()]
    if isinstance(v, (Tup, Arr)):
        return [to_py(ctx, x) for x in v.fields]
    if isinstance(v, Enum):
        if v.ty == 'Option':
            return None if v.variant == 'None' else to_py(ctx, v.fields[0])
        if v.ty == 'Result':
            return {'Ok': to_py(ctx, v.fields[0])} if v.variant == 'Ok' else {'Err': True}
        if not v.fields:
            return v.variant
        return {v.variant: [to_py(ctx, x) for x in v.fields]}
    if isinstance(v, Struct):
        return {'struct': v.ty, 'fields': [to_py(ctx, x) for x in v.fields]}
    if isinstance(v, Opaque):
        return {'opaque': v.what}
    if isinstance(v, MapObj):
        return sorted([[to_py(ctx, k), to_py(ctx, x)] for k, x in v.entries], key=repr)
    return repr(v)


def py_is_ws(cp):
    from models_core import is_ws_py
    return is_ws_py(cp)


def native_ok(r):
    """Result of a native call -> ('ok', value) | ('panic', msg) | ('error', msg)."""
    if 'ok' in r:
        return 'ok', r['ok']
    if 'panic' in r:
        return 'panic', r['panic']
    if 'crash' in r:
        return 'panic', 'process crashed: %r' % r['crash']
    if 'timeout' in r:
        return 'timeout', 'no answer within %ss' % r['timeout']
    return 'error', r.get('error')


def rand_string(rng, max_n, alphabet=None):
    """Random code point list biased to whitespace / multi-byte / combining characters."""
    pool = alphabet or [0x20, 0x20, 0x61, 0x62, 0x09, 0x0A, 0x0D, 0xA0, 0xE4, 0x3000, 0x2003, 0x0301, 0x200D, 0x1F600,
                        0x4E2D, 0x7F, 0x85, 0x41, 0x3C, 0x3E]
    n = rng.randint(0, max_n)
    return [rng.choice(pool) for _ in range(n)]


def widths_of(cps):
    return [1 if c < 0x80 else 2 if c < 0x800 else 3 if c < 0x10000 else 4 for c in cps]


def term_vars(t):
    """names of the harness inputs a term depends on"""
    if isinstance(t, Int):
        t = t.v
    if isinstance(t, int):
        return set()
    out, todo, seen = set(), [t], set()
    while todo:
        x = todo.pop()
        if x.get_id() in seen:
            continue
        seen.add(x.get_id())
        if z3.is_const(x) and x.decl().kind() == z3.Z3_OP_UNINTERPRETED:
            out.add(str(x).split('!')[0])
        todo.extend(x.children())
    return out
