"""C08: the training item stream is reproducible, shardable and resumable.

Decided here by symbolic execution of TrainLoader::init_iter (index arithmetic of enumerate / take / skip / step_by,
per-item seed, batching) and of the `switch` combinator (seed discipline).  The threaded stages are replaced by their
specifications, which are the subject of C05 (pipe = order-preserving map) and C09 (buffered = identity on the stream)."""
import json
import z3
from values import *
from harnesses.hlib import *
from models_core import ListIter
from models_iter import MapI

PROPERTY = 'C08'
VALIDATE_MODELS = []
VALIDATION_CASES = {'quick': 60, 'thorough': 200}
TIME_BUDGET = {'quick': 900, 'thorough': 3300}
OPTS = {'quick': {'hash_order': 'insertion', 'step_budget': 400000}, 'thorough': {'hash_order': 'insertion', 'step_budget': 1000000}}
VALIDATION_ALLOW_FORKS = True
BOUNDS = {
    'quick': '1-2 files with 0-3 items (at most 4 items), the three strategies; skip, fast_forward, limit (or None), epoch: symbolic usize '
             '(full range); seed: symbolic u64 or None; rank < world both symbolic usize (single-stream claims) and every rank of worlds of '
             'size 2 and 3 in one path (disjointness / union claims); batch limit 2 (batch size), no sort / shuffle; `switch` over 2-3 '
             'functions with symbolic info.seed',
    'thorough': 'up to 3 files and 6 items, worlds up to size 4, batch limits 1-3',
}
OUTSIDE = ['seeds with seed + epoch + item count >= 2^64 (the unchecked seed additions panic in dev builds and wrap consistently in '
           'release builds; excluded by assumption)',
           'jsonl parsing (sources are in-memory generators)', 'shuffled batches (order after fast_forward is not claimed by the property)',
           'schedule independence of Pipe / Buffered themselves: replaced by their specification here, decided by the C05 / C09 checks; '
           'the native cross-check runs the real threads with 0 and 3 workers and buffer sizes 1 and 4',
           'determinism of the individual corruption functions given info.seed (C14, C15 check that they seed from info.seed)']
ASSUMPTIONS = ['PipelineIterator::pipe modelled as a sequential order-preserving map (C05), BufferedIterator::buffered as identity (C09), '
               'tensorized() as pairing each batch with an opaque tensor (C17)', 'std adaptors enumerate / take / skip / step_by / filter_map '
               'modelled by their documented semantics', 'rand: every stream; seeding tracked symbolically']
KNOWN_MATCHERS = {}
STRATS = ['Sequential', 'Interleaved', 'Weighted']
LT = ['BatchSize', 'PaddedItemSize']


def shapes(tier):
    out = []
    lens = [[0], [1], [2], [3], [1, 1], [2, 1], [1, 2], [2, 2], [0, 2], [3, 1], [4]]
    if tier != 'quick':
        lens += [[3, 2], [2, 3], [1, 1, 1], [2, 2, 1], [5], [3, 3], [2, 2, 2]]
    for ln in lens:
        for st in STRATS:
            if st != 'Sequential' and len(ln) == 1:
                continue
            if st == 'Weighted' and 0 in ln:
                continue
            for bl in ((2,) if tier == 'quick' else (1, 2, 3)):
                out.append({'part': 'loader', 'lengths': ln, 'strategy': st, 'mode': 'single', 'batch_limit': bl})
            if st != 'Weighted':
                for w in ((2, 3) if tier == 'quick' else (2, 3, 4)):
                    out.append({'part': 'loader', 'lengths': ln, 'strategy': st, 'mode': 'world', 'world': w, 'batch_limit': 2})
    for k in (2, 3):
        out.append({'part': 'switch', 'fns': k})
    out.sort(key=lambda s: -(sum(s.get('lengths', [0])) * (s.get('world', 1) + 1)))
    return out


class RecIter(ListIter):
    """in-memory source that logs the global order in which the items are pulled"""

    def __init__(self, items, log, src):
        ListIter.__init__(self, items)
        self.log = log
        self.src = src

    def nxt(self, ctx):
        k = self.i
        v = ListIter.nxt(self, ctx)
        if v is not STOP:
            self.log.append((self.src, k))
        return v


def setup_machine(machine, shape, opts):
    def gen_from_jsonl(ctx, args, ck):
        name = ctx.m.peel(args[0])
        name = (name.as_str() if isinstance(name, StringObj) else name).concrete()
        src = int(name[1:])
        n = ctx.m.c08_lengths[src]
        items = [Ok(Struct('TrainData', [ctx.m.new_string('s%d_%d' % (src, j)), ctx.m.new_string('s%d_%d' % (src, j))], ['input', 'target']))
                 for j in range(n)]
        return Ok(BoxObj(RecIter(items, ctx.m.c08_log, src)))
    for k in ('train_data_generator_from_jsonl', 'loading::train_data_generator_from_jsonl'):
        machine.stubs[k] = gen_from_jsonl

    def pipe(ctx, args, ck):
        return MapI(args[0], args[1])
    machine.stubs['PipelineIterator::pipe'] = pipe
    machine.stubs['TensorizedIterator::tensorized'] = lambda ctx, args, ck: MapI(args[0], PyFn(lambda c, b: Tup([b, Opaque('tensors')])))
    machine.stubs['BufferedIterator::buffered'] = lambda ctx, args, ck: args[0]
    machine.stubs['ItemSize::size'] = lambda ctx, args, ck: Int(1, 'usize')
    machine.c08_lengths = []
    machine.c08_log = []


def _u65(x):
    # 68-bit view: sums of a few 64-bit quantities cannot wrap
    return z3.ZeroExt(4, x.z()) if not isinstance(x.v, int) else z3.BitVecVal(x.v, 68)


def run(ctx, shape, opts):
    if shape['part'] == 'switch':
        return run_switch(ctx, shape, opts)
    m = ctx.m
    lengths = shape['lengths']
    n = sum(lengths)
    m.c08_lengths = lengths
    st = shape['strategy']
    skip = ctx.in_int('skip', 'usize')
    ff = ctx.in_int('ff', 'usize')
    epoch = ctx.in_int('epoch', 'usize')
    has_limit = ctx.in_choice('has_limit', 2)
    limit = ctx.in_int('limit', 'usize') if has_limit else Int((1 << 64) - 1, 'usize')
    has_seed = ctx.in_choice('has_seed', 2)
    seed_in = ctx.in_int('seed', 'u64') if has_seed else None
    threads = ctx.in_int('threads', 'u8')
    buffer = ctx.in_int('buffer', 'usize')
    if shape['mode'] == 'single':
        world = ctx.in_int('world', 'usize')
        rank = ctx.in_int('rank', 'usize')
        if ctx.concrete is None:
            ctx.assume(z3.ULT(rank.z(), world.z()))
        elif not rank.v < world.v:
            raise Infeasible()
        streams = [(rank, world)]
    else:
        W = shape['world']
        streams = [(Int(r, 'usize'), Int(W, 'usize')) for r in range(W)]
    seed0 = seed_in if seed_in is not None else Int(0, 'u64')
    # documented exclusions: the unchecked additions must not overflow
    e65 = _u65(seed0) + _u65(epoch) + z3.BitVecVal(n, 68)
    lim = z3.BitVecVal(1 << 64, 68)
    if ctx.concrete is None:
        ctx.assume(z3.ULT(e65, lim))
    elif not seed0.v + epoch.v + n < (1 << 64):
        raise Infeasible()
    base_seed = m.int_binop('Add', seed0, Int(epoch.v, 'u64') if isinstance(epoch.v, int) else Int(epoch.v, 'u64'))

    def pipeline(c, arg):
        data, info = arg.fields
        c.m.c08_seen.append((data.get('input').as_str().concrete(), info))
        item = Struct('TrainItem', [data, Enum('TrainTaskInput', 'SequenceClassification', 1,
                                               [VecObj([Int(1, 'u32')]), Int(0, 'u32'), VecObj([Int(0, 'i32')])])], ['data', 'input'])
        return Ok(item)

    all_streams = []
    G0 = None
    for rank, world in streams:
        m.c08_log = []
        m.c08_seen = []
        ctx.unseeded_draws = 0
        ctx.rng_seed_terms = []
        loader = Struct('TrainLoader', [
            ArcObj(PyFn(pipeline, 'pipeline')), VecObj([m.new_string('f%d' % i) for i in range(len(lengths))]),
            Enum('GenerationStrategy', st, STRATS.index(st), []), threads, buffer, Int(shape['batch_limit'], 'usize'),
            Enum('BatchLimitType', 'BatchSize', 0, []), ArcObj(Opaque('AtomicUsize')), epoch, ff, limit, skip, rank, world,
            Some(seed_in) if seed_in is not None else NONE(), False, Int(1, 'usize'), False, NONE(), NONE()])
        r = m.call('init_iter', ref_to(loader)) if False else m.call('TrainLoader::init_iter', ref_to(loader))
        ctx.require(r.variant == 'Ok', 'init_iter succeeds')
        it = loader.fields[19]
        ctx.require(it.variant == 'Some', 'init_iter installs the iterator')
        it = m.peel(it.fields[0])
        while isinstance(it, (ArcObj, BoxObj)) or (isinstance(it, Struct) and it.ty == 'Mutex'):
            it = m.peel(it.fields[0])
        batches = []
        for _ in range(n + 1):
            v = m.iter_next(ref_to(it))
            if v is STOP:
                break
            batch = m.peel(v.fields[0])
            batches.append([m.peel(x).get('data').get('input').as_str().concrete() for x in batch.items])
        else:
            ctx.fail('the stream terminates')
        if ctx.outputs is not None:
            ctx.outputs['stream%d' % len(all_streams)] = batches
        G = list(m.c08_log)          # global order in which the sources were pulled: position = global item index
        names = ['s%d_%d' % g for g in G]
        flat = [x for b in batches for x in b]
        ctx.require(all(x in names for x in flat) and len(set(flat)) == len(flat), 'every emitted item is a distinct item of the generator stream')
        L = [names.index(x) for x in flat]
        # (1) the stream is the arithmetic progression skip+ff+rank, +world, ... below min(limit, number of items)
        S = _u65(skip) + _u65(ff) + _u65(rank)
        E = z3.If(z3.ULT(_u65(limit), z3.BitVecVal(n, 68)), _u65(limit), z3.BitVecVal(n, 68))
        Wd = _u65(world)
        if not L:
            cond = z3.UGE(S, E)
        else:
            cs = [S == z3.BitVecVal(L[0], 68), z3.ULT(z3.BitVecVal(L[-1], 68), E), z3.UGE(z3.BitVecVal(L[-1], 68) + Wd, E)]
            for a, b in zip(L, L[1:]):
                cs.append(z3.BitVecVal(a, 68) + Wd == z3.BitVecVal(b, 68))
            cond = z3.And(cs)
        ctx.require(cond, 'the rank stream is exactly the items skip+fast_forward+rank, +world_size, ... below min(limit, total) in order')
        # (2) per-item info: seed = seed + epoch + global index, file_idx = source; identical whatever rank / world / fast_forward
        ctx.require([s[0] for s in m.c08_seen] == flat, 'the pipeline sees exactly the emitted items, in order')
        for (nm, info), gi in zip(m.c08_seen, L):
            want = m.int_binop('Add', base_seed, Int(gi, 'u64'))
            ctx.require(m.eq(info.get('seed'), want), 'item seed is seed + epoch + global item index')
            ctx.require(m.eq(info.get('file_idx'), Int(G[gi][0], 'usize')), 'item carries the index of its source file')
        # (3) batches
        bl = shape['batch_limit']
        ctx.require(all(len(b) == bl for b in batches[:-1]) and all(0 < len(b) <= bl for b in batches), 'batches are full except the last, none empty')
        # (4) all randomness of the run is derived from seed + epoch
        ctx.require(ctx.unseeded_draws == 0, 'no randomness from an unseeded generator')
        for sd in ctx.rng_seed_terms:
            ctx.require(m.eq(sd, base_seed), 'generators of the run are seeded with seed + epoch')
        # min_items as documented by the code: min(total, limit) - skip (saturating)
        mi = loader.fields[18]
        ctx.require(mi.variant == 'Some', 'min_items is set by __iter__')
        all_streams.append(L)
        if G0 is None:
            G0 = G
        elif st != 'Weighted':
            ctx.require(G == G0, 'the global item order does not depend on the rank')
    if shape['mode'] == 'world':
        flatall = [i for L in all_streams for i in L]
        ctx.require(len(set(flatall)) == len(flatall), 'the per-rank streams are disjoint')
        U = sorted(flatall)
        S = _u65(skip) + _u65(ff)
        E = z3.If(z3.ULT(_u65(limit), z3.BitVecVal(n, 68)), _u65(limit), z3.BitVecVal(n, 68))
        if not U:
            cond = z3.UGE(S, E)
        else:
            cond = z3.And([S == z3.BitVecVal(U[0], 68), z3.BitVecVal(U[-1] + 1, 68) == E] + [z3.BoolVal(b == a + 1) for a, b in zip(U, U[1:])])
        ctx.require(cond, 'the union of the per-rank streams is exactly the single-process stream restricted by skip (+ fast_forward) and limit')
    ctx.sample = {'lengths': lengths, 'strategy': st, 'streams': all_streams}


def run_switch(ctx, shape, opts):
    m = ctx.m
    k = shape['fns']
    seed = ctx.in_int('seed', 'u64')
    fidx = ctx.in_int('file_idx', 'usize')
    calls = []

    def mk(i):
        def f(c, inp, info):
            calls.append((i, inp, info))
            return Ok(Tup([inp, info]))
        return BoxObj(PyFn(f, 'fn%d' % i))
    probs = {2: [0.25, 0.75], 3: [0.5, 0.25, 0.25]}[k]
    ctx.unseeded_draws = 0
    ctx.rng_seed_terms = []
    sw = m.call('utils::switch', VecObj([mk(i) for i in range(k)]), VecObj([FP(p, 'f64') for p in probs]))
    info = Struct('TextDataInfo', [seed, fidx, MapObj('HashMap')], ['seed', 'file_idx', 'marks'])
    token = m.new_string('item')
    r = m.call_value(sw, [token, info])
    ctx.require(r.variant == 'Ok' and len(calls) == 1, 'switch calls exactly one of its functions')
    i, inp, info2 = calls[0]
    ctx.require(inp is token, 'the selected function receives the input unchanged')
    ctx.require(m.eq(m.peel(info2).get('seed'), seed) and m.eq(m.peel(info2).get('file_idx'), fidx), 'the selected function receives the same info (seed, file index)')
    ctx.require(ctx.unseeded_draws == 0, 'no randomness from an unseeded generator')
    ctx.require(len(ctx.rng_seed_terms) == 1, 'switch creates exactly one generator')
    for sd in ctx.rng_seed_terms:
        ctx.require(m.eq(sd, seed), 'the switch generator is seeded with info.seed')
    if ctx.outputs is not None:
        ctx.outputs['ok'] = True
    ctx.sample = {'switch_fns': k, 'selected': i}


# ------------------------------------------------------------------ native side

TEXT = ' lorem ipsum dolor sit amet consectetur adipiscing elit sed do'


def _files(shape, long=False):
    return [[json.dumps({'input': 's%d_%d%s' % (s, j, TEXT if long else '')}) for j in range(n)] for s, n in enumerate(shape['lengths'])]


def _call(native, shape, inputs, rank, world, pipeline='plain', long=False, **over):
    kw = dict(files=_files(shape, long), strategy=shape['strategy'], pipeline=pipeline, threads=inputs.get('threads', 0),
              buffer=str(inputs.get('buffer', 4) % 7), batch_limit=shape['batch_limit'],
              seed=str(inputs['seed']) if inputs.get('has_seed') else None, skip=str(inputs['skip']),
              limit=str(inputs['limit']) if inputs.get('has_limit') else None, rank=str(rank), world=str(world),
              epoch=str(inputs['epoch']), ff=str(inputs['ff']), _timeout=30.0)
    kw.update(over)
    return native_ok(native.call('train_loader', **kw))


def _streams(shape, inputs):
    if shape['mode'] == 'single':
        return [(inputs['rank'], inputs['world'])]
    return [(r, shape['world']) for r in range(shape['world'])]


def native_outputs(native, shape, inputs):
    if shape['part'] == 'switch':
        return {'ok': True}
    out = {}
    for i, (rank, world) in enumerate(_streams(shape, inputs)):
        k, v = _call(native, shape, inputs, rank, world)
        if k != 'ok':
            return {'panic': v}
        out['stream%d' % i] = [[it[0] for it in b] for b in v['batches']]
    return out


def concrete_check(native, inputs, shape):
    if shape['part'] == 'switch':
        return []
    n = sum(shape['lengths'])
    failed = set()
    # reference: the uninterrupted single-process stream with the same seed and epoch (random preprocessing exposes the seeds)
    seeds = [inputs.get('seed')] if shape['strategy'] != 'Weighted' else [inputs.get('seed'), 0, 1, 2, 3]
    for sd in seeds:
        inp = dict(inputs, seed=sd if sd is not None else 0, has_seed=1 if (sd is not None or inputs.get('has_seed')) else 0)
        k, full = _call(native, shape, inp, 0, 1, 'wscorrupt', True, skip='0', limit=None, ff='0', threads=0, buffer='1', batch_limit=1)
        if k != 'ok':
            return ['init_iter succeeds']
        F = [b[0] for b in full['batches']]
        ids = [x[1] for x in F]
        for _ in range(6):   # the same configuration again: every source of randomness must come from the seed
            k, again = _call(native, shape, inp, 0, 1, 'wscorrupt', True, skip='0', limit=None, ff='0', threads=0, buffer='1', batch_limit=1)
            if k != 'ok' or again != full:
                failed.add('no randomness from an unseeded generator')
                break
        union = []
        for rank, world in _streams(shape, inp):
            start = inp['skip'] + inp['ff'] + rank
            end = min(inp['limit'], n) if inp.get('has_limit') else n
            want = list(range(start, end, world)) if start < end else []
            runs = []
            for th, bf in ((0, '1'), (3, '4')):
                k, v = _call(native, shape, inp, rank, world, 'wscorrupt', True, threads=th, buffer=bf)
                if k != 'ok':
                    return ['init_iter succeeds']
                runs.append(v['batches'])
            if runs[0] != runs[1]:
                failed.add('the stream is identical for every worker count and buffer size')
            got = [it for b in runs[0] for it in b]
            if any(it[1] not in ids for it in got):
                failed.add('every emitted item is a distinct item of the generator stream')
                continue
            L = [ids.index(it[1]) for it in got]
            union += L
            if L != want:
                failed.add('the rank stream is exactly the items skip+fast_forward+rank, +world_size, ... below min(limit, total) in order')
            if any(it != F[i] for it, i in zip(got, L)):
                failed.add('item seed is seed + epoch + global item index')
            bl = shape['batch_limit']
            bs = runs[0]
            if not (all(len(b) == bl for b in bs[:-1]) and all(0 < len(b) <= bl for b in bs)):
                failed.add('batches are full except the last, none empty')
        if shape['mode'] == 'world':
            if len(set(union)) != len(union):
                failed.add('the per-rank streams are disjoint')
            s0 = inp['skip'] + inp['ff']
            e0 = min(inp['limit'], n) if inp.get('has_limit') else n
            if sorted(union) != (list(range(s0, e0)) if s0 < e0 else []):
                failed.add('the union of the per-rank streams is exactly the single-process stream restricted by skip (+ fast_forward) and limit')
        # a second epoch / seed pair with the same sum must process items identically (seed + epoch + index)
    return sorted(failed)


def _case(lengths, st, mode, world=None, **kw):
    inp = dict(skip=0, ff=0, epoch=0, has_limit=0, has_seed=1, seed=22, threads=2, buffer=3)
    inp.update(kw)
    shape = {'part': 'loader', 'lengths': lengths, 'strategy': st, 'mode': mode, 'batch_limit': 2}
    if mode == 'world':
        shape['world'] = world
    else:
        inp.setdefault('rank', 0)
        inp.setdefault('world', 1)
    return (shape, inp)


FIXED_CASES = [_case([3], 'Sequential', 'single'), _case([2, 2], 'Interleaved', 'single', rank=1, world=2, skip=1),
               _case([3, 1], 'Sequential', 'world', 2, ff=1, has_limit=1, limit=3), _case([2, 1], 'Interleaved', 'world', 3, epoch=4),
               ({'part': 'switch', 'fns': 2}, {'seed': 5, 'file_idx': 0})]


def random_case(rng):
    lengths = rng.choice([[1], [2], [3], [4], [1, 1], [2, 1], [1, 2], [2, 2], [3, 1]])
    st = rng.choice(['Sequential', 'Interleaved']) if len(lengths) > 1 else 'Sequential'
    kw = dict(skip=rng.randint(0, 3), ff=rng.randint(0, 2), epoch=rng.randint(0, 3), has_limit=rng.randint(0, 1), limit=rng.randint(0, 5),
              has_seed=rng.randint(0, 1), seed=rng.randint(0, 1000), threads=rng.randint(0, 3), buffer=rng.randint(1, 5))
    if rng.random() < 0.5:
        w = rng.randint(1, 3)
        return _case(lengths, st, 'single', rank=rng.randint(0, w - 1), world=w, **kw)
    return _case(lengths, st, 'world', rng.randint(2, 3), **kw)
