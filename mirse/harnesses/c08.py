"""C08: the training item stream is reproducible, shardable and resumable.

Decided here by symbolic execution of TrainLoader::init_iter (index arithmetic of enumerate / take / skip / step_by,
per-item seed, batching) and of the `switch` combinator (seed discipline).  The threaded stages are replaced by their
specifications, which are the subject of C05 (pipe = order-preserving map) and C09 (buffered = identity on the stream)."""
import json
import z3
from values import *
from harnesses.hlib import *
from harnesses.c14 import mk_enum
from models_core import ListIter
from models_iter import MapI

PROPERTY = 'C08'
VALIDATE_MODELS = []
VALIDATION_CASES = {'quick': 60, 'thorough': 200}
TIME_BUDGET = {'quick': 900, 'thorough': 3300}
OPTS = {'quick': {'hash_order': 'all', 'step_budget': 400000}, 'thorough': {'hash_order': 'all', 'step_budget': 1000000}}
VALIDATION_ALLOW_FORKS = True
BOUNDS = {
    'quick': '1-2 files with 0-3 items (at most 4 items), the three strategies; skip, fast_forward, limit (or None), epoch: symbolic usize '
             '(full range); seed: symbolic u64 or None; rank < world both symbolic usize (single-stream claims) and every rank of worlds of '
             'size 2 and 3 in one path (disjointness / union claims); batch limit 2 (batch size), no sort / shuffle; `switch` over 2-3 '
             'functions with symbolic info.seed',
    'thorough': 'up to 3 files and 6 items, worlds up to size 4, batch limits 1-3',
}
OUTSIDE = ['seeds with seed + epoch + item count >= 2^64 (the unchecked seed additions panic in dev builds and wrap consistently in '
           'release builds; excluded by assumption)',
           'jsonl parsing (sources are in-memory generators)', 'shuffled batches (order after fast_forward is not claimed by the property)',
           'schedule independence of Pipe / Buffered themselves: replaced by their specification here, decided by the C05 / C09 checks; '
           'the native cross-check runs the real threads with 0 and 3 workers and buffer sizes 1 and 4',
           'determinism of the individual corruption functions given info.seed (C14, C15 check that they seed from info.seed)']
ASSUMPTIONS = ['PipelineIterator::pipe modelled as a sequential order-preserving map (C05), BufferedIterator::buffered as identity (C09), '
               'tensorized() as pairing each batch with an opaque tensor (C17)', 'std adaptors enumerate / take / skip / step_by / filter_map '
               'modelled by their documented semantics', 'rand: every stream; seeding tracked symbolically']
KNOWN_MATCHERS = {}
SWITCH_PROBS = {2: [0.25, 0.75], 3: [0.5, 0.25, 0.25]}
STRATS = ['Sequential', 'Interleaved', 'Weighted']
LT = ['BatchSize', 'PaddedItemSize']


def shapes(tier):
    out = []
    lens = [[0], [1], [2], [3], [1, 1], [2, 1], [1, 2], [2, 2], [0, 2], [3, 1], [4]]
    if tier != 'quick':
        lens += [[3, 2], [2, 3], [1, 1, 1], [2, 2, 1], [5], [3, 3], [2, 2, 2]]
    for ln in lens:
        for st in STRATS:
            if st != 'Sequential' and len(ln) == 1:
                continue
            if st == 'Weighted' and 0 in ln:
                continue
            for bl in ((2,) if tier == 'quick' else (1, 2, 3)):
                out.append({'part': 'loader', 'lengths': ln, 'strategy': st, 'mode': 'single', 'batch_limit': bl})
            if st != 'Weighted':
                for w in ((2, 3) if tier == 'quick' else (2, 3, 4)):
                    out.append({'part': 'loader', 'lengths': ln, 'strategy': st, 'mode': 'world', 'world': w, 'batch_limit': 2})
    for k in (2, 3):
        out.append({'part': 'switch', 'fns': k})
    for kind in ('CharSubstring', 'ByteSubstring'):
        for text in (['ab c', 'ab c'], ['a bc', 'abc'], ['ab', 'a b']) if tier == 'quick' else (['ab c', 'ab c'], ['a bc', 'abc'], ['ab', 'a b'], ['ab cd', 'abcd'], ['a', 'a']):
            out.append({'part': 'substring', 'kind': kind, 'input': text[0], 'target': text[1]})
    # task functions: two independently built pipeline instances (another rank, a restart, the validation loader) must
    # process the same item identically
    for task in ('Classification', 'WhitespaceCorrection'):
        out.append({'part': 'task', 'task': task})
    out.sort(key=lambda s: -(sum(s.get('lengths', [0])) * (s.get('world', 1) + 1)))
    return out


class RecIter(ListIter):
    """in-memory source that logs the global order in which the items are pulled"""

    def __init__(self, items, log, src):
        ListIter.__init__(self, items)
        self.log = log
        self.src = src

    def nxt(self, ctx):
        k = self.i
        v = ListIter.nxt(self, ctx)
        if v is not STOP:
            self.log.append((self.src, k))
        return v

    def remaining(self):
        # like the real file generator (ExactSizeGenerator): size_hint / len() is the line count and never shrinks
        return len(self.items)


def premises(tier, seed, mir, repo, native, procs):
    """The encoding below replaces `pipe` by its specification (order-preserving total map).  That premise is part of this
    property ("identical for every worker count ... and thread schedule"), so it is discharged here as well: the MIRBMC
    safety / deadlock / termination queries of C05 for 2 workers and n <= 2 items, the consumer's receive read from the
    MIR of Pipe::next, and the unthreaded branch interpreted by MIRSE."""
    import harnesses
    c05 = harnesses.get('c05')
    res = c05.custom_main('premise', seed, mir, repo, lambda: native, procs, prop=PROPERTY)
    for v in res['violations']:
        v['claim'] = 'premise of the stream claims (Pipe is an order-preserving total map under every schedule): ' + v['claim']
    cov = res['coverage']
    return {'violations': res['violations'], 'incon': ['premise (Pipe, MIRBMC): ' + x for x in res['incon']],
            'coverage': {'engine': cov.get('engine'), 'queries': cov.get('queries'), 'solver_seconds': cov.get('solver_seconds'),
                         'unthreaded_branch': cov.get('unthreaded_branch'), 'bounds': 'W = 2 workers, n <= 2 items, every interleaving; num_threads = 0 by MIRSE'}}


def setup_machine(machine, shape, opts):
    def gen_from_jsonl(ctx, args, ck):
        name = ctx.m.peel(args[0])
        name = (name.as_str() if isinstance(name, StringObj) else name).concrete()
        src = int(name[1:])
        n = ctx.m.c08_lengths[src]
        items = [Ok(Struct('TrainData', [ctx.m.new_string('s%d_%d' % (src, j)), ctx.m.new_string('s%d_%d' % (src, j))], ['input', 'target']))
                 for j in range(n)]
        return Ok(BoxObj(RecIter(items, ctx.m.c08_log, src)))
    for k in ('train_data_generator_from_jsonl', 'loading::train_data_generator_from_jsonl'):
        machine.stubs[k] = gen_from_jsonl

    def pipe(ctx, args, ck):
        return MapI(args[0], args[1])
    machine.stubs['PipelineIterator::pipe'] = pipe
    machine.stubs['TensorizedIterator::tensorized'] = lambda ctx, args, ck: MapI(args[0], PyFn(lambda c, b: Tup([b, Opaque('tensors')])))
    machine.stubs['BufferedIterator::buffered'] = lambda ctx, args, ck: args[0]
    machine.stubs['ItemSize::size'] = lambda ctx, args, ck: Int(1, 'usize')
    machine.c08_lengths = []
    machine.c08_log = []
    machine.rng_replay_streams = True


def _u65(x):
    # 68-bit view: sums of a few 64-bit quantities cannot wrap
    return z3.ZeroExt(4, x.z()) if not isinstance(x.v, int) else z3.BitVecVal(x.v, 68)


CLASSES = ['neg', 'neu', 'pos']
TASK_CLAIM = 'independently built pipeline instances process the same item identically (task function)'


def run_task(ctx, shape, opts):
    from harnesses.tok_common import special_config
    from harnesses.c14 import mk_enum
    m = ctx.m
    tk = mk_enum(m, 'TokenizeConfig', 'Byte', [Struct('ByteTokenizerConfig', [False, NONE(), mk_enum(m, 'ByteGroups', 'Bytes'),
                                                                            mk_enum(m, 'GroupAggregation', 'Mean')],
                                                      ['use_graphemes', 'pad_to_multiple_of', 'groups', 'aggregation'])])
    pick = ctx.in_choice('class', len(CLASSES))

    def instance():
        cfg = Struct('TokenizerConfig', [tk, special_config(m, 'minimal')], ['tokenize', 'special'])
        if shape['task'] == 'Classification':
            t = mk_enum(m, 'TrainTaskConfig', 'Classification', [cfg, True, VecObj([m.new_string(c) for c in CLASSES])])
            item = Struct('TrainData', [m.new_string('ab'), m.new_string(CLASSES[pick])], ['input', 'target'])
        else:
            t = mk_enum(m, 'TrainTaskConfig', 'WhitespaceCorrection', [False, cfg])
            item = Struct('TrainData', [m.new_string('a b'), m.new_string('ab')], ['input', 'target'])
        f = m.call('train_task', t)
        return m.call_value(f, [ref_to(item)])
    r1, r2 = instance(), instance()
    ctx.require(r1.variant == 'Ok' and r2.variant == 'Ok', 'the task function succeeds')
    ctx.out('task', to_py(ctx, r1))
    ctx.require(to_py(ctx, r1) == to_py(ctx, r2), TASK_CLAIM)
    ctx.sample = {'task': shape['task'], 'class': pick}


def run(ctx, shape, opts):
    if shape['part'] == 'task':
        return run_task(ctx, shape, opts)
    if shape['part'] == 'switch':
        return run_switch(ctx, shape, opts)
    if shape['part'] == 'substring':
        return run_substring(ctx, shape, opts)
    m = ctx.m
    lengths = shape['lengths']
    n = sum(lengths)
    m.c08_lengths = lengths
    st = shape['strategy']
    skip = ctx.in_int('skip', 'usize')
    ff = ctx.in_int('ff', 'usize')
    epoch = ctx.in_int('epoch', 'usize')
    has_limit = ctx.in_choice('has_limit', 2)
    limit = ctx.in_int('limit', 'usize') if has_limit else Int((1 << 64) - 1, 'usize')
    has_seed = ctx.in_choice('has_seed', 2)
    seed_in = ctx.in_int('seed', 'u64') if has_seed else None
    threads = ctx.in_int('threads', 'u8')
    buffer = ctx.in_int('buffer', 'usize')
    if shape['mode'] == 'single':
        world = ctx.in_int('world', 'usize')
        rank = ctx.in_int('rank', 'usize')
        if ctx.concrete is None:
            ctx.assume(z3.ULT(rank.z(), world.z()))
        elif not rank.v < world.v:
            raise Infeasible()
        streams = [(rank, world)]
    else:
        W = shape['world']
        streams = [(Int(r, 'usize'), Int(W, 'usize')) for r in range(W)]
    seed0 = seed_in if seed_in is not None else Int(0, 'u64')
    # documented exclusions: the unchecked additions must not overflow
    e65 = _u65(seed0) + _u65(epoch) + z3.BitVecVal(n, 68)
    lim = z3.BitVecVal(1 << 64, 68)
    if ctx.concrete is None:
        ctx.assume(z3.ULT(e65, lim))
    elif not seed0.v + epoch.v + n < (1 << 64):
        raise Infeasible()

    def pipeline(c, arg):
        data, info = arg.fields
        c.m.c08_seen.append((data.get('input').as_str().concrete(), info))
        item = Struct('TrainItem', [data, Enum('TrainTaskInput', 'SequenceClassification', 1,
                                               [VecObj([Int(1, 'u32')]), Int(0, 'u32'), VecObj([Int(0, 'i32')])])], ['data', 'input'])
        return Ok(item)

    def one_stream(rank, world, skip_, ff_, limit_):
        """runs init_iter for one configuration and drains the stream"""
        m.c08_log = []
        m.c08_seen = []
        ctx.unseeded_draws = 0
        ctx.rng_seed_terms = []
        loader = Struct('TrainLoader', [
            ArcObj(PyFn(pipeline, 'pipeline')), VecObj([m.new_string('f%d' % i) for i in range(len(lengths))]),
            Enum('GenerationStrategy', st, STRATS.index(st), []), threads, buffer, Int(shape['batch_limit'], 'usize'),
            Enum('BatchLimitType', 'BatchSize', 0, []), ArcObj(Opaque('AtomicUsize')), epoch, ff_, limit_, skip_, rank, world,
            Some(seed_in) if seed_in is not None else NONE(), False, Int(1, 'usize'), False, NONE(), NONE()])
        r = m.call('TrainLoader::init_iter', ref_to(loader))
        ctx.require(r.variant == 'Ok', 'init_iter succeeds')
        it = loader.fields[19]
        ctx.require(it.variant == 'Some', 'init_iter installs the iterator')
        ctx.require(loader.fields[18].variant == 'Some', 'min_items is set by __iter__')
        it = m.peel(it.fields[0])
        while isinstance(it, (ArcObj, BoxObj)) or (isinstance(it, Struct) and it.ty == 'Mutex'):
            it = m.peel(it.fields[0])
        batches = []
        for _ in range(n + 1):
            v = m.iter_next(ref_to(it))
            if v is STOP:
                break
            batch = m.peel(v.fields[0])
            batches.append([m.peel(x).get('data').get('input').as_str().concrete() for x in batch.items])
        else:
            ctx.fail('the stream terminates')
        return {'batches': batches, 'G': list(m.c08_log), 'seen': list(m.c08_seen), 'unseeded': ctx.unseeded_draws,
                'seed_terms': list(ctx.rng_seed_terms)}

    # reference: the uninterrupted single-process stream (rank 0 of 1, no skip / limit / fast-forward) with the same
    # files, strategy, seed and epoch
    zero, maxu = Int(0, 'usize'), Int((1 << 64) - 1, 'usize')
    ref = one_stream(zero, Int(1, 'usize'), zero, zero, maxu)
    G0 = ref['G']                # global order in which the sources were pulled: position = global item index
    names = ['s%d_%d' % g for g in G0]
    ref_flat = [x for b_ in ref['batches'] for x in b_]
    ctx.require(ref_flat == names and len(G0) == n and len(set(G0)) == n, 'the uninterrupted single-process stream yields every item once, in generator order')
    ref_info = {nm: info for nm, info in ref['seen']}
    ctx.require(ref['unseeded'] == 0, 'no randomness from an unseeded generator')
    for sd in ref['seed_terms']:
        ctx.require(term_vars(sd) <= {'seed', 'epoch'}, 'generator seeds depend only on seed and epoch')
    all_streams = []
    for rank, world in streams:
        run_ = one_stream(rank, world, skip, ff, limit)
        batches = run_['batches']
        if ctx.outputs is not None:
            ctx.outputs['stream%d' % len(all_streams)] = batches
        ctx.require(run_['G'] == G0[:len(run_['G'])], 'the global item order does not depend on rank / world size / skip / limit / fast_forward')
        flat = [x for b_ in batches for x in b_]
        ctx.require(all(x in names for x in flat) and len(set(flat)) == len(flat), 'every emitted item is a distinct item of the generator stream')
        L = [names.index(x) for x in flat]
        # (1) the stream is the arithmetic progression skip+ff+rank, +world, ... below min(limit, number of items)
        S = _u65(skip) + _u65(ff) + _u65(rank)
        E = z3.If(z3.ULT(_u65(limit), z3.BitVecVal(n, 68)), _u65(limit), z3.BitVecVal(n, 68))
        Wd = _u65(world)
        if not L:
            cond = z3.UGE(S, E)
        else:
            cs = [S == z3.BitVecVal(L[0], 68), z3.ULT(z3.BitVecVal(L[-1], 68), E), z3.UGE(z3.BitVecVal(L[-1], 68) + Wd, E)]
            for a_, b_ in zip(L, L[1:]):
                cs.append(z3.BitVecVal(a_, 68) + Wd == z3.BitVecVal(b_, 68))
            cond = z3.And(cs)
        ctx.require(cond, 'the rank stream is exactly the items skip+fast_forward+rank, +world_size, ... below min(limit, total) in order')
        # (2) every global item index is processed with the same info as in the uninterrupted stream
        ctx.require([s_[0] for s_ in run_['seen']] == flat, 'the pipeline sees exactly the emitted items, in order')
        for nm, info in run_['seen']:
            want = ref_info[nm]
            ctx.require(m.eq(info.get('seed'), want.get('seed')) and m.eq(info.get('file_idx'), want.get('file_idx')),
                        'each global item index is processed with the same info (seed, file index) whatever the rank, world size, skip or fast-forward offset')
        # (3) batches
        bl = shape['batch_limit']
        ctx.require(all(len(b_) == bl for b_ in batches[:-1]) and all(0 < len(b_) <= bl for b_ in batches), 'batches are full except the last, none empty')
        # (4) the randomness of the run is that of the reference run
        ctx.require(run_['unseeded'] == 0, 'no randomness from an unseeded generator')
        ctx.require(len(run_['seed_terms']) == len(ref['seed_terms']) and all(m.eq(x, y) is True or ctx.must(m.eq(x, y)) for x, y in zip(run_['seed_terms'], ref['seed_terms'])),
                    'generators are seeded identically in every configuration')
        all_streams.append(L)
    if shape['mode'] == 'world':
        flatall = [i for L in all_streams for i in L]
        ctx.require(len(set(flatall)) == len(flatall), 'the per-rank streams are disjoint')
        U = sorted(flatall)
        S = _u65(skip) + _u65(ff)
        E = z3.If(z3.ULT(_u65(limit), z3.BitVecVal(n, 68)), _u65(limit), z3.BitVecVal(n, 68))
        if not U:
            cond = z3.UGE(S, E)
        else:
            cond = z3.And([S == z3.BitVecVal(U[0], 68), z3.BitVecVal(U[-1] + 1, 68) == E] + [z3.BoolVal(b == a + 1) for a, b in zip(U, U[1:])])
        ctx.require(cond, 'the union of the per-rank streams is exactly the single-process stream restricted by skip (+ fast_forward) and limit')
    ctx.sample = {'lengths': lengths, 'strategy': st, 'streams': all_streams}


def run_switch(ctx, shape, opts):
    m = ctx.m
    k = shape['fns']
    seed = ctx.in_int('seed', 'u64')
    fidx = ctx.in_int('file_idx', 'usize')
    calls = []

    def mk(i):
        def f(c, inp, info):
            calls.append((i, inp, info))
            return Ok(Tup([inp, info]))
        return BoxObj(PyFn(f, 'fn%d' % i))
    probs = SWITCH_PROBS[k]
    ctx.unseeded_draws = 0
    ctx.rng_seed_terms = []
    sw = m.call('utils::switch', VecObj([mk(i) for i in range(k)]), VecObj([FP(p, 'f64') for p in probs]))
    info = Struct('TextDataInfo', [seed, fidx, MapObj('HashMap')], ['seed', 'file_idx', 'marks'])
    token = m.new_string('item')
    r = m.call_value(sw, [token, info])
    ctx.require(r.variant == 'Ok' and len(calls) == 1, 'switch calls exactly one of its functions')
    i, inp, info2 = calls[0]
    ctx.require(inp is token, 'the selected function receives the input unchanged')
    ctx.require(m.eq(m.peel(info2).get('seed'), seed) and m.eq(m.peel(info2).get('file_idx'), fidx), 'the selected function receives the same info (seed, file index)')
    ctx.require(ctx.unseeded_draws == 0, 'no randomness from an unseeded generator')
    ctx.require(len(ctx.rng_seed_terms) == 1, 'switch creates exactly one generator')
    for sd in ctx.rng_seed_terms:
        ctx.require(term_vars(sd) <= {'seed', 'file_idx'}, 'the switch generator is seeded from the item info only')
    if ctx.outputs is not None:
        ctx.outputs['ok'] = True
    ctx.sample = {'switch_fns': k, 'selected': i}


def run_substring(ctx, shape, opts):
    """the substring preprocessing: one generator seeded with info.seed selects the substring; info is passed through"""
    m = ctx.m
    seed = ctx.in_int('seed', 'u64')
    mx = ctx.in_int('max', 'usize')
    if ctx.concrete is None:
        ctx.assume(z3.And(z3.UGE(mx.z(), 1), z3.ULE(mx.z(), 6)))
    elif not 1 <= mx.v <= 6:
        raise Infeasible()
    ctx.unseeded_draws = 0
    ctx.rng_seed_terms = []
    cfg = mk_enum(m, 'PreprocessingFnConfig', shape['kind'], [mx, False])
    pf = m.call('preprocessing', cfg)
    item = Struct('TrainData', [m.new_string(shape['input']), m.new_string(shape['target'])], ['input', 'target'])
    info = Struct('TextDataInfo', [seed, Int(1, 'usize'), MapObj('HashMap')], ['seed', 'file_idx', 'marks'])
    r = m.call_value(pf, [item, info])
    ctx.require(r.variant == 'Ok', 'substring preprocessing succeeds on texts that differ only in whitespace')
    nitem, ninfo = r.fields[0].fields
    got = m.peel(nitem).get('input').as_str().concrete()
    tgt = m.peel(nitem).get('target').as_str().concrete()
    if ctx.outputs is not None:
        ctx.outputs['ok'] = True
    ctx.require(got is not None and got in shape['input'] and len(got) >= 1, 'the new input is a non-empty substring of the input')
    ctx.require(ctx.must(m.int_binop('Le', Int(len(got), 'usize'), mx)), 'the substring respects the length limit')
    ctx.require(tgt is not None and tgt.replace(' ', '') == got.replace(' ', '') and tgt in shape['target'],
                'the new target is the matching part of the target')
    ctx.require(m.eq(m.peel(ninfo).get('seed'), seed) and m.eq(m.peel(ninfo).get('file_idx'), Int(1, 'usize')), 'info is passed through unchanged')
    ctx.require(ctx.unseeded_draws == 0, 'no randomness from an unseeded generator')
    ctx.require(len(ctx.rng_seed_terms) == 1, 'the substring preprocessing creates exactly one generator')
    for sd in ctx.rng_seed_terms:
        ctx.require(term_vars(sd) <= {'seed'}, 'the substring generator is seeded from the item info only')
    ctx.sample = {'substring': got, 'target': tgt}


# ------------------------------------------------------------------ native side

TEXT = ' lorem ipsum dolor sit amet consectetur adipiscing elit sed do'


def _files(shape, long=False):
    return [[json.dumps({'input': 's%d_%d%s' % (s, j, TEXT if long else '')}) for j in range(n)] for s, n in enumerate(shape['lengths'])]


def _call(native, shape, inputs, rank, world, pipeline='plain', long=False, **over):
    kw = dict(files=_files(shape, long), strategy=shape['strategy'], pipeline=pipeline, threads=inputs.get('threads', 0),
              buffer=str(inputs.get('buffer', 4) % 7), batch_limit=shape['batch_limit'],
              seed=str(inputs['seed']) if inputs.get('has_seed') else None, skip=str(inputs['skip']),
              limit=str(inputs['limit']) if inputs.get('has_limit') else None, rank=str(rank), world=str(world),
              epoch=str(inputs['epoch']), ff=str(inputs['ff']), _timeout=30.0)
    kw.update(over)
    return native_ok(native.call('train_loader', **kw))


def _streams(shape, inputs):
    if shape['mode'] == 'single':
        return [(inputs['rank'], inputs['world'])]
    return [(r, shape['world']) for r in range(shape['world'])]


def native_outputs(native, shape, inputs):
    if shape['part'] != 'loader':
        return {'ok': True}
    out = {}
    for i, (rank, world) in enumerate(_streams(shape, inputs)):
        k, v = _call(native, shape, inputs, rank, world)
        if k != 'ok':
            return {'panic': v}
        out['stream%d' % i] = [[it[0] for it in b] for b in v['batches']]
    return out


def concrete_check(native, inputs, shape):
    if shape['part'] == 'task':
        if shape['task'] == 'Classification':
            kw = dict(task='Classification', classes=CLASSES, input=[0x61, 0x62], target=[ord(c) for c in CLASSES[inputs.get('class', 0)]])
        else:
            kw = dict(task='WhitespaceCorrection', classes=[], input=[0x61, 0x20, 0x62], target=[0x61, 0x62])
        failed = set()
        for cls in (range(len(CLASSES)) if shape['task'] == 'Classification' else [0]):
            if shape['task'] == 'Classification':
                kw['target'] = [ord(c) for c in CLASSES[cls]]
            k, v = native_ok(native.call('task_consistency', trials=16, **kw))
            if k != 'ok':
                return ['no panic']
            if len(v) != 1 or v[0].startswith('Err'):
                failed.add(TASK_CLAIM if len(v) != 1 else 'the task function succeeds')
        return sorted(failed)
    if shape['part'] != 'loader':
        # native oracle for the seed discipline of the combinators: the same (item, info) processed repeatedly must give
        # one result and hand the info through; which term seeds the generator is decided symbolically only
        if shape['part'] == 'switch':
            kw = dict(kind='switch', fns=shape['fns'], probs=SWITCH_PROBS[shape['fns']], input='x', target='x')
        else:
            kw = dict(kind=shape['kind'], max=str(inputs['max']), input=shape['input'], target=shape['target'])
        failed = []
        for sd, mx in [(inputs['seed'], inputs.get('max', 1))] + [(a, b) for a in range(4) for b in ((1, 2, 3) if shape['part'] == 'substring' else (1,))]:
            if shape['part'] == 'substring':
                kw['max'] = str(mx)
            k, v = native_ok(native.call('preproc_repeat', seed=str(sd), n=24, _timeout=20.0, **kw))
            if k != 'ok':
                return ['no panic']
            if len(v) != 1 and 'no randomness from an unseeded generator' not in failed:
                failed.append('no randomness from an unseeded generator')
            if any(('seed=%d file=1' % sd) not in o for o in v if not o.startswith('Err')):
                failed.append('info is passed through unchanged' if shape['part'] == 'substring' else
                              'the selected function receives the same info (seed, file index)')
                break
        return failed
    n = sum(shape['lengths'])
    failed = set()
    # reference: the uninterrupted single-process stream with the same seed and epoch (random preprocessing exposes the seeds)
    seeds = [inputs.get('seed')] if shape['strategy'] != 'Weighted' else [inputs.get('seed'), 0, 1, 2, 3]
    for sd in seeds:
        inp = dict(inputs, seed=sd if sd is not None else 0, has_seed=1 if (sd is not None or inputs.get('has_seed')) else 0)
        k, full = _call(native, shape, inp, 0, 1, 'wscorrupt', True, skip='0', limit=None, ff='0', threads=0, buffer='1', batch_limit=1)
        if k != 'ok':
            return ['init_iter succeeds']
        F = [b[0] for b in full['batches']]
        ids = [x[1] for x in F]
        for _ in range(6):   # the same configuration again: every source of randomness must come from the seed
            k, again = _call(native, shape, inp, 0, 1, 'wscorrupt', True, skip='0', limit=None, ff='0', threads=0, buffer='1', batch_limit=1)
            if k != 'ok' or again != full:
                failed.add('no randomness from an unseeded generator')
                break
        union = []
        for rank, world in _streams(shape, inp):
            start = inp['skip'] + inp['ff'] + rank
            end = min(inp['limit'], n) if inp.get('has_limit') else n
            want = list(range(start, end, world)) if start < end else []
            runs = []
            for th, bf in ((0, '1'), (3, '4')):
                k, v = _call(native, shape, inp, rank, world, 'wscorrupt', True, threads=th, buffer=bf)
                if k != 'ok':
                    return ['init_iter succeeds']
                runs.append(v['batches'])
            if runs[0] != runs[1]:
                failed.add('the stream is identical for every worker count and buffer size')
            got = [it for b in runs[0] for it in b]
            if any(it[1] not in ids for it in got):
                failed.add('every emitted item is a distinct item of the generator stream')
                continue
            L = [ids.index(it[1]) for it in got]
            union += L
            if L != want:
                failed.add('the rank stream is exactly the items skip+fast_forward+rank, +world_size, ... below min(limit, total) in order')
            if any(it != F[i] for it, i in zip(got, L)):
                failed.add('each global item index is processed with the same info (seed, file index) whatever the rank, world size, skip or fast-forward offset')
            bl = shape['batch_limit']
            bs = runs[0]
            if not (all(len(b) == bl for b in bs[:-1]) and all(0 < len(b) <= bl for b in bs)):
                failed.add('batches are full except the last, none empty')
        if shape['mode'] == 'world':
            if len(set(union)) != len(union):
                failed.add('the per-rank streams are disjoint')
            s0 = inp['skip'] + inp['ff']
            e0 = min(inp['limit'], n) if inp.get('has_limit') else n
            if sorted(union) != (list(range(s0, e0)) if s0 < e0 else []):
                failed.add('the union of the per-rank streams is exactly the single-process stream restricted by skip (+ fast_forward) and limit')
        # a second epoch / seed pair with the same sum must process items identically (seed + epoch + index)
    return sorted(failed)


def _case(lengths, st, mode, world=None, **kw):
    inp = dict(skip=0, ff=0, epoch=0, has_limit=0, has_seed=1, seed=22, threads=2, buffer=3)
    inp.update(kw)
    shape = {'part': 'loader', 'lengths': lengths, 'strategy': st, 'mode': mode, 'batch_limit': 2}
    if mode == 'world':
        shape['world'] = world
    else:
        inp.setdefault('rank', 0)
        inp.setdefault('world', 1)
    return (shape, inp)


FIXED_CASES = [_case([3], 'Sequential', 'single'), _case([2, 2], 'Interleaved', 'single', rank=1, world=2, skip=1),
               _case([3, 1], 'Sequential', 'world', 2, ff=1, has_limit=1, limit=3), _case([2, 1], 'Interleaved', 'world', 3, epoch=4),
               ({'part': 'switch', 'fns': 2}, {'seed': 5, 'file_idx': 0}),
               ({'part': 'substring', 'kind': 'CharSubstring', 'input': 'ab c', 'target': 'ab c'}, {'seed': 5, 'max': 2})]


def random_case(rng):
    lengths = rng.choice([[1], [2], [3], [4], [1, 1], [2, 1], [1, 2], [2, 2], [3, 1]])
    st = rng.choice(['Sequential', 'Interleaved']) if len(lengths) > 1 else 'Sequential'
    kw = dict(skip=rng.randint(0, 3), ff=rng.randint(0, 2), epoch=rng.randint(0, 3), has_limit=rng.randint(0, 1), limit=rng.randint(0, 5),
              has_seed=rng.randint(0, 1), seed=rng.randint(0, 1000), threads=rng.randint(0, 3), buffer=rng.randint(1, 5))
    if rng.random() < 0.5:
        w = rng.randint(1, 3)
        return _case(lengths, st, 'single', rank=rng.randint(0, w - 1), world=w, **kw)
    return _case(lengths, st, 'world', rng.randint(2, 3), **kw)
