"""C16: inference windows tile the text and respect the size limits."""
import z3
from values import *
from harnesses.hlib import *

PROPERTY = 'C16'
VALIDATE_MODELS = ['utf8', 'graphemes']
VALIDATION_CASES = {'quick': 200, 'thorough': 600}
TIME_BUDGET = {'quick': 900, 'thorough': 3300}
BOUNDS = {
    'quick': 'texts of 1-3 characters (plus the empty text), every UTF-8 width combination, code points symbolic; '
             '(max length, context length) symbolic: any values below 16 for all texts, and unconstrained 64-bit values '
             '(overflow configurations) for texts of <= 1 character; char / byte / full windows; grapheme mode <= 2 code points (+1 shape of 3) over Sigma_g; '
             'possible_character_substrings / possible_byte_substrings on the same texts with symbolic limits; grapheme mode: a 257-byte cluster (letter + 128 combining marks) followed by 1-2 symbolic characters',
    'thorough': 'same with texts of <= 4 characters, unconstrained 64-bit limits for <= 2 characters, grapheme mode <= 3 code points',
}
OUTSIDE = ['possible_character_substrings with max_chars = 0 (asserts; not a window configuration)', 'longer texts', 'grapheme mode outside Sigma_g', 'the Python wrappers char_py / byte_py']
ASSUMPTIONS = ['a window configuration is valid iff max > 2*context over the integers (not modulo 2^64)',
               'std models listed under coverage.std_models_used']
KNOWN_MATCHERS = {}
U64 = (1 << 64) - 1


def shapes(tier):
    n = 3 if tier == 'quick' else 4
    nwide = 1 if tier == 'quick' else 2
    out = []
    for ws in width_shapes(n):
        for kind in ('char', 'byte', 'subs'):
            out.append({'widths': ws, 'g': False, 'kind': kind, 'regime': 'small'})
            if len(ws) <= nwide:
                out.append({'widths': ws, 'g': False, 'kind': kind, 'regime': 'wide'})
    for ws in width_shapes(2 if tier == 'quick' else 3, widths=(1, 2, 3), min_n=1):
        for kind in ('char', 'byte'):
            out.append({'widths': ws, 'g': True, 'kind': kind, 'regime': 'small'})
    for ws in ([[1, 2, 1]] if tier == 'quick' else [[3, 3, 3], [1, 1, 2]]):
        for kind in ('char', 'byte'):
            out.append({'widths': ws, 'g': True, 'kind': kind, 'regime': 'small'})
    out.append({'widths': [1, 2], 'g': False, 'kind': 'full'})
    out.append({'widths': [], 'g': True, 'kind': 'full'})
    # full windows in grapheme mode over texts that can contain multi-code-point clusters (CR LF, base + mark)
    for ws in ([[1], [1, 1], [1, 2], [3, 3], [1, 2, 1]] if tier == 'quick' else [[1], [2], [1, 1], [1, 2], [2, 1], [3, 3], [1, 2, 1], [1, 1, 1], [3, 2, 3]]):
        out.append({'widths': ws, 'g': True, 'kind': 'full'})
    # grapheme mode: a single cluster whose byte length crosses 2^8 (base letter + k combining marks of 2 bytes) followed by
    # symbolic characters: byte offsets beyond 255
    for k in ((128,) if tier == 'quick' else (127, 128, 200)):
        for ws, kind in (([1], 'char'), ([1], 'full'), ([2, 1], 'char'), ([1], 'byte')):
            out.append({'widths': ws, 'g': True, 'kind': kind, 'regime': 'small', 'big': k})
    tiny = [s for s in out if len(s['widths']) <= 1]
    rest = [s for s in out if len(s['widths']) > 1]
    rest.sort(key=lambda s: -(len(s['widths']) + (3 if s['g'] else 0)))
    return tiny + rest


def big_prefix(shape, mk=lambda c: c):
    return [mk(0x61)] + [mk(0x301)] * shape['big'] if shape.get('big') else []


def assume_regime(ctx, shape, mx, cx=None):
    """'small': limits below 16 (all tilings of the bounded texts occur there); 'wide': unconstrained 64-bit values."""
    if shape.get('regime', 'wide') == 'small' and ctx.concrete is None:
        ctx.assume(z3.ULT(mx.z(), 16))
        if cx is not None:
            ctx.assume(z3.ULT(cx.z(), 16))


def ival(x):
    return x if isinstance(x, Int) else Int(x, 'usize')


def window_fields(w):
    # Window { ctx_start, ctx_end, window_start, window_end, byte_ctx_start, byte_ctx_end, byte_window_start,
    #          byte_window_end, str }   (declaration order)
    return dict(zip(w.names, w.fields))


def out_windows(ctx, r):
    if ctx.outputs is None:
        return
    if r.variant == 'Err':
        ctx.outputs['windows'] = {'Err': True}
        return
    ws = []
    for w in r.fields[0].items:
        f = window_fields(w)
        ws.append({k: to_py(ctx, v) for k, v in f.items()})
    ctx.outputs['windows'] = {'Ok': ws}


def run(ctx, shape, opts):
    m = ctx.m
    g = shape['g']
    kind = shape['kind']
    s = ctx.in_string('s', shape['widths'])
    chars = s.chars()
    if g:
        assume_sigma_g(ctx, chars)
    if shape.get('big'):
        chars = big_prefix(shape, lambda c: Int(c, 'char')) + list(chars)
        buf = StrBuf(chars, [ctx.char_width(c) for c in chars])
        s = StrRef(buf, 0, buf.byte_len())
    units = units_of(ctx, chars, g)
    n = len(units)
    widths = s.widths()
    # byte offset of every unit boundary
    boff = [0]
    for a, b in units:
        boff.append(boff[-1] + sum(widths[a:b]))
    total_bytes = boff[-1]
    if kind == 'subs':
        return run_subs(ctx, s, g, units, boff, shape)
    if kind == 'full':
        r = m.call('windows::windows', s, ref_to(Enum('WindowConfig', 'Full', 2, [g])))
        out_windows(ctx, r)
        ctx.require(r.variant == 'Ok' and len(r.fields[0].items) == 1, 'full: exactly one window')
        f = window_fields(r.fields[0].items[0])
        ctx.require(m.conj([m.eq(f['ctx_start'], ival(0)), m.eq(f['window_start'], ival(0)), m.eq(f['window_end'], ival(n)),
                            m.eq(f['ctx_end'], ival(n)), m.eq(f['byte_window_end'], ival(total_bytes)),
                            m.eq(f['byte_ctx_end'], ival(total_bytes))]), 'full: the window is the whole text')
        ctx.sample = {'kind': kind, 'widths': shape['widths']}
        return
    mx = ctx.in_int('max', 'usize')
    cx = ctx.in_int('context', 'usize')
    assume_regime(ctx, shape, mx, cx)
    fn = 'windows::char' if kind == 'char' else 'windows::byte'
    via = ctx.in_choice('via_dispatch', 2)
    if via:
        cfg = Enum('WindowConfig', 'Character' if kind == 'char' else 'Bytes', 0 if kind == 'char' else 1, [mx, cx, g])
        r = m.call('windows::windows', s, ref_to(cfg))
    else:
        r = m.call(fn, s, mx, cx, g)
    out_windows(ctx, r)
    # validity over the integers: max > 2*ctx  (65-bit arithmetic)
    valid = z3.UGT(z3.ZeroExt(2, mx.z()), z3.ZeroExt(2, cx.z()) * 2) if (mx.sym() or cx.sym()) else (mx.v > 2 * cx.v)
    if n == 0:
        if via:
            ctx.require(r.variant == 'Ok' and len(r.fields[0].items) == 1, 'empty text: one empty window')
        return
    if r.variant == 'Err':
        if kind == 'char':
            ctx.require(m.bnot(valid), 'char windows: Err only for an impossible configuration')
        else:
            # byte windows may also fail when a character cannot fit: necessary condition = some unit has more bytes
            # than max - 2*ctx (the smallest window length)
            ubytes = max(boff[i + 1] - boff[i] for i in range(n))
            if mx.sym() or cx.sym():
                nofit = z3.ULT(mx.z() - cx.z() * 2, ubytes)
                ctx.require(z3.Or(z3.Not(valid), nofit),
                            'byte windows: Err only for an impossible configuration or a character that cannot fit')
            else:
                ctx.require((not valid) or (mx.v - 2 * cx.v < ubytes),
                            'byte windows: Err only for an impossible configuration or a character that cannot fit')
        ctx.sample = {'kind': kind, 'widths': shape['widths'], 'result': 'Err'}
        return
    ctx.require(valid, 'an impossible configuration (max <= 2*context) yields an error')
    ws = [window_fields(w) for w in r.fields[0].items]
    ctx.require(len(ws) >= 1, 'non-empty text has at least one window')
    conds = [m.eq(ws[0]['window_start'], ival(0)), m.eq(ws[-1]['window_end'], ival(n)),
             m.eq(ws[0]['byte_window_start'], ival(0)), m.eq(ws[-1]['byte_window_end'], ival(total_bytes))]
    for k in range(len(ws) - 1):
        conds.append(m.eq(ws[k + 1]['window_start'], ws[k]['window_end']))
        conds.append(m.eq(ws[k + 1]['byte_window_start'], ws[k]['byte_window_end']))
    ctx.require(m.conj(conds), 'windows tile the text (first starts at 0, each starts where the previous ended, last ends at len)')
    for w in ws:
        # concretise the four character boundaries (forks) to evaluate the remaining claims
        vals = {}
        for key in ('ctx_start', 'window_start', 'window_end', 'ctx_end'):
            v = ctx.concretize(w[key], 0, n + 1)
            ctx.require(v is not None, 'window boundary inside the text')
            vals[key] = v
        ctx.require(vals['ctx_start'] <= vals['window_start'] < vals['window_end'] <= vals['ctx_end'],
                    'context contains its non-empty window')
        ctx.require(m.conj([m.eq(w['byte_ctx_start'], ival(boff[vals['ctx_start']])),
                            m.eq(w['byte_window_start'], ival(boff[vals['window_start']])),
                            m.eq(w['byte_window_end'], ival(boff[vals['window_end']])),
                            m.eq(w['byte_ctx_end'], ival(boff[vals['ctx_end']]))]),
                    'byte and character boundaries denote the same positions')
        size = (vals['ctx_end'] - vals['ctx_start']) if kind == 'char' else (boff[vals['ctx_end']] - boff[vals['ctx_start']])
        ctx.require(m.int_binop('Le', ival(size), mx), 'context never exceeds the configured maximum')
        st = w['str']
        exp = chars[units[vals['ctx_start']][0]:units[vals['ctx_end'] - 1][1]]
        ctx.require(chars_equal(ctx, st.chars(), exp), 'reported string is exactly the context slice')
    ctx.sample = {'kind': kind, 'graphemes': g, 'widths': shape['widths'], 'windows': len(ws)}


def run_subs(ctx, s, g, units, boff, shape):
    m = ctx.m
    n = len(units)
    lim = ctx.in_int('max', 'usize')
    assume_regime(ctx, shape, lim)
    # max_chars = 0 is not a window configuration the property speaks about (possible_character_substrings asserts)
    ctx.assume(m.int_binop('Ge', lim, Int(1, 'usize')))
    r1 = m.call('possible_character_substrings', s, lim, g)
    r2 = m.call('possible_byte_substrings', s, lim, g)
    ctx.out('char_subs', r1)
    ctx.out('byte_subs', r2)
    for which, r in (('char', r1), ('byte', r2)):
        for t in m.peel(r).items:
            sb = ctx.concretize(t.fields[0], 0, boff[-1] + 1)
            eb = ctx.concretize(t.fields[1], 0, boff[-1] + 1)
            nc = ctx.concretize(t.fields[2], 0, n + 1)
            ctx.require(sb is not None and eb is not None and nc is not None, which + ' substrings: values inside the text')
            if n == 0:
                ctx.require((sb, eb, nc) == (0, 0, 0), which + ' substrings of the empty text')
                continue
            ctx.require(sb in boff and eb in boff and sb <= eb, which + ' substrings: on character boundaries')
            ctx.require(boff.index(eb) - boff.index(sb) == nc, which + ' substrings: reported character count')
            size = nc if which == 'char' else eb - sb
            ctx.require(m.int_binop('Le', ival(size), lim) if which == 'byte' else True, which + ' substrings: size limit')
    ctx.sample = {'kind': 'subs', 'n': n}


# ------------------------------------------------------------------ native side

def _gunits(native, cps, g):
    if not g:
        return [(i, i + 1) for i in range(len(cps))]
    out, k = [], 0
    for l in native.call('graphemes', s=cps)['ok']:
        out.append((k, k + l))
        k += l
    return out


def native_outputs(native, shape, inputs):
    g, kind = shape['g'], shape['kind']
    s = big_prefix(shape) + list(inputs['s'])
    if kind == 'subs':
        out = {}
        for name, op in (('char_subs', 'possible_character_substrings'), ('byte_subs', 'possible_byte_substrings')):
            k, v = native_ok(native.call(op, s=s, max=str(inputs['max']), g=g))
            if k != 'ok':
                return {'panic': v}
            out[name] = v
        return out
    if kind == 'full':
        k, v = native_ok(native.call('windows', s=s, kind='full', max='0', ctx='0', g=g, dispatch=True))
    else:
        k, v = native_ok(native.call('windows', s=s, kind=kind, max=str(inputs['max']), ctx=str(inputs['context']), g=g,
                                     dispatch=bool(inputs['via_dispatch'])))
    if k != 'ok':
        return {'panic': v}
    return {'windows': v}


def concrete_check(native, inputs, shape):
    g, kind = shape['g'], shape['kind']
    s = big_prefix(shape) + list(inputs['s'])
    o = native_outputs(native, shape, inputs)
    if 'panic' in o:
        return ['no panic']
    units = _gunits(native, s, g)
    n = len(units)
    wd = widths_of(s)
    boff = [0]
    for a, b in units:
        boff.append(boff[-1] + sum(wd[a:b]))
    failed = []
    if kind == 'subs':
        lim = inputs['max']
        if lim < 1:
            return []
        for which, key in (('char', 'char_subs'), ('byte', 'byte_subs')):
            for sb, eb, nc in o[key]:
                if n == 0:
                    if (sb, eb, nc) != (0, 0, 0):
                        failed.append(which + ' substrings of the empty text')
                    continue
                if not (sb in boff and eb in boff and sb <= eb):
                    failed.append(which + ' substrings: on character boundaries')
                    continue
                if boff.index(eb) - boff.index(sb) != nc:
                    failed.append(which + ' substrings: reported character count')
                if which == 'byte' and eb - sb > lim:
                    failed.append(which + ' substrings: size limit')
        return failed
    r = o['windows']
    if kind == 'full':
        if 'Ok' not in r or len(r['Ok']) != 1:
            return ['full: exactly one window']
        w = r['Ok'][0]
        if (w['ctx_start'], w['window_start'], w['window_end'], w['ctx_end'], w['byte_window_end'], w['byte_ctx_end']) != \
                (0, 0, n, n, boff[-1], boff[-1]):
            failed.append('full: the window is the whole text')
        return failed
    mx, cx = inputs['max'], inputs['context']
    valid = mx > 2 * cx
    if n == 0:
        if not inputs['via_dispatch']:
            return []
        return [] if ('Ok' in r and len(r['Ok']) == 1) else ['empty text: one empty window']
    if 'Err' in r:
        if kind == 'char':
            return [] if not valid else ['char windows: Err only for an impossible configuration']
        if not valid:
            return []
        # a unit must be wider than the window length available at its position
        fits_all = all((boff[i + 1] - boff[i]) <= mx - 2 * cx for i in range(n))
        return ['byte windows: Err only for an impossible configuration or a character that cannot fit'] if fits_all else []
    if not valid:
        return ['an impossible configuration (max <= 2*context) yields an error']
    ws = r['Ok']
    if not ws:
        return ['non-empty text has at least one window']
    ok = ws[0]['window_start'] == 0 and ws[-1]['window_end'] == n and ws[0]['byte_window_start'] == 0 and \
        ws[-1]['byte_window_end'] == boff[-1]
    for k in range(len(ws) - 1):
        ok = ok and ws[k + 1]['window_start'] == ws[k]['window_end'] and ws[k + 1]['byte_window_start'] == ws[k]['byte_window_end']
    if not ok:
        failed.append('windows tile the text (first starts at 0, each starts where the previous ended, last ends at len)')
    for w in ws:
        cs_, ws_, we_, ce_ = w['ctx_start'], w['window_start'], w['window_end'], w['ctx_end']
        if max(cs_, ws_, we_, ce_) > n:
            failed.append('window boundary inside the text')
            continue
        if not (cs_ <= ws_ < we_ <= ce_):
            failed.append('context contains its non-empty window')
            continue
        if (w['byte_ctx_start'], w['byte_window_start'], w['byte_window_end'], w['byte_ctx_end']) != \
                (boff[cs_], boff[ws_], boff[we_], boff[ce_]):
            failed.append('byte and character boundaries denote the same positions')
        size = (ce_ - cs_) if kind == 'char' else (boff[ce_] - boff[cs_])
        if size > mx:
            failed.append('context never exceeds the configured maximum')
        if w['str'] != s[units[cs_][0]:units[ce_ - 1][1]]:
            failed.append('reported string is exactly the context slice')
    return failed


def _case(text, kind, mx, cx, g=False, dispatch=0):
    cps = [ord(c) for c in text]
    return ({'widths': widths_of(cps), 'g': g, 'kind': kind}, {'s': cps, 'max': mx, 'context': cx, 'via_dispatch': dispatch})


FIXED_CASES = [_case('this is a test', 'char', 5, 1), _case('this is a test', 'byte', 6, 2, dispatch=1),
               _case('tä中😀', 'byte', 6, 1), _case('tä中😀', 'char', 3, 1, g=True), _case('ab', 'char', 2, 1),
               _case('a😀', 'byte', 3, 0), _case('abc', 'char', U64, 1 << 63),
               ({'widths': [1, 2], 'g': False, 'kind': 'subs'}, {'s': [0x61, 0xE4], 'max': 2})]


def random_case(rng):
    pool = [0x61, 0x62, 0xE4, 0x4E2D, 0x1F600, 0x20]
    s = [rng.choice(pool) for _ in range(rng.randint(0, 6))]
    kind = rng.choice(['char', 'byte', 'subs'])
    if kind == 'subs':
        return ({'widths': widths_of(s), 'g': False, 'kind': 'subs'}, {'s': s, 'max': rng.choice([1, 1, 2, 3, 5, 8, U64])})
    mx = rng.choice([0, 1, 2, 3, 4, 5, 7, 9, U64, 1 << 63])
    cx = rng.choice([0, 0, 1, 2, 3, U64, 1 << 63, (1 << 63) - 1])
    return ({'widths': widths_of(s), 'g': False, 'kind': kind}, {'s': s, 'max': mx, 'context': cx, 'via_dispatch': rng.randint(0, 1)})
