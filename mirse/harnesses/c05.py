"""C05: the threaded pipeline is observationally a sequential map, under every schedule (MIRBMC)."""
import random
import time
from harnesses.bmc_common import *
from harnesses.hlib import native_ok

PROPERTY = 'C05'
BOUNDS = {
    'quick': 'W in {1, 2} worker threads, upstream length n symbolic in [0, 3], channel capacity = W, '
             'every interleaving of workers and consumer at the visible operations (lock+pull+unlock+compute, turn load, '
             'send, turn store, sender drop) within K = 4n + 3W + n + 1 scheduler steps (the exact progress bound); W = 0 '
             '(unthreaded branch): Pipe::new / Pipe::next interpreted by MIRSE on n in [0, 4] items with symbolic payloads',
    'thorough': 'additionally W=3 with n <= 2 and n <= 3; unthreaded branch n in [0, 7]',
}
OUTSIDE = ['more workers / longer inputs', 'memory orderings weaker than SeqCst (reported as outside the model)',
           'std Mutex / mpsc internals (fixed semantics = trusted base)', 'OS scheduler fairness (assumed for termination)']
ASSUMPTIONS = ['sync primitive semantics: Mutex::lock enabled iff free; guard drop releases; Enumerate::next on the shared upstream; '
               'SeqCst atomics; SyncSender::send enabled iff queue shorter than the capacity or the receiver is gone (then Err); '
               'dropping the closure environment drops its sender; recv returns None when the queue is empty and no sender is left',
               'operations that touch only thread-local or mutex-protected state are fused with the preceding visible operation',
               'the processing function is an arbitrary total function (identity on item indices) with arbitrary delay']


SEQ_CLAIMS = None     # every claim of the unthreaded sub-harness belongs to C05 except the lookahead one (C09)


def configs(tier):
    if tier == 'premise':
        return [(2, 2)]
    c = [(1, 3), (2, 2), (2, 3)]
    if tier == 'thorough':
        c += [(3, 2), (3, 3)]
    return c


def jobs_for(tier, mir, repo, facts=None):
    """W below is the configured num_threads; the number of spawned workers and the consumer's receive come from the MIR"""
    jobs = []
    facts = facts or {}
    start = facts.get('spawn_start', 0)
    cfg = {'consumer_may_time_out': facts.get('consumer', {}).get('recv', 'blocking') != 'blocking'}
    ends = facts.get('spawn_end', {})
    for T, N in configs(tier):
        W = max(ends.get(T, T) - start, 0)
        cfg = dict(cfg, captures=worker_captures(facts['_prog'], repo, T)) if facts.get('_prog') is not None else cfg
        K = 4 * N + 3 * W + N + 1
        extra = {'num_threads': T, 'consumer_timeout_ms': facts.get('consumer', {}).get('timeout_ms')}
        for q in ('witness', 'safety', 'stuck'):
            jobs.append(dict({'name': 'pipe W=%d n<=%d %s' % (T, N, q), 'which': 'pipe', 'W': W, 'cap': T, 'N': N, 'K': K,
                              'n_mode': 'bounded', 'cfg': dict(cfg), 'query': q, 'mir': mir, 'repo': repo}, **extra))
        jobs.append(dict({'name': 'pipe W=%d n<=%d termination' % (T, N), 'which': 'pipe', 'W': W, 'cap': T, 'N': N, 'K': K + 1,
                          'n_mode': 'bounded', 'cfg': dict(cfg), 'query': 'termination', 'mir': mir, 'repo': repo}, **extra))
    return jobs


def native_replay(native, res, seed):
    """Replay a counterexample schedule against the real Pipe: the schedule is reproduced through per-item processing
    delays (the order in which computations finish) for several delay scales; returns failing claims."""
    W, n = res.get('num_threads', res['W']), res.get('n', res['N'])
    if n == 0:
        n = 2
    rng = random.Random(seed)
    patterns = [[0] * n, [(n - i) * 15 for i in range(n)], [(i % 2) * 25 for i in range(n)], [(i == 0) * 60 for i in range(n)]]
    for _ in range(6):
        patterns.append([rng.choice([0, 5, 20, 50]) for _ in range(n)])
    # very different processing speeds (seconds) - only tried when nothing failed so far
    patterns.append([6500] + [0] * max(0, n - 1))
    if res.get('consumer_timeout_ms'):
        # the consumer's receive gives up after a constant read from the MIR: one item slower than that
        patterns.append([0] * (n - 1) + [int(res['consumer_timeout_ms']) + 1500])
    failed = set()
    for d in patterns:
        if failed and max(d + [0]) > 1000:
            break
        k, v = native_ok(native.call('pipe_run', n=n, w=W, delays_ms=d, consume=-1, then='drain', _timeout=20.0 + max(d + [0]) / 1000.0))
        if k == 'timeout':
            failed.add('the iteration ends after the last item (no deadlock / livelock)')
            continue
        if k != 'ok':
            failed.add('no panic')
            continue
        if v['outputs'] != list(range(n)):
            failed.add('outputs are f(x0), f(x1), ... in input order, nothing lost or duplicated')
        if any(p != 1 for p in v['processed'][:n]):
            failed.add('every input is processed exactly once')
    return sorted(failed)


def validate_against_impl(native, seed, count):
    """Run the real Pipe under random delays and compare with the model's verdict (ordered, exactly once, terminates)."""
    rng = random.Random(seed)
    done = 0
    for _ in range(count):
        n = rng.randint(0, 6)
        W = rng.randint(0, 3)
        d = [rng.choice([0, 0, 1, 3, 8]) for _ in range(n)]
        k, v = native_ok(native.call('pipe_run', n=n, w=W, delays_ms=d, consume=-1, then='drain', _timeout=10.0))
        if k != 'ok' or v['outputs'] != list(range(n)) or any(p != 1 for p in v['processed'][:n]):
            raise Unsupported('model validation: the real Pipe (n=%d, W=%d, delays %r) gave %r %r' % (n, W, d, k, v))
        done += 1
    return done


CLAIM_OF = {'safety': 'outputs are f(x0), f(x1), ... in input order, nothing lost or duplicated, every input processed exactly once, '
                      'end of stream only after the last item',
            'stuck': 'no reachable state in which the iteration is unfinished and no thread can make progress (deadlock / livelock)',
            'termination': 'every execution makes at most 4n + 3W + n + 1 progress steps (termination under fair scheduling)',
            'witness': 'vacuity guard: a complete run (all items received, then None) is reachable within the bound'}


def custom_main(tier, seed, mir, repo, get_native, procs, prop=PROPERTY):
    t0 = time.time()
    prog = Program(mir)
    facts = pipe_facts(prog, repo)
    lines, incon, violations = [], [], []
    if not facts['capacity_is_num_threads'] or not facts['counter_starts_at_zero']:
        incon.append('structural premises of Pipe::new not recognised (channel capacity / initial turn counter): %r' %
                     {k: v for k, v in facts.items() if k != 'worker'})
    try:
        facts.update(spawn_facts(prog, repo))
        facts['consumer'] = consumer_facts(prog, repo, 'pipe')
    except Unsupported as e:
        incon.append(str(e))
    facts['_prog'] = prog
    jobs = jobs_for(tier, mir, repo, facts)
    del facts['_prog']
    results = run_jobs(jobs, procs)
    native = get_native()
    # W = 0: the unthreaded branch of Pipe::new / Pipe::next is interpreted by MIRSE (lazy sequential map)
    seq = run_unthreaded('quick' if tier == 'premise' else tier, mir, repo, native, seed, procs, 'C05', SEQ_CLAIMS)
    violations += seq['violations']
    incon += seq['incon']
    nval = 0
    replays = []
    undecided = []
    quick_cfg = {(T, N) for T, N in configs('quick')}
    for r in sorted(results, key=lambda r: r['name']):
        if r['result'] == 'unknown' and tier == 'thorough' and (r.get('num_threads', r.get('W')), r.get('N')) not in quick_cfg:
            # deep tier: a query beyond the quick configurations that the solver does not decide within its time limit
            undecided.append(r['name'])
            continue
        if r['result'] in ('unsupported', 'error', 'unknown'):
            incon.append('%s: %s' % (r['name'], r.get('error', r['result'])))
            continue
        if r['result'] != r['expect']:
            if r['expect'] == 'sat':
                incon.append('vacuity guard failed: %s is unreachable in the model' % r['name'])
                continue
            failed = native_replay(native, r, seed)
            rec = {'property': prop, 'claim': CLAIM_OF[r['query']], 'config': {k: r[k] for k in ('W', 'N', 'K', 'cap')},
                   'n': r.get('n'), 'schedule': r.get('trace'), 'native_failed_claims': failed}
            if failed:
                violations.append(rec)
            else:
                incon.append('counterexample schedule of "%s" did not reproduce natively under the delay patterns tried' % r['name'])
                replays.append(rec)
    if not violations and not incon:
        # the model found nothing: the real Pipe must agree on random runs (otherwise the encoding is wrong)
        nval = validate_against_impl(native, seed, {'quick': 25, 'premise': 8}.get(tier, 80))
    cov = {
        'states': sum(r.get('block_instances', 0) for r in results) or 1,
        'transitions': sum(r.get('steps', 0) * (r.get('W', 0) + 2) for r in results) or 1,
        'traces_validated_against_impl': nval,
        'samples': [{k: r.get(k) for k in ('name', 'result', 'expect', 'solve_s', 'K')} for r in sorted(results, key=lambda r: r['name'])][:12],
        'evaluations': len(results), 'distinct_nontrivial': sum(1 for r in results if r['result'] == r['expect']),
        'rule': 'one evaluation = one SMT query over all schedules of a (W, n-bound, K) configuration',
        'engine': 'MIRBMC (transition relation generated from the MIR CFG of %s, z3 %s QF_BV)' % (facts['worker'].name, z3.get_version_string()),
        'functions_encoded': sorted({r.get('function') for r in results if r.get('function')}),
        'visible_blocks': next((r['visible_blocks'] for r in results if r.get('visible_blocks')), None),
        'queries': [{k: r.get(k) for k in ('name', 'result', 'expect', 'solve_s', 'build_s', 'K', 'block_instances')} for r in results],
        'solver_seconds': round(sum(r.get('solve_s', 0) for r in results), 1), 'solver_queries': len(results),
        'bounds': BOUNDS.get(tier, BOUNDS['quick']), 'outside_bounds': OUTSIDE, 'pipe_new_facts': {k: v for k, v in facts.items() if k != 'worker'},
        'inconclusive_reasons': incon[:6], 'exhaustive': not incon and not violations,
        'unthreaded_branch': seq['coverage'], 'undecided_within_budget': undecided,
    }
    return {'violations': violations, 'incon': incon, 'coverage': cov, 'lines': lines, 'assumptions': ASSUMPTIONS}
