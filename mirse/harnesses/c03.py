"""C03 (and shared machinery for C02): BPE tokenization applies the learned merges canonically."""
import z3
from values import *
from harnesses.hlib import *
from harnesses.tok_common import *
from models_core import char_utf8_bytes, char_is_whitespace

PROPERTY = 'C03'
VALIDATE_MODELS = ['ws', 'utf8']
VALIDATION_CASES = {'quick': 80, 'thorough': 300}
TIME_BUDGET = {'quick': 900, 'thorough': 3300}
OPTS = {'quick': {'hash_order': 'insertion', 'step_budget': 3000000}, 'thorough': {'hash_order': 'insertion', 'step_budget': 6000000}}
# well-formed merge tables (token -> merge id); every entry is the concatenation of two earlier tokens / bytes
def _t(*pairs):
    return [(k if isinstance(k, bytes) else k.encode(), v) for k, v in pairs]


# well-formed merge tables (token bytes -> merge id); every entry is the concatenation of two earlier tokens / bytes
class _Tables(dict):
    """fixed family plus generated tables whose name spells the table: 'gen:ab,abc,cd' (tokens in id order)"""

    def __missing__(self, name):
        if isinstance(name, str) and name.startswith('gen:'):
            return _t(*[(tok, i) for i, tok in enumerate(name[4:].split(','))])
        raise KeyError(name)

    def __contains__(self, name):
        return dict.__contains__(self, name) or (isinstance(name, str) and name.startswith('gen:'))


class _Alpha(_Tables):
    def __missing__(self, name):
        if isinstance(name, str) and name.startswith('gen:'):
            toks = name[4:].split(',')
            return (sorted({ord(c) for t in toks for c in t}), min(max(len(t) for t in toks) + 1, 5))
        raise KeyError(name)


def random_tables(seed, count):
    """well-formed merge tables of 2-4 entries over {a, b, c, d}: every entry is the concatenation of two earlier tokens or
    bytes, at most 5 bytes long, no duplicates; merges are preferred as operands so that multi-level tables are common"""
    import random
    rng = random.Random(1000003 * seed + 17)
    out = []
    while len(out) < count:
        toks = []
        for _ in range(rng.randint(2, 4)):
            for _try in range(20):
                pool = lambda: rng.choice(toks) if (toks and rng.random() < 0.6) else rng.choice('abcd')
                cand = pool() + pool()
                if len(cand) <= 5 and cand not in toks:
                    toks.append(cand)
                    break
        name = 'gen:' + ','.join(toks)
        if len(toks) >= 2 and name not in out:
            out.append(name)
    return out


TABLES = _Tables({
    'none': _t(),
    'ab': _t(('ab', 0)),
    'chain': _t(('ab', 0), ('abc', 1)),
    'chain3': _t(('ab', 0), ('abc', 1), ('abcd', 2)),
    'two': _t(('ab', 0), ('cd', 1)),
    'two_join': _t(('ab', 0), ('cd', 1), ('abcd', 2)),
    'compete': _t(('bc', 0), ('ab', 1)),
    'compete2': _t(('ab', 0), ('bc', 1), ('abc', 2)),
    'aa': _t(('aa', 0)),
    'aaa': _t(('aa', 0), ('aaa', 1), ('aaaa', 2)),
    'space': _t((' a', 0), (' ab', 1)),
    'umlaut': _t(('ä', 0), ('aä', 1)),
    'rev': _t(('ba', 0), ('ab', 1), ('aba', 2)),
    # a merged token that can be extended in both directions, the right extension having the lower id (and vice versa)
    'both_r': _t(('bc', 0), ('bcd', 1), ('abc', 2)),
    'both_l': _t(('bc', 0), ('abc', 1), ('bcd', 2)),
    # a multi-level merge followed by a later merge to its right whose left part overlaps the absorbed token
    'overlap5': _t(('ab', 0), ('abc', 1), ('de', 2), ('cde', 3)),
    'overlap6': _t(('ab', 0), ('abc', 1), ('cabc', 2)),
    'left_first': _t(('cd', 0), ('bcd', 1), ('abcd', 2)),
    # merges that cut through 2-byte characters (ä = c3 a4, ö = c3 b6)
    'split_mb': _t((b'\xc3\xa4', 0), (b'\xc3\xa4\xc3', 1), (b'\xb6\xc3', 2), (b'\xc3\xb6\xc3', 3)),
    # the second operand of a follow-up merge is itself a merged token; a whole-word entry competing with lower ids
    'mb_second': _t(('bc', 0), ('abc', 1), ('abcd', 2)),
    'whole_word': _t(('bc', 0), ('ab', 1), ('cd', 2), ('abcd', 3)),
    # two merges overlapping in the byte with id 0 (U+0000): an emptied slot must not be mistaken for the NUL byte
    'nul': _t(('a\x00', 0), ('\x00b', 1)),
})
# per-table text alphabets (code points) and maximal text length for the long-word tables
TABLE_ALPHA = _Alpha({
    'mb_second': ([0x61, 0x62, 0x63, 0x64], 4), 'whole_word': ([0x61, 0x62, 0x63, 0x64], 4),
    'overlap5': ([0x61, 0x62, 0x63, 0x64, 0x65], 5), 'overlap6': ([0x61, 0x62, 0x63], 6), 'left_first': ([0x61, 0x62, 0x63, 0x64], 4),
    'nul': ([0x61, 0x00, 0x62], 3), 'split_mb': ([0xE4, 0xF6, 0xFC, 0x61], 3), 'both_r': ([0x61, 0x62, 0x63, 0x64, 0x20], 4), 'both_l': ([0x61, 0x62, 0x63, 0x64, 0x20], 4),
})
BOUNDS = {
    'quick': 'merge tables: the 22 well-formed tables of harnesses/c03.py plus 16 generated well-formed tables of 2-4 merges over {a, b, c, d} sampled per VERIF_SEED (depth <= 4: chains, competing / overlapping merges, tokens '
             'extendable in both directions, merges across the leading space and through 2-byte characters); texts: <= 4 symbolic characters over '
             '{a, b, c, d, space, tab, ä} plus one unconstrained 3-byte character position; ignore_special_tokens both',
    'thorough': 'texts of <= 5 symbolic characters, 120 generated tables',
}
OUTSIDE = ['tables produced by train_bpe on real corpora (covered structurally by C19)', 'longer words', 'msgpack loading']
ASSUMPTIONS = ['reference = repeatedly merge, among adjacent token pairs whose concatenation is a table entry, the pair with the '
               'lowest merge id (leftmost on ties), starting from single bytes, within each whitespace-prefixed word',
               'regex \\\\s+\\\\S+|^\\\\S+ modelled (leftmost-first, greedy), diff-tested', 'HashMap order fixed']
KNOWN_MATCHERS = {}
ALPHA = [0x61, 0x62, 0x63, 0x64, 0x20, 0x09, 0xE4]


def shapes(tier):
    n = 4 if tier == 'quick' else 5
    out = []
    for tb in TABLES:
        mx = TABLE_ALPHA[tb][1] if tb in TABLE_ALPHA else n
        for ln in range(0, mx + 1):
            out.append({'table': tb, 'len': ln, 'special': 'default'})
    # generated tables (a different sample for every VERIF_SEED): texts over the table's own alphabet, long enough for its
    # longest token
    import os
    for tb in random_tables(int(os.environ.get('VERIF_SEED', '0') or 0), 16 if tier == 'quick' else 120):
        for ln in range(3, TABLE_ALPHA[tb][1] + 1):
            out.append({'table': tb, 'len': ln, 'special': 'default'})
    out.append({'table': 'chain', 'len': 3, 'special': 'bos_eos', 'wide': True})
    out.sort(key=lambda s: -s['len'])
    return out


def bpe_tok(ctx, shape, max_vocab=None):
    m = ctx.m
    table = TABLES[shape['table']]
    mp = MapObj('HashMap', [[VecObj([Int(b, 'u8') for b in k]), Int(v, 'u32')] for k, v in table])
    m.stubs['SerializeMsgPack::load'] = lambda c, a, ck: Ok(mp)
    conf = Struct('BPETokenizerConfig', [Opaque('PathBuf'), NONE() if max_vocab is None else Some(Int(max_vocab, 'usize')), False],
                  ['merge_file', 'max_vocab_size', 'use_graphemes'])
    r = m.call_path('BaseTokenizer::<BPETokenizerConfig, (HashMap<Vec<u8>, u32>, Vec<Vec<u8>>, regex::Regex)>::new',
                    [conf, special_config(m, shape['special'])])
    if r.variant != 'Ok':
        raise Unsupported('BPE tokenizer construction failed')
    return r.fields[0]


def sym_text(ctx, shape):
    n = shape['len']
    if ctx.concrete is not None:
        cps = ctx.concrete['text']
        ctx.inputs['text'] = list(cps)
        return ctx.m.str_lit(cps)
    chars = []
    tmpl = shape.get('template')
    for i in range(n):
        if tmpl and tmpl[i] != 'x':
            chars.append(Int(tmpl[i], 'char'))
            continue
        if shape.get('wide') and i == 1:
            c = ctx.sym_char('t%d' % i, 3)
        else:
            alpha = TABLE_ALPHA[shape['table']][0] if shape['table'] in TABLE_ALPHA else ALPHA
            has1 = any(a < 0x80 for a in alpha)
            has2 = any(a >= 0x80 for a in alpha)
            w = 1 + ctx.in_choice('w%d' % i, 2) if (has1 and has2) else (1 if has1 else 2)        # width 1 or 2
            c = ctx.sym_char('t%d' % i, w)
            opts_ = [a for a in alpha if (a < 0x80) == (w == 1)]
            ctx.assume(z3.Or(*[c.v == a for a in opts_]))
        chars.append(c)
    ctx.inputs['text'] = chars
    buf = StrBuf(chars, [ctx.char_width(c) for c in chars])
    return StrRef(buf, 0, buf.byte_len())


def split_words(ctx, chars):
    """\\\\s+\\\\S+|^\\\\S+ : words with their leading whitespace; trailing whitespace dropped (python reference)."""
    ws = [ctx.branch(char_is_whitespace(c)) for c in chars]
    words = []
    i = 0
    n = len(chars)
    while i < n:
        j = i
        while j < n and ws[j]:
            j += 1
        k = j
        while k < n and not ws[k]:
            k += 1
        if k > j and (j > i or i == 0):
            words.append(chars[i:k])
        elif k > j:
            words.append(chars[j:k])
        i = k if k > j else n
    return words


def reference_bpe(ctx, byte_list, table):
    """Greedy canonical BPE over a list of u8 Ints; returns list of token ids (python ints / z3)."""
    m = ctx.m
    toks = [[b] for b in byte_list]           # each token = list of bytes
    ids = [b for b in byte_list]              # single byte: id = byte value (Int u8)
    entries = [(list(k), v) for k, v in table]

    def pair_id(x, y):
        cat = x + y
        for bs, mid in entries:
            if len(bs) == len(cat) and ctx.branch(m.conj([m.eq(u, Int(v, 'u8')) for u, v in zip(cat, bs)])):
                return mid
        return None
    while True:
        best = None
        for i in range(len(toks) - 1):
            mid = pair_id(toks[i], toks[i + 1])
            if mid is not None and (best is None or mid < best[0]):
                best = (mid, i)
        if best is None:
            break
        mid, i = best
        toks[i:i + 2] = [toks[i] + toks[i + 1]]
        ids[i:i + 2] = [Int(256 + mid, 'u32')]
    return [m.cast(x, 'u32', 'IntToInt') if x.ty == 'u8' else x for x in ids]


def run(ctx, shape, opts):
    m = ctx.m
    tok = bpe_tok(ctx, shape)
    text = sym_text(ctx, shape)
    chars = text.chars()
    ign = True if shape['special'] == 'default' else False
    r = tcall(m, BPE_T, 'tokenize', tok, text, ign)
    ctx.require(r.variant == 'Ok', 'tokenize succeeds')
    ids = r.fields[0].get('token_ids').items
    ctx.out('ids', VecObj(ids))
    spec = unique(SPECIALS[shape['special']][0])
    nreg = 256 + len(TABLES[shape['table']])
    tokens, padname, prefix, suffix = SPECIALS[shape['special']]
    exp = [Int(nreg + spec.index(x), 'u32') for x in prefix]
    for w in split_words(ctx, chars):
        bl = []
        for c in w:
            bl.extend(char_utf8_bytes(ctx, c))
        exp.extend(reference_bpe(ctx, bl, TABLES[shape['table']]))
    exp.extend(Int(nreg + spec.index(x), 'u32') for x in suffix)
    ctx.require(len(ids) == len(exp) and ctx.must(m.conj([m.eq(a, b) for a, b in zip(ids, exp)])) if len(ids) == len(exp) else False,
                'token ids == canonical BPE (lowest merge id, leftmost) of every whitespace-prefixed word')
    ctx.sample = {'table': shape['table'], 'len': shape['len'], 'tokens': len(ids)}


# ------------------------------------------------------------------ native side

def _nshape(shape, max_vocab=None):
    tokens, pad, prefix, suffix = SPECIALS[shape['special']]
    return {'kind': 'bpe', 'g': False, 'tokens': tokens, 'pad': pad, 'prefix': prefix, 'suffix': suffix,
            'merges': [[list(k), v] for k, v in TABLES[shape['table']]], 'max_vocab_size': max_vocab}


def native_outputs(native, shape, inputs):
    ign = shape['special'] == 'default'
    k, v = native_ok(native.call('tokenize_roundtrip', shape=_nshape(shape), text=inputs['text'], ign=ign, dec_ign=True))
    if k != 'ok':
        return {'panic': v}
    return {'ids': v['ids'], '_decoded': v['decoded']}


def reference_bpe_py(bl, table):
    toks = [[b] for b in bl]
    ids = list(bl)
    entries = {bytes(k): v for k, v in table}
    while True:
        best = None
        for i in range(len(toks) - 1):
            mid = entries.get(bytes(toks[i] + toks[i + 1]))
            if mid is not None and (best is None or mid < best[0]):
                best = (mid, i)
        if best is None:
            break
        mid, i = best
        toks[i:i + 2] = [toks[i] + toks[i + 1]]
        ids[i:i + 2] = [256 + mid]
    return ids


def expected_ids_py(shape, text):
    spec = unique(SPECIALS[shape['special']][0])
    nreg = 256 + len(TABLES[shape['table']])
    tokens, padname, prefix, suffix = SPECIALS[shape['special']]
    exp = [nreg + spec.index(x) for x in prefix]
    import re
    s = ''.join(chr(c) for c in text)
    for mt in re.finditer(r'\s+\S+|^\S+', s):
        exp.extend(reference_bpe_py(list(mt.group(0).encode('utf-8')), TABLES[shape['table']]))
    exp.extend(nreg + spec.index(x) for x in suffix)
    return exp


def concrete_check(native, inputs, shape):
    o = native_outputs(native, shape, inputs)
    if 'panic' in o:
        return ['no panic']
    if o['ids'] != expected_ids_py(shape, inputs['text']):
        return ['token ids == canonical BPE (lowest merge id, leftmost) of every whitespace-prefixed word']
    return []


def _case(table, text, special='default'):
    cps = [ord(c) for c in text]
    return ({'table': table, 'len': len(cps), 'special': special}, {'text': cps})


FIXED_CASES = [_case('chain', 'abc'), _case('two', 'abcd'), _case('two_join', ' abcd ab'), _case('aaa', 'aaaaa'), _case('space', 'a ab  ab'),
               _case('umlaut', 'aää'), _case('compete', 'abc abc'), _case('rev', 'ababa')]


def random_case(rng):
    tb = rng.choice(list(TABLES))
    text = ''.join(rng.choice('abcd  \tä') for _ in range(rng.randint(0, 6)))
    return _case(tb, text)
