"""C04: tokenizer vocabulary maps are mutually consistent bijections (byte, char and BPE tokenizers)."""
import z3
from values import *
from harnesses.hlib import *
from harnesses.tok_common import *

PROPERTY = 'C04'
VALIDATE_MODELS = ['utf8']
VALIDATION_CASES = {'quick': 40, 'thorough': 120}
TIME_BUDGET = {'quick': 900, 'thorough': 3300}
OPTS = {'quick': {'hash_order': 'insertion', 'step_budget': 3000000}, 'thorough': {'hash_order': 'insertion', 'step_budget': 6000000}}
BOUNDS = {
    'quick': 'character tokenizer over a caller-supplied vocabulary of 1-3 symbolic, pairwise distinct characters (six UTF-8 width vectors) built with new_vocab_tokenizer; '
             'byte tokenizer (pad_to_multiple_of None / 128, grapheme flag, special configs default / bos_eos / dup_extra / '
             'minimal), char tokenizer (same special configs), BPE tokenizer (merge tables of 0-3 entries incl. a chain, '
             'max_vocab_size None / truncating); queried id: a symbolic u32 in [0, vocab_size + 300]; queried tokens: representative '
             'valid-UTF-8 vocabulary entries (first / middle / last regular token, every merge, the first six and the last special token)',
    'thorough': 'same plus pad_to_multiple_of 1 / 512 and BPE tables of up to 5 entries',
}
OUTSIDE = ['special tokens whose spelling equals a regular token (e.g. the one-byte special token "|" of a byte tokenizer): the vocabulary then '
           'lists the spelling twice and token_to_id returns the regular id, so the bijection the property speaks of is not defined', 'HuggingFace and dummy tokenizers', 'special tokens that are prefixes of one another (regex alternation in hash '
           'order: unspecified)', 'msgpack loading of the merge file (the table is supplied in memory)']
ASSUMPTIONS = ['HashMap iteration order fixed to insertion order (the consulted maps are only used as maps)']
KNOWN_MATCHERS = {}
VALIDATION_ALLOW_FORKS = False
BPE_TABLES = {
    'empty': [],
    'one': [('ab', 0)],
    'chain': [('ab', 0), ('abc', 1), ('cd', 2)],
}


def shapes(tier):
    out = []
    for sp in SPECIALS:
        if sp == 'onebyte':
            continue      # a special token spelled like a regular token: token <-> id cannot be a bijection (outside, see OUTSIDE)
        for g in (False, True):
            for pad_to in ((None, 128) if tier == 'quick' else (None, 1, 128, 512)):
                if g and pad_to:
                    continue
                out.append({'kind': 'byte', 'special': sp, 'g': g, 'pad_to': pad_to})
        out.append({'kind': 'char', 'special': sp, 'g': False})
        for tb in BPE_TABLES:
            for mv in (None, 'trunc'):
                out.append({'kind': 'bpe', 'special': sp, 'table': tb, 'max_vocab': mv, 'g': False})
    out = [dict(s, tslot=k) for s in out for k in range(12)]
    # character tokenizer over a caller-supplied vocabulary (VocabTokenizer::new_vocab_tokenizer): vocabulary characters symbolic
    for vw in ([[1], [2], [2, 1], [3, 2], [4, 1, 2], [2, 2]] if tier == 'quick' else [list(w) for n in (1, 2, 3) for w in __import__('itertools').product((1, 2, 3, 4), repeat=n)]):
        for sp in (('default', 'bos_eos') if tier == 'quick' else tuple(SPECIALS)):
            out.append({'kind': 'charv', 'special': sp, 'g': False, 'vwidths': vw})
    out.sort(key=lambda s: -(1 if s.get('pad_to') else 0))
    return out


def bpe_tokenizer(ctx, shape):
    """BPETokenizer::new interpreted with the msgpack load replaced by the in-memory table (stub of
    SerializeMsgPack::load)."""
    m = ctx.m
    table = BPE_TABLES[shape['table']]
    mp = MapObj('HashMap', [[VecObj([Int(b, 'u8') for b in k.encode()]), Int(v, 'u32')] for k, v in table])
    m.stubs['SerializeMsgPack::load'] = lambda c, a, ck: Ok(mp)
    ntok = len(unique(SPECIALS[shape['special']][0]))
    mv = NONE()
    if shape['max_vocab'] == 'trunc':
        # keep exactly the first merge (if any): limit - specials - 256 = 1
        mv = Some(Int(256 + ntok_raw(shape) + 1, 'usize'))
    conf = Struct('BPETokenizerConfig', [Opaque('PathBuf'), mv, shape['g']], ['merge_file', 'max_vocab_size', 'use_graphemes'])
    r = m.call_path('BaseTokenizer::<BPETokenizerConfig, (HashMap<Vec<u8>, u32>, Vec<Vec<u8>>, regex::Regex)>::new',
                    [conf, special_config(m, shape['special'])])
    if r.variant != 'Ok':
        raise Unsupported('BPE tokenizer construction failed')
    return r.fields[0]


def ntok_raw(shape):
    return len(SPECIALS[shape['special']][0])   # BPETokenizer::new subtracts special_config.tokens.len() (with duplicates)


def expected_vocab(shape, inputs=None):
    """Vocabulary in id order as lists of bytes."""
    kind = shape['kind']
    if kind == 'charv':
        reg = [list(chr(c).encode()) for c in unique(inputs['vocab'])]
        sp = expected_special_tokens(shape, 'char')
    elif kind == 'byte':
        reg = [[b] for b in range(256)]
        sp = expected_special_tokens(shape, 'byte')
    elif kind == 'char':
        from harnesses.c01 import CHARS
        reg = [list(c.encode()) for c in unique(CHARS)]
        sp = expected_special_tokens(shape, 'char')
    else:
        table = BPE_TABLES[shape['table']]
        if shape['max_vocab'] == 'trunc':
            table = [(k, v) for k, v in table if v < 1]
        reg = [[b] for b in range(256)] + [list(k.encode()) for k, v in sorted(table, key=lambda kv: kv[1])]
        sp = unique(SPECIALS[shape['special']][0])
    return reg, [list(s.encode()) for s in sp]


def type_of(shape):
    return {'byte': BYTE_T, 'char': CHAR_T, 'bpe': BPE_T, 'charv': CHAR_T}[shape['kind']]


def build(ctx, shape):
    if shape['kind'] == 'byte':
        return byte_tokenizer(ctx, shape)
    if shape['kind'] == 'char':
        return char_tokenizer(ctx, shape)
    return bpe_tokenizer(ctx, shape)


def vec_bytes(ctx, v):
    return [b.v for b in ctx.m.peel(v).items]


def run_charv(ctx, shape, opts):
    """character tokenizer built with new_vocab_tokenizer over symbolic, pairwise distinct vocabulary characters"""
    from models_core import char_utf8_bytes
    m = ctx.m
    T = CHAR_T
    if ctx.concrete is None:
        ctx.inputs.update({'token': 0, 'id': 0})
    vchars = ctx.in_string('vocab', shape['vwidths']).chars()
    for i in range(len(vchars)):
        for j in range(i):
            ctx.assume(m.bnot(m.eq(vchars[i], vchars[j])))
    conf = Struct('CharTokenizerConfig', [False, m.new_string('<unk>')], ['use_graphemes', 'unk_token'])
    r = m.call_path('BaseTokenizer::<CharTokenizerConfig, (String, Vocab<char>)>::new_vocab_tokenizer',
                    [VecObj(list(vchars)), m.new_string('<unk>'), special_config(m, shape['special']), conf])
    ctx.require(r.variant == 'Ok', 'tokenizer construction over a custom vocabulary succeeds')
    tok = r.fields[0]
    nreg = len(vchars)
    sp = [list(x.encode()) for x in expected_special_tokens(shape, 'char')]
    regb = [char_utf8_bytes(ctx, c) for c in vchars]
    n = nreg + len(sp)

    def same(bs, want):
        """bs: list of u8 Ints, want: list of u8 Ints / ints"""
        if len(bs) != len(want):
            return False
        return m.conj([m.eq(x, y if isinstance(y, Int) else Int(y, 'u8')) for x, y in zip(bs, want)])
    vs = tcall(m, T, 'vocab_size', tok)
    ctx.out('vocab_size', vs)
    ctx.require(m.eq(vs, Int(n, 'usize')), 'vocab_size == number of regular tokens + distinct special tokens')
    gv = tcall(m, T, 'get_vocab', tok)
    ctx.require(gv.variant == 'Ok', 'get_vocab succeeds')
    vocab = [ctx.m.peel(x).items for x in gv.fields[0].items]
    ctx.out('vocab_len', len(vocab))
    ctx.require(len(vocab) == n, 'get_vocab has exactly vocab_size entries')
    if len(vocab) == n:
        ctx.require(m.conj([same(vocab[i], (regb + sp)[i]) for i in range(n)]), 'get_vocab lists regular tokens then special tokens in id order')
    qid = ctx.in_int('id', 'u32')
    if ctx.concrete is None:
        ctx.assume(z3.ULE(qid.z(), n + 300))
    r = tcall(m, T, 'id_to_token', tok, qid)
    ctx.out('id_to_token', r)
    if r.variant == 'Some':
        bs = ctx.m.peel(r.fields[0]).items
        ctx.require(m.disj([m.conj([m.eq(qid, Int(j, 'u32')), same(bs, e)]) for j, e in enumerate(regb + sp)]),
                    'id_to_token(id) == get_vocab()[id] for id < vocab_size')
    else:
        ctx.require(m.int_binop('Ge', qid, Int(n, 'u32')), 'id_to_token(id) is None for id >= vocab_size')
    pick = shape.get('tslot', 0) if ctx.concrete is None else ctx.concrete.get('token', 0)
    if ctx.concrete is None:
        ctx.inputs['token'] = pick
    for pick in (range(nreg) if ctx.concrete is None else [pick]):
        c = vchars[pick]
        sref = StrRef(StrBuf([c], [ctx.char_width(c)]), 0, ctx.char_width(c))
        r2 = tcall(m, T, 'token_to_id', tok, sref)
        if ctx.concrete is not None:
            ctx.out('token_to_id', r2)
        ctx.require(r2.variant == 'Some' and m.eq(r2.fields[0], Int(pick, 'u32')) is True, 'token_to_id maps every UTF-8 token back to its id')
        d = tcall(m, T, 'de_tokenize', tok, SliceRef([Int(pick, 'u32')], 0, 1), True)
        ctx.require(d.variant == 'Ok' and chars_equal(ctx, out_chars(ctx, d.fields[0]), [c]) is not False and
                    ctx.must(chars_equal(ctx, out_chars(ctx, d.fields[0]), [c])), 'decoding a single regular id yields exactly that token')
    pad = bcall(m, T, 'pad_token_id', tok)
    tokens, padname, prefix, suffix = SPECIALS[shape['special']]
    spn = [bytes(x).decode() for x in sp]
    ctx.require(m.eq(pad, Int(nreg + spn.index(padname), 'u32')) is True, 'pad id is the id of the pad token, above every regular id')
    pre = [x.v for x in as_items(ctx, bcall(m, T, 'prefix_token_ids', tok))]
    suf = [x.v for x in as_items(ctx, bcall(m, T, 'suffix_token_ids', tok))]
    ctx.require(pre == [nreg + spn.index(x) for x in prefix] and suf == [nreg + spn.index(x) for x in suffix],
                'prefix / suffix ids are the ids of the configured tokens')
    ctx.sample = {'kind': 'charv', 'special': shape['special'], 'vocab_widths': shape['vwidths'], 'vocab_size': n}


def run(ctx, shape, opts):
    if shape['kind'] == 'charv':
        return run_charv(ctx, shape, opts)
    m = ctx.m
    T = type_of(shape)
    if ctx.concrete is None:
        ctx.inputs.update({'token': 0, 'id': 0})
    tok = build(ctx, shape)
    reg, sp = expected_vocab(shape)
    exp = reg + sp
    n = len(exp)
    vs = tcall(m, T, 'vocab_size', tok)
    ctx.out('vocab_size', vs)
    ctx.require(m.eq(vs, Int(n, 'usize')), 'vocab_size == number of regular tokens + distinct special tokens')
    gv = tcall(m, T, 'get_vocab', tok)
    ctx.require(gv.variant == 'Ok', 'get_vocab succeeds')
    vocab = [vec_bytes(ctx, x) for x in gv.fields[0].items]
    ctx.out('vocab_len', len(vocab))
    ctx.require(len(vocab) == n, 'get_vocab has exactly vocab_size entries')
    ctx.require(vocab == exp, 'get_vocab lists regular tokens then special tokens in id order')
    # id_to_token for a symbolic id
    qid = ctx.in_int('id', 'u32')
    if ctx.concrete is None:
        ctx.assume(z3.ULE(qid.z(), n + 300))
    r = tcall(m, T, 'id_to_token', tok, qid)
    ctx.out('id_to_token', r)
    k = None
    if r.variant == 'Some':
        bs = ctx.m.peel(r.fields[0]).items
        if all(isinstance(x.v, int) for x in bs):
            lst = [x.v for x in bs]
            ctx.require(lst in exp, 'id_to_token(id) == get_vocab()[id] for id < vocab_size')
            k = exp.index(lst)
            ctx.require(m.eq(qid, Int(k, 'u32')), 'id_to_token(id) == get_vocab()[id] for id < vocab_size')
        else:
            # symbolic bytes: (id, bytes) must be one of the vocabulary entries
            alts = []
            for j, tokb in enumerate(exp):
                if len(tokb) == len(bs):
                    alts.append(m.conj([m.eq(qid, Int(j, 'u32'))] + [m.eq(x, Int(y, 'u8')) for x, y in zip(bs, tokb)]))
            ctx.require(m.disj(alts), 'id_to_token(id) == get_vocab()[id] for id < vocab_size')
    else:
        ctx.require(m.int_binop('Ge', qid, Int(n, 'u32')), 'id_to_token(id) is None for id >= vocab_size')
    # token_to_id for every UTF-8 entry (choice over the vocabulary)
    utf8 = [i for i, t in enumerate(exp) if _is_utf8(t)]
    # representative tokens: first/middle/last regular ones, every merge, the first 6 and the last special token
    utf8 = [i for i in utf8 if i in (0, 65, 127) or 256 <= i < len(reg) or (len(reg) - 2 <= i < len(reg) + 6) or i == n - 1]
    if ctx.concrete is None:
        if shape.get('tslot', 0) >= len(utf8):
            raise Infeasible()
        pick = utf8[shape.get('tslot', 0)]
    else:
        pick = ctx.concrete.get('token', 0)
    if ctx.concrete is None:
        ctx.inputs['token'] = pick
    r2 = tcall(m, T, 'token_to_id', tok, m.str_lit(bytes(exp[pick]).decode('utf-8')))
    ctx.out('token_to_id', r2)
    ctx.require(r2.variant == 'Some' and m.eq(r2.fields[0], Int(pick, 'u32')) is True, 'token_to_id maps every UTF-8 token back to its id')
    # special ids
    pad = bcall(m, T, 'pad_token_id', tok)
    tokens, padname, prefix, suffix = SPECIALS[shape['special']]
    spn = [bytes(x).decode() for x in sp]
    ctx.require(m.eq(pad, Int(len(reg) + spn.index(padname), 'u32')) is True, 'pad id is the id of the pad token, above every regular id')
    pre = [x.v for x in as_items(ctx, bcall(m, T, 'prefix_token_ids', tok))]
    suf = [x.v for x in as_items(ctx, bcall(m, T, 'suffix_token_ids', tok))]
    ctx.require(pre == [len(reg) + spn.index(x) for x in prefix] and suf == [len(reg) + spn.index(x) for x in suffix],
                'prefix / suffix ids are the ids of the configured tokens')
    ctx.require(all(len(reg) <= i < n for i in pre + suf + [pad.v]), 'special ids are inside the vocabulary and distinct from every regular id')
    # decoding a single regular id
    if pick < len(reg):
        d = tcall(m, T, 'de_tokenize', tok, SliceRef([Int(pick, 'u32')], 0, 1), True)
        ctx.require(d.variant == 'Ok' and [c.v for c in out_chars(ctx, d.fields[0])] == [ord(c) for c in bytes(exp[pick]).decode()],
                    'decoding a single regular id yields exactly that token')
    ctx.sample = {'kind': shape['kind'], 'special': shape['special'], 'vocab_size': n, 'queried_id': k, 'queried_token': pick}


def as_items(ctx, v):
    v = ctx.m.peel(v)
    if isinstance(v, SliceRef):
        return v.items()
    return v.items


def _is_utf8(bs):
    try:
        bytes(bs).decode('utf-8')
        return True
    except UnicodeDecodeError:
        return False


# ------------------------------------------------------------------ native side

def native_outputs(native, shape, inputs):
    reg, sp = expected_vocab(shape, inputs)
    exp = reg + sp
    tokstr = [ord(c) for c in bytes(exp[inputs['token']]).decode()]
    ns = _nshape(shape)
    if shape['kind'] == 'charv':
        ns['vocab'] = list(inputs['vocab'])
    k, v = native_ok(native.call('vocab_query', shape=ns, id=int(inputs['id']), token=tokstr))
    if k != 'ok':
        return {'panic': v}
    return {'vocab_size': v['vocab_size'], 'vocab_len': len(v['vocab']), 'id_to_token': v['id_to_token'],
            'token_to_id': v['token_to_id'], '_full': v}


def _nshape(shape):
    d = dict(shape)
    tokens, pad, prefix, suffix = SPECIALS[shape['special']]
    d.update({'tokens': tokens, 'pad': pad, 'prefix': prefix, 'suffix': suffix})
    if shape['kind'] == 'charv':
        d['kind'] = 'char'
    if shape['kind'] == 'bpe':
        d['merges'] = [[list(k.encode()), v] for k, v in BPE_TABLES[shape['table']]]
        d['max_vocab_size'] = (256 + ntok_raw(shape) + 1) if shape['max_vocab'] == 'trunc' else None
    return d


def concrete_check(native, inputs, shape):
    if shape['kind'] == 'charv':
        if len(set(inputs['vocab'])) != len(inputs['vocab']):
            return []
        failed = set()
        for t in range(len(inputs['vocab'])):      # every vocabulary entry as the queried token
            failed |= set(_concrete_check(native, dict(inputs, token=t), shape))
        return sorted(failed)
    return _concrete_check(native, inputs, shape)


def _concrete_check(native, inputs, shape):
    o = native_outputs(native, shape, inputs)
    if 'panic' in o:
        return ['no panic']
    v = o['_full']
    reg, sp = expected_vocab(shape, inputs)
    exp = reg + sp
    n = len(exp)
    failed = []
    if v['vocab_size'] != n:
        failed.append('vocab_size == number of regular tokens + distinct special tokens')
    if len(v['vocab']) != v['vocab_size']:
        failed.append('get_vocab has exactly vocab_size entries')
    if v['vocab'] != exp:
        failed.append('get_vocab lists regular tokens then special tokens in id order')
    k = int(inputs['id'])
    if k > n + 300:
        return failed
    if k < n:
        if v['id_to_token'] != exp[k]:
            failed.append('id_to_token(id) == get_vocab()[id] for id < vocab_size')
    elif v['id_to_token'] is not None:
        failed.append('id_to_token(id) is None for id >= vocab_size')
    if v['token_to_id'] != inputs['token']:
        failed.append('token_to_id maps every UTF-8 token back to its id')
    tokens, padname, prefix, suffix = SPECIALS[shape['special']]
    spn = [bytes(x).decode() for x in sp]
    if v['pad'] != len(reg) + spn.index(padname):
        failed.append('pad id is the id of the pad token, above every regular id')
    if v['prefix'] != [len(reg) + spn.index(x) for x in prefix] or v['suffix'] != [len(reg) + spn.index(x) for x in suffix]:
        failed.append('prefix / suffix ids are the ids of the configured tokens')
    if inputs['token'] < len(reg) and v['decode_single'] != {'Ok': [ord(c) for c in bytes(exp[inputs['token']]).decode()]}:
        failed.append('decoding a single regular id yields exactly that token')
    return failed


FIXED_CASES = [({'kind': 'byte', 'special': 'default', 'g': True, 'pad_to': None}, {'id': 258, 'token': 65}),
               ({'kind': 'char', 'special': 'bos_eos', 'g': False}, {'id': 3, 'token': 10}),
               ({'kind': 'bpe', 'special': 'default', 'table': 'chain', 'max_vocab': None, 'g': False}, {'id': 257, 'token': 256})]


def random_case(rng):
    sh = dict(rng.choice(shapes('quick')))
    sh.pop('tslot', None)
    if sh['kind'] == 'charv':
        pool = {1: [0x61, 0x7A, 0x24], 2: [0xE4, 0xFF, 0x80, 0x3B1], 3: [0x4E2D, 0x20AC, 0x800], 4: [0x1F600, 0x10000]}
        voc = []
        for w in sh['vwidths']:
            voc.append(rng.choice([c for c in pool[w] if c not in voc]))
        n = len(voc) + len(expected_special_tokens(sh, 'char'))
        return (sh, {'vocab': voc, 'id': rng.choice([0, 1, len(voc), n - 1, n, n + 5]), 'token': rng.randrange(len(voc))})
    reg, sp = expected_vocab(sh)
    exp = reg + sp
    utf8 = [i for i, t in enumerate(exp) if _is_utf8(t)]
    return (sh, {'id': rng.choice([0, 65, 255, 256, 257, len(reg), len(exp) - 1, len(exp), len(exp) + 7, len(exp) + 300]),
                 'token': rng.choice(utf8)})
