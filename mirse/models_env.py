"""Environment models: in-memory files, threads run to completion, channels, mutexes, progress bars.
Used by the harnesses that interpret train_bpe / Dictionary::create / TrainLoader code; all part of the claim."""
import z3
from values import *
from interp import model, MODELS
from models_core import as_str, ListIter, new_string_from, string_push_str, render_arguments, Formatter, to_usize


class FileObj:
    __slots__ = ('name', 'write')

    def __init__(self, name, write=False):
        self.name = name
        self.write = write


def path_name(ctx, p):
    p = ctx.m.peel(p)
    if isinstance(p, Opaque):
        return p.data if p.data is not None else p.what
    if isinstance(p, FileObj):
        return p.name
    s = as_str(ctx, p).concrete()
    if s is None:
        raise Unsupported('symbolic file path')
    return s


def files_of(ctx):
    if not hasattr(ctx.m, 'files'):
        ctx.m.files = {}
    return ctx.m.files


@model('Path::new', 'Path::to_path_buf', 'PathBuf::from', 'PathBuf::as_path', 'Path::as_os_str', 'Path::display', 'PathBuf::display',
       'Path::to_str', 'Path::join')
def _path_id(ctx, args, ck):
    if ck.name == 'to_str':
        return Some(args[0])
    if ck.name == 'join':
        raise Unsupported('Path::join')
    return args[0]


@model('File::open')
def _file_open(ctx, args, ck):
    name = path_name(ctx, args[0])
    if name not in files_of(ctx):
        return Err(Opaque('io::Error(NotFound)'))
    return Ok(FileObj(name))


@model('File::create')
def _file_create(ctx, args, ck):
    name = path_name(ctx, args[0])
    files_of(ctx)[name] = StringObj()
    return Ok(FileObj(name, True))


@model('BufReader::new', 'BufWriter::new', 'LossyUtf8Reader::new#')
def _bufreader_new(ctx, args, ck):
    return args[0]


def file_lines(ctx, f):
    content = files_of(ctx)[f.name]
    if isinstance(content, list):
        return [ctx.m.clone(x) if isinstance(x, StringObj) else new_string_from(as_str(ctx, x).chars(), as_str(ctx, x).widths())
                for x in content]
    s = content.as_str()
    cs, ws = s.chars(), s.widths()
    out, cur, curw = [], [], []
    for c, w in zip(cs, ws):
        if isinstance(c.v, int) and c.v == 10:
            out.append(new_string_from(cur, curw))
            cur, curw = [], []
        else:
            if not isinstance(c.v, int) and ctx.branch(c.v == 10):
                out.append(new_string_from(cur, curw))
                cur, curw = [], []
                continue
            cur.append(c)
            curw.append(w)
    if cur:
        out.append(new_string_from(cur, curw))
    return out


@model('BufRead::lines')
def _lines(ctx, args, ck):
    f = ctx.m.peel(args[0])
    return ListIter([Ok(x) for x in file_lines(ctx, f)])


@model('fs::metadata')
def _metadata(ctx, args, ck):
    name = path_name(ctx, args[0])
    if name not in files_of(ctx):
        return Err(Opaque('io::Error(NotFound)'))
    return Ok(Opaque('Metadata', name))


@model('Metadata::is_file')
def _is_file(ctx, args, ck):
    return True


@model('Metadata::len')
def _meta_len(ctx, args, ck):
    f = FileObj(ctx.m.peel(args[0]).data)
    return Int(sum(x.as_str().byte_len() + 1 for x in file_lines(ctx, f)), 'u64')


@model('Write::write_fmt')
def _write_fmt(ctx, args, ck):
    f = ctx.m.peel(args[0])
    if isinstance(f, FileObj):
        out = files_of(ctx)[f.name]
        if not render_arguments(ctx, args[1], out):
            raise Unsupported('unrenderable text written to a file')
        return Ok(None)
    return Ok(None)


@model('Write::write_all', 'Write::flush')
def _write_all(ctx, args, ck):
    return Ok(None)


class MapWhileI(Iter):
    def __init__(self, inner, f):
        self.inner = inner
        self.f = f
        self.done = False

    def nxt(self, ctx):
        if self.done:
            return STOP
        v = ctx.m.iter_next(self.inner)
        if v is STOP:
            return STOP
        r = ctx.m.call_value(self.f, [v])
        if r.variant == 'None':
            self.done = True
            return STOP
        return r.fields[0]


@model('Iterator::map_while')
def _map_while(ctx, args, ck):
    return MapWhileI(args[0], args[1])


# ---------------------------------------------------------------- mutex / channels / threads (sequentialised)

@model('Mutex::new')
def _mutex_new(ctx, args, ck):
    return Struct('Mutex', [args[0]], ['data'])


@model('Mutex::lock')
def _mutex_lock(ctx, args, ck):
    mx = ctx.m.peel(args[0])
    return Ok(Struct('MutexGuard', [Ref(mx.fields, 0)], ['lock']))


@model('Mutex::into_inner')
def _mutex_into_inner(ctx, args, ck):
    return Ok(args[0].fields[0])


class Chan:
    def __init__(self):
        self.items = []
        self.alive = True


class SenderObj:
    __slots__ = ('chan',)

    def __init__(self, chan):
        self.chan = chan


class ReceiverObj(Iter):
    """Receiver of a channel whose producers are threads registered with thread::spawn: when the queue is empty a pending
    thread is run to completion (in an arbitrary, forked order); the order in which queued messages are received is
    arbitrary as well (messages of different threads are not ordered)."""

    def __init__(self, chan):
        self.chan = chan

    def nxt(self, ctx):
        while True:
            if self.chan.items:
                k = ctx.choice(len(self.chan.items), 'recv-order') if ctx.hash_order == 'all' or getattr(ctx.m, 'chan_order_all', False) else 0
                return self.chan.items.pop(k)
            pend = getattr(ctx.m, 'pending_threads', [])
            if not pend:
                return STOP
            k = ctx.choice(len(pend), 'thread-order') if getattr(ctx.m, 'chan_order_all', False) else 0
            f = pend.pop(k)
            ctx.m.call_value(f, [])


@model('mpsc::sync_channel', 'mpsc::channel')
def _sync_channel(ctx, args, ck):
    ch = Chan()
    return Tup([SenderObj(ch), ReceiverObj(ch)])


@model('SyncSender::send', 'Sender::send')
def _send(ctx, args, ck):
    s = ctx.m.peel(args[0])
    if not s.chan.alive:
        return Err(Opaque('SendError'))
    s.chan.items.append(args[1])
    return Ok(None)


@model('Receiver::recv')
def _recv(ctx, args, ck):
    r = ctx.m.peel(args[0])
    v = r.nxt(ctx)
    return Err(Opaque('RecvError')) if v is STOP else Ok(v)


@model('thread::spawn', 'Builder::spawn')
def _spawn(ctx, args, ck):
    if not hasattr(ctx.m, 'pending_threads'):
        ctx.m.pending_threads = []
    f = args[-1]
    ctx.m.pending_threads.append(f)
    h = Opaque('JoinHandle')
    return Ok(h) if ck.name == 'spawn' and ck.segs and ck.segs[-2:] == ['Builder', 'spawn'] else h


@model('Builder::new', 'Builder::name')
def _builder(ctx, args, ck):
    return Opaque('thread::Builder')


@model('JoinHandle::join')
def _join(ctx, args, ck):
    return Ok(None)


@model('ProgressBar::inc', 'ProgressBar::finish_and_clear', 'ProgressBar::finish', 'ProgressBar::set_message',
       'ProgressBar::set_position')
def _pbar(ctx, args, ck):
    return None
