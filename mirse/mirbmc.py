"""MIRBMC: bounded model checking of the thread protocols of src/data/loading.rs.

The per-thread transition relation is GENERATED from the MIR control-flow graph of the worker closures
(`Pipe::new::{closure#2}`, `Buffered::new::{closure#0}`): every basic block is interpreted abstractly (scalar locals are
SMT terms), calls to synchronisation primitives are mapped to their fixed semantics (the trusted base), and blocks
that touch no shared state are fused with the preceding visible operation (local steps commute).  The relation is
unrolled K steps with a symbolic scheduler choice per step and handed to z3.
"""
import re
import time
import z3

BITS = 6
DONE = (1 << BITS) - 1      # pc value of a finished thread
FREE = (1 << BITS) - 2      # mutex value when nobody holds it


def BVI(name):
    return z3.BitVec(name, BITS)


def bv(v):
    return z3.BitVecVal(v, BITS)


from mirparse import Program
from resolve import parse_callee, strip_generics
from values import Unsupported

VISIBLE = {'Mutex::lock': 'LOCK', 'Iterator::next': 'PULL', 'Fn::call': 'COMPUTE', 'FnMut::call_mut': 'COMPUTE',
           'Atomic::load': 'LOAD', 'AtomicUsize::load': 'LOAD', 'Atomic::swap': 'STORE', 'AtomicUsize::swap': 'STORE',
           'Atomic::store': 'STORE', 'AtomicUsize::store': 'STORE', 'SyncSender::send': 'SEND', 'Sender::send': 'SEND'}
TIME_CALLS = {'Instant::now', 'Instant::elapsed', 'Duration::from_secs', 'Duration::from_millis', 'Duration::from_micros',
              'Instant::duration_since', 'SystemTime::now'}
CMP_CALLS = {'PartialOrd::gt', 'PartialOrd::ge', 'PartialOrd::lt', 'PartialOrd::le', 'PartialEq::eq', 'PartialEq::ne'}
LOCAL_CALLS = {'Deref::deref', 'DerefMut::deref_mut', 'Result::expect', 'Result::unwrap', 'Result::is_err', 'Result::is_ok',
               'Result::ok', 'Result::err', 'IntoIterator::into_iter', 'Option::is_some', 'Option::is_none', 'mem::drop',
               'thread::sleep', 'thread::yield_now', 'hint::spin_loop', 'Duration::from_micros', 'Duration::from_millis'}


class Val:
    """Abstract value of a MIR local inside a thread."""
    __slots__ = ('kind', 'a')

    def __init__(self, kind, *a):
        self.kind = kind    # 'int' z3 Int | 'bool' z3 Bool | 'cap' capture-kind | 'opt' (disc, idx) | 'res' (err) |
        self.a = a          # 'pair' (v0, v1) | 'item' (id) | 'guard' | 'unit' | 'ord' name | 'tuple1' (item)


def cap_kind(ty):
    t = ty.replace('std::sync::', '').replace('std::', '')
    if 'Mutex<' in t:
        return 'MUTEX'
    if 'Atomic' in t:
        return 'ATOMIC'
    if 'SyncSender' in t or 'Sender<' in t:
        return 'SENDER'
    if 'dyn ' in t and 'Fn' in t:
        return 'FN'
    if 'Receiver' in t:
        return 'RECEIVER'
    return 'UPSTREAM'


def repr_operand(term, i):
    """source text of the i-th call argument of a parsed call terminator"""
    from mirparse import split_top, _find_call_paren, _find_assign
    t = term.text
    head = t[:t.rfind(' -> ')]
    eq = _find_assign(head)
    call = head[eq + 3:].strip() if eq >= 0 else head.strip()
    k = _find_call_paren(call)
    return split_top(call[k + 1:-1])[i].strip()


class ThreadProgram:
    """A worker closure body prepared for abstract interpretation."""

    def __init__(self, fn, prog=None):
        fn.parse()
        self.fn = fn
        self.name = fn.name
        self.blocks = dict(fn.blocks)
        self.local_types = dict(fn.local_types)
        self.notes = []
        if prog is not None:
            self.inline_consumers(prog)
        # registers: every local that is read in a block other than the one assigning it (conservatively: all)
        self.locals = sorted(self.local_types)
        self.kinds = {}
        for b in self.blocks.values():
            if b.cleanup:
                continue
            t = b.term
            if t.kind == 'call' and t.a['func']:
                key = parse_callee(t.a['func']).key()
                self.kinds[id(b)] = key
        self.orderings = set(re.findall(r'Ordering::(\w+)', '\n'.join(
            (s.text or '') for b in self.blocks.values() if not b.cleanup for s in b.stmts)))

    def guard_local(self, local):
        return 'MutexGuard' in self.local_types.get(local, '')

    # ---- internal iteration: `iter.for_each(closure)` is the loop `while let Some(x) = iter.next() { closure(x) }`
    # (the definition of Iterator::for_each for an iterator that does not override it).  The nested closure's MIR
    # blocks are spliced into this body with renamed locals / blocks, so that its synchronisation calls become
    # visible operations of the thread like any other.
    def inline_consumers(self, prog):
        from mirparse import parse_stmt, parse_term, Block
        for bid in sorted(self.blocks):
            b = self.blocks[bid]
            if b.cleanup or b.term.kind != 'call' or not b.term.a['func']:
                continue
            func = b.term.a['func']
            if parse_callee(func).key() != 'Iterator::for_each':
                continue
            m = re.search(r'::for_each::<(\{closure@[^{}]*\})>', func)
            if not m:
                raise Unsupported('MIRBMC: for_each with a callee that is not a closure literal in ' + self.name)
            span = m.group(1)
            cands = [f for n, f in prog.functions.items() if n.startswith(self.name + '::{closure#')]
            nested = None
            for f in cands:
                f.parse()
                if f.arg_types and span in f.arg_types[0]:
                    nested = f
            if nested is None or any(bb.term.kind == 'call' and bb.term.a['func'] and
                                     parse_callee(bb.term.a['func']).key() == 'Iterator::for_each'
                                     for bb in nested.blocks.values() if not bb.cleanup):
                raise Unsupported('MIRBMC: body of the for_each closure %s not found / nested internal iteration' % span)
            loff = max(self.local_types) + 3
            boff = max(self.blocks) + 3
            t_opt, t_disc = loff - 2, loff - 1
            head, sw = boff - 2, boff - 1
            args = b.term.a['args']
            if args[0].place is None:
                raise Unsupported('MIRBMC: for_each receiver is not a place')
            it_local = args[0].place.local
            cl_text = re.sub(r'^(move|copy) ', '', repr_operand(b.term, 1))
            ret = b.term.a['target']
            dest = b.term.a['dest']

            def ren(text):
                text = re.sub(r'\b_(\d+)\b', lambda mm: '_%d' % (int(mm.group(1)) + loff), text)
                return re.sub(r'\bbb(\d+)\b', lambda mm: 'bb%d' % (int(mm.group(1)) + boff), text)
            # block `bid`: statements kept, then fall into the loop head
            nb = Block()
            nb.stmts = list(b.stmts)
            nb.term = parse_term('goto -> bb%d' % head)
            self.blocks[bid] = nb
            hb = Block()
            hb.term = parse_term('_%d = <I as Iterator>::next(move _%d) -> [return: bb%d, unwind continue]' % (t_opt, it_local, sw))
            self.blocks[head] = hb
            sb = Block()
            sb.stmts = [parse_stmt('_%d = discriminant(_%d)' % (t_disc, t_opt))]
            # Some(x): bind the closure parameters, enter the closure body
            entry = boff + min(nested.blocks)
            bind = max(nested.blocks) + boff + 1
            sb.term = parse_term('switchInt(move _%d) -> [0: bb%d, otherwise: bb%d]' % (t_disc, ret, bind))
            self.blocks[sw] = sb
            bb_ = Block()
            bb_.stmts = [parse_stmt('_%d = %s' % (1 + loff, 'copy ' + cl_text)),
                         parse_stmt('_%d = move ((_%d as Some).0: T)' % (2 + loff, t_opt))]
            bb_.term = parse_term('goto -> bb%d' % entry)
            self.blocks[bind] = bb_
            for nid, nblk in nested.blocks.items():
                if nblk.cleanup:
                    continue
                x = Block()
                x.stmts = [parse_stmt(ren(st.text)) for st in nblk.stmts if st.kind != 'nop']
                if nblk.term.kind == 'return':
                    x.term = parse_term('goto -> bb%d' % head)
                else:
                    x.term = parse_term(ren(nblk.term.text))
                self.blocks[nid + boff] = x
            for l, ty in nested.local_types.items():
                self.local_types[l + loff] = ty
            self.local_types[t_opt] = 'std::option::Option<T>'
            self.local_types[t_disc] = 'isize'
            self.notes.append('Iterator::for_each at bb%d inlined as a loop over the closure %s' % (bid, nested.name))


class Shared:
    """Shared state at one step (all z3 terms)."""
    FIELDS = ['mutex', 'pulled', 'send_next', 'qlen', 'recv_alive', 'senders', 'rcount', 'exited', 'upstream_done']

    def __init__(self, k, cap, nmax, prefix='s'):
        self.k = k
        self.cap = cap
        self.nmax = nmax
        I, B = BVI, z3.Bool
        self.mutex = I('%s_mutex_%d' % (prefix, k))
        self.pulled = I('%s_pulled_%d' % (prefix, k))
        self.send_next = I('%s_sendnext_%d' % (prefix, k))
        self.qlen = I('%s_qlen_%d' % (prefix, k))
        self.q = [I('%s_q%d_%d' % (prefix, i, k)) for i in range(max(cap, 1) + 1)]
        self.recv_alive = B('%s_rxalive_%d' % (prefix, k))
        self.senders = I('%s_senders_%d' % (prefix, k))
        self.rcount = I('%s_rcount_%d' % (prefix, k))
        self.rseq = [I('%s_rseq%d_%d' % (prefix, j, k)) for j in range(nmax)]
        self.processed = [I('%s_proc%d_%d' % (prefix, j, k)) for j in range(nmax)]
        self.exited = B('%s_exited_%d' % (prefix, k))
        self.consumer_none = B('%s_cnone_%d' % (prefix, k))
        self.panicked = B('%s_panicked_%d' % (prefix, k))
        self.ghost = I('%s_ghost_%d' % (prefix, k))

    def all_terms(self):
        return [self.mutex, self.pulled, self.send_next, self.qlen, self.recv_alive, self.senders, self.rcount, self.exited,
                self.consumer_none, self.panicked, self.ghost] + self.q + self.rseq + self.processed


class SharedView:
    """A Shared state with some fields overridden (used to compose fused operations inside one step)."""

    def __init__(self, base, upd):
        self._b = base
        self._u = upd
        self.k, self.cap, self.nmax = base.k, base.cap, base.nmax

    def __getattr__(self, name):
        u = self.__dict__['_u']
        b = self.__dict__['_b']
        if name == 'q':
            return [u.get('q%d' % i, x) for i, x in enumerate(b.q)]
        if name == 'processed':
            return [u.get('processed%d' % i, x) for i, x in enumerate(b.processed)]
        if name == 'rseq':
            return b.rseq
        if name in u:
            return u[name]
        return getattr(b, name)


FUSE_KINDS = {'PULL', 'UNLOCK', 'COMPUTE', 'RETURN'}


def eq_states(a, b, except_=()):
    cs = []
    for x, y in zip(a.all_terms(), b.all_terms()):
        if any(x is e for e in except_):
            continue
        cs.append(x == y)
    return cs


class Outcome:
    """One guarded result of executing a step of a thread: guard, shared updates (dict field->term), register updates,
    next pc (python int or 'done'), flags."""
    __slots__ = ('guard', 'shared', 'regs', 'pc', 'spin', 'note')

    def __init__(self, guard, shared, regs, pc, spin=False, note=''):
        self.guard = guard
        self.shared = shared
        self.regs = regs
        self.pc = pc
        self.spin = spin
        self.note = note


class Interp:
    """Abstract interpreter of one thread step (visible op + following local blocks)."""

    def __init__(self, prog, n_items, cfg):
        self.p = prog
        self.n = n_items          # z3 Int / int: upstream length
        self.cfg = cfg            # dict: allow_panic, hook_exits ...

    # ---- registers
    def reg_key(self, local, comp=''):
        return '%d%s' % (local, comp)

    def read(self, env, local, comp=''):
        return env.get(self.reg_key(local, comp))

    # ---- operands
    def operand(self, env, op):
        if op.kind == 'const':
            c = op.const
            if c.kind == 'int':
                return Val('int', bv(c.value))
            if c.kind == 'bool':
                return Val('bool', z3.BoolVal(c.value))
            if c.kind == 'str':
                return Val('unit')
            if c.kind == 'unit':
                return Val('unit')
            txt = c.text
            m = re.search(r'Ordering::(\w+)', txt)
            if m:
                return Val('ord', m.group(1))
            return Val('unit')
        return self.place(env, op.place)

    def place(self, env, pl):
        v = env.get('L%d' % pl.local)
        for pr in pl.proj:
            k = pr[0]
            if k == 'field':
                if pl.local == 1 and v is None and len(pl.proj) >= 1 and pr is pl.proj[0]:
                    cv = self.cfg.get('captures', {}).get(pr[1])
                    if cv is not None and cap_kind(pr[2]) == 'UPSTREAM':
                        # a scalar captured by the closure whose value was evaluated from Pipe::new for this configuration
                        v = Val('bool', z3.BoolVal(cv)) if isinstance(cv, bool) else Val('int', bv(cv))
                        continue
                    v = Val('cap', cap_kind(pr[2]), pr[1])
                    continue
                if (v is None or v.kind == 'unit') and len(pr) > 2 and pr[2] and cap_kind(pr[2]) != 'UPSTREAM':
                    # a captured synchronisation object reached through a nested closure environment
                    v = Val('cap', cap_kind(pr[2]), pr[1])
                    continue
                if v is None:
                    raise Unsupported('MIRBMC: field of unknown local _%d in %s' % (pl.local, self.p.name))
                if v.kind == 'pair':
                    v = v.a[pr[1]]
                elif v.kind == 'opt':
                    # (.. as Some).0 : payload
                    v = v.a[1]
                elif v.kind == 'tuple1':
                    v = v.a[0]
                elif v.kind == 'cap':
                    v = v
                else:
                    raise Unsupported('MIRBMC: field .%d of %s' % (pr[1], v.kind))
            elif k == 'downcast':
                continue
            elif k == 'deref':
                continue
            else:
                raise Unsupported('MIRBMC: projection %s' % k)
        if v is None:
            if pl.local == 1:
                return Val('cap', 'ENV', -1)
            raise Unsupported('MIRBMC: read of unassigned local _%d in %s' % (pl.local, self.p.name))
        return v

    def assign(self, env, pl, v):
        if pl.proj:
            raise Unsupported('MIRBMC: assignment to projected place in ' + self.p.name)
        env['L%d' % pl.local] = v

    def rvalue(self, env, rv):
        k = rv.kind
        a = rv.a
        if k == 'use':
            return self.operand(env, a[0])
        if k == 'ref':
            return self.place(env, a[1])
        if k == 'discriminant':
            v = self.place(env, a[0])
            if v.kind != 'opt':
                raise Unsupported('MIRBMC: discriminant of ' + v.kind)
            return Val('int', z3.If(v.a[0], bv(1), bv(0)))
        if k == 'binop':
            x, y = self.operand(env, a[1]), self.operand(env, a[2])
            op = a[0]
            if op in ('AddWithOverflow', 'SubWithOverflow'):
                r = x.a[0] + y.a[0] if op[0] == 'A' else x.a[0] - y.a[0]
                return Val('pair', Val('int', r), Val('bool', z3.BoolVal(False)))
            f = {'Add': lambda p, q: p + q, 'Sub': lambda p, q: p - q, 'Eq': lambda p, q: p == q, 'Ne': lambda p, q: p != q,
                 'Lt': lambda p, q: z3.ULT(p, q), 'Le': lambda p, q: z3.ULE(p, q), 'Gt': lambda p, q: z3.UGT(p, q),
                 'Ge': lambda p, q: z3.UGE(p, q)}.get(op)
            if f is None:
                raise Unsupported('MIRBMC: binop ' + op)
            r = f(x.a[0], y.a[0])
            return Val('bool' if op in ('Eq', 'Ne', 'Lt', 'Le', 'Gt', 'Ge') else 'int', r)
        if k == 'unop' and a[0] == 'Not':
            x = self.operand(env, a[1])
            return Val('bool', z3.Not(x.a[0]))
        if k == 'tuple':
            vs = [self.operand(env, o) for o in a[0]]
            if len(vs) == 1:
                return Val('tuple1', vs[0])
            if len(vs) == 2:
                return Val('pair', vs[0], vs[1])
            return Val('unit')
        if k == 'adt':
            m = re.search(r'Ordering::(\w+)', a[0])
            if m:
                return Val('ord', m.group(1))
            return Val('unit')
        if k == 'cast':
            return self.operand(env, a[0])
        if k == 'closure':
            return Val('unit')      # a closure environment: its captured synchronisation objects are found by type
        raise Unsupported('MIRBMC: rvalue %s in %s' % (k, self.p.name))

    # ---- one step: visible op at block pc, then local blocks until the next visible block
    def op_kind(self, bid):
        blk = self.p.blocks[bid]
        t = blk.term
        if t.kind == 'return':
            return 'RETURN'
        if t.kind == 'drop':
            return self.drop_kind({}, t.a['place'])
        return VISIBLE.get(self.p.kinds.get(id(blk)))

    def step(self, pc, env, sh, tid, fuse=True):
        """One scheduler step of thread tid at visible block pc: the visible operation, the local blocks after it and
        every directly following operation that cannot interact with other threads (PULL / UNLOCK inside the critical
        section, the computation, the final return)."""
        self.cur_tid, self.cur_k, self.nd = tid, sh.k, 0
        outs = self.step1(pc, env, sh, tid)
        if not fuse or not self.cfg.get('fuse', True):
            return outs
        final = []
        work = [(o, 0) for o in outs]
        while work:
            o, d = work.pop()
            if o.pc == 'done' or o.spin or d > 6 or self.op_kind(o.pc) not in FUSE_KINDS:
                final.append(o)
                continue
            view = SharedView(sh, o.shared)
            for o2 in self.step1(o.pc, o.regs, view, tid):
                upd = dict(o.shared)
                upd.update(o2.shared)
                work.append((Outcome(z3.And(o.guard, o2.guard), upd, o2.regs, o2.pc, False, o.note or o2.note), d + 1))
        return final

    def step1(self, pc, env, sh, tid):
        """Returns list of Outcome for thread tid at visible block pc (a single visible operation)."""
        blk = self.p.blocks[pc]
        env = dict(env)
        for st in blk.stmts:
            if st.kind == 'assign':
                self.assign(env, st.place, self.rvalue(env, st.rv))
        t = blk.term
        outs = []
        if t.kind == 'return':
            return [Outcome(z3.BoolVal(True), {}, env, 'done')]
        if t.kind == 'drop':
            what = self.drop_kind(env, t.a['place'])
            if what == 'UNLOCK':
                upd = {'mutex': bv(FREE)}
                g = sh.mutex == tid
            elif what == 'SENDER':
                upd = {'senders': sh.senders - 1}
                g = z3.BoolVal(True)
            else:
                upd, g = {}, z3.BoolVal(True)
            return self.run_local(t.a['target'], env, g, upd)
        key = self.p.kinds.get(id(blk))
        kind = VISIBLE.get(key)
        args = [self.operand(env, o) for o in t.a['args']]
        dest = t.a['dest']
        if kind == 'LOCK':
            g = sh.mutex == FREE
            self.assign(env, dest, Val('guard'))
            return self.run_local(t.a['target'], env, g, {'mutex': bv(tid)})
        if kind == 'PULL':
            recv = args[0]
            # Enumerate over the shared upstream (behind the mutex) or the producer's own upstream
            has = z3.ULT(sh.pulled, self.n)
            idx = sh.pulled
            payload = Val('pair', Val('int', idx), Val('item', idx)) if self.cfg.get('enumerate', True) else Val('item', idx)
            self.assign(env, dest, Val('opt', has, payload))
            g = z3.BoolVal(True)
            if self.cfg.get('pull_needs_lock', True):
                g = sh.mutex == tid
            return self.run_local(t.a['target'], env, g, {'pulled': z3.If(has, sh.pulled + 1, sh.pulled)})
        if kind == 'COMPUTE':
            item = args[1].a[0] if args[1].kind == 'tuple1' else args[1]
            iid = item.a[0]
            upd = {}
            for j in range(sh.nmax):
                upd['processed%d' % j] = z3.If(iid == j, sh.processed[j] + 1, sh.processed[j])
            self.assign(env, dest, Val('item', iid))
            outs = self.run_local(t.a['target'], env, z3.BoolVal(True), upd)
            if self.cfg.get('allow_panic'):
                # the processing function may unwind: the panic hook (if installed before the spawn) runs first
                pupd = {'panicked': z3.BoolVal(True)}
                if self.cfg.get('hook_exits'):
                    pupd['exited'] = z3.BoolVal(True)
                outs.append(Outcome(self.cfg['panic_choice'](tid, sh.k), pupd, env, 'done', note='panic'))
                for o in outs[:-1]:
                    o.guard = z3.And(o.guard, z3.Not(self.cfg['panic_choice'](tid, sh.k)))
            return outs
        if kind == 'LOAD':
            self.check_ordering(args)
            self.assign(env, dest, Val('int', sh.send_next))
            return self.run_local(t.a['target'], env, z3.BoolVal(True), {}, spin_from=pc)
        if kind == 'STORE':
            self.check_ordering(args)
            self.assign(env, dest, Val('int', sh.send_next))
            return self.run_local(t.a['target'], env, z3.BoolVal(True), {'send_next': args[1].a[0]})
        if kind == 'SEND':
            item = args[1]
            iid = item.a[0]
            cap = sh.cap
            can = z3.Or(z3.Not(sh.recv_alive), z3.ULT(sh.qlen, cap)) if cap > 0 else z3.Or(z3.Not(sh.recv_alive), z3.ULT(sh.qlen, 1))
            upd = {'qlen': z3.If(sh.recv_alive, sh.qlen + 1, sh.qlen)}
            for i in range(len(sh.q)):
                upd['q%d' % i] = z3.If(z3.And(sh.recv_alive, sh.qlen == i), iid, sh.q[i])
            self.assign(env, dest, Val('res', z3.Not(sh.recv_alive)))
            return self.run_local(t.a['target'], env, can, upd)
        raise Unsupported('MIRBMC: block bb%d of %s is not a visible operation (%s)' % (pc, self.p.name, key))

    def check_ordering(self, args):
        for a in args:
            if a.kind == 'ord' and a.a[0] != 'SeqCst':
                raise Unsupported('MIRBMC: atomic ordering %s is outside the model (only SeqCst is modelled)' % a.a[0])

    def drop_kind(self, env, pl):
        if not pl.proj and self.p.guard_local(pl.local):
            return 'UNLOCK'
        if pl.local == 1 and not pl.proj:
            return 'SENDER'      # dropping the closure environment drops its SyncSender clone
        if pl.local == 1 and pl.proj and pl.proj[0][0] == 'field' and cap_kind(pl.proj[0][2]) == 'SENDER':
            return 'SENDER'
        return 'LOCAL'

    def is_visible(self, bid):
        blk = self.p.blocks[bid]
        t = blk.term
        if t.kind == 'return':
            return True
        if t.kind == 'drop':
            return self.drop_kind({}, t.a['place']) != 'LOCAL'
        if t.kind == 'call':
            key = self.p.kinds.get(id(blk))
            if key in VISIBLE:
                return True
            if key in LOCAL_CALLS or key in TIME_CALLS or key in CMP_CALLS:
                return False
            raise Unsupported('MIRBMC: call to %s in %s is outside the protocol model' % (key, self.p.name))
        return False

    def run_local(self, bid, env, guard, upd, spin_from=None, depth=0):
        """Execute local blocks from bid until a visible block; returns guarded outcomes."""
        if depth > 40:
            raise Unsupported('MIRBMC: local loop without visible operation in ' + self.p.name)
        if self.is_visible(bid):
            return [Outcome(guard, upd, env, bid, spin=(bid == spin_from and not upd))]
        blk = self.p.blocks[bid]
        env = dict(env)
        for st in blk.stmts:
            if st.kind == 'assign':
                self.assign(env, st.place, self.rvalue(env, st.rv))
        t = blk.term
        if t.kind == 'goto':
            return self.run_local(t.a['target'], env, guard, upd, spin_from, depth + 1)
        if t.kind == 'drop':
            return self.run_local(t.a['target'], env, guard, upd, spin_from, depth + 1)
        if t.kind == 'assert':
            return self.run_local(t.a['target'], env, guard, upd, spin_from, depth + 1)
        if t.kind == 'switch':
            v = self.operand(env, t.a['op'])
            outs = []
            rest = guard
            for val, tgt in t.a['targets']:
                c = (v.a[0] == bv(val)) if v.kind == 'int' else (v.a[0] if val else z3.Not(v.a[0]))
                outs += self.run_local(tgt, env, z3.And(guard, c), upd, spin_from, depth + 1)
                rest = z3.And(rest, z3.Not(c))
            if t.a['otherwise'] is not None and self.p.blocks[t.a['otherwise']].term.kind != 'unreachable':
                outs += self.run_local(t.a['otherwise'], env, rest, upd, spin_from, depth + 1)
            return outs
        if t.kind == 'call':
            key = self.p.kinds.get(id(blk))
            args = [self.operand(env, o) for o in t.a['args']]
            dest = t.a['dest']
            if key in ('Result::is_err', 'Result::is_ok'):
                r = args[0]
                err = r.a[0] if r.kind == 'res' else z3.BoolVal(False)
                self.assign(env, dest, Val('bool', err if key.endswith('is_err') else z3.Not(err)))
            elif key in ('Deref::deref', 'DerefMut::deref_mut', 'Result::expect', 'Result::unwrap', 'IntoIterator::into_iter'):
                self.assign(env, dest, args[0])
            elif key in TIME_CALLS:
                self.assign(env, dest, Val('time'))      # the clock is an arbitrary environment value
            elif key in CMP_CALLS:
                if any(a.kind in ('time', 'unit') for a in args):
                    # comparison of clock values: nondeterministic outcome (every timing)
                    self.nd += 1
                    self.assign(env, dest, Val('bool', self.cfg['nondet'](self.cur_tid, self.cur_k, self.nd)))
                else:
                    x, y = args[0].a[0], args[1].a[0]
                    r = {'gt': z3.UGT, 'ge': z3.UGE, 'lt': z3.ULT, 'le': z3.ULE, 'eq': lambda p, q: p == q,
                         'ne': lambda p, q: p != q}[key.split('::')[1]](x, y)
                    self.assign(env, dest, Val('bool', r))
            else:
                self.assign(env, dest, Val('unit'))
            return self.run_local(t.a['target'], env, guard, upd, spin_from, depth + 1)
        if t.kind == 'unreachable':
            return []
        raise Unsupported('MIRBMC: terminator %s in %s' % (t.kind, self.p.name))


def env_to_regs(env):
    """Flatten an abstract environment into scalar z3 terms keyed by name (for carrying across steps)."""
    out = {}

    def put(name, v):
        if v is None:
            return
        if v.kind in ('int', 'bool'):
            out[name] = v.a[0]
        elif v.kind == 'item':
            out[name + '#item'] = v.a[0]
        elif v.kind == 'opt':
            out[name + '#some'] = v.a[0]
            put(name + '#p', v.a[1])
        elif v.kind == 'pair':
            put(name + '#0', v.a[0])
            put(name + '#1', v.a[1])
        elif v.kind == 'res':
            out[name + '#err'] = v.a[0]
        elif v.kind == 'tuple1':
            put(name + '#t', v.a[0])
    for k, v in env.items():
        put(k, v)
    return out


class RegFile:
    """Per-thread register layout discovered by a dry run; values are z3 constants per step."""

    def __init__(self, layout, tid, k, prefix):
        self.layout = layout    # name -> ('int'|'bool')
        self.vars = {}
        for name, srt in layout.items():
            nm = '%s_t%d_%s_%d' % (prefix, tid, name, k)
            self.vars[name] = BVI(nm) if srt == 'int' else z3.Bool(nm)

    def env(self, shapes):
        """Rebuild the abstract environment from the registers following the recorded shapes."""
        def build(name, shape):
            kind = shape[0]
            if kind in ('int', 'bool'):
                return Val(kind, self.vars[name])
            if kind == 'item':
                return Val('item', self.vars[name + '#item'])
            if kind == 'opt':
                return Val('opt', self.vars[name + '#some'], build(name + '#p', shape[1]))
            if kind == 'pair':
                return Val('pair', build(name + '#0', shape[1]), build(name + '#1', shape[2]))
            if kind == 'res':
                return Val('res', self.vars[name + '#err'])
            if kind == 'tuple1':
                return Val('tuple1', build(name + '#t', shape[1]))
            return Val(kind, *shape[1:])
        return {k: build(k, s) for k, s in shapes.items()}


def shape_of(v):
    if v.kind in ('int', 'bool', 'item', 'res', 'time'):
        return (v.kind,)
    if v.kind == 'opt':
        return ('opt', shape_of(v.a[1]))
    if v.kind == 'pair':
        return ('pair', shape_of(v.a[0]), shape_of(v.a[1]))
    if v.kind == 'tuple1':
        return ('tuple1', shape_of(v.a[0]))
    return (v.kind,) + tuple(v.a)


class System:
    """K-step unrolling of W worker threads (one ThreadProgram), a consumer and environment actions."""

    def __init__(self, prog, W, cap, nmax, n_items, K, cfg, prefix='s'):
        self.prog = prog
        self.W, self.cap, self.nmax, self.K = W, cap, nmax, K
        self.n = n_items
        self.cfg = dict(cfg)
        self.prefix = prefix
        self.solver = z3.Solver()
        self.solver.set('timeout', cfg.get('timeout_ms', 600000))
        self.sched = [BVI('%s_sched_%d' % (prefix, k)) for k in range(K)]
        self.panic_bits = {}
        self.cfg['panic_choice'] = self.panic_choice
        self.cfg['nondet'] = self.nondet
        self.interp = Interp(prog, n_items, self.cfg)
        self.shared = [Shared(k, cap, nmax, prefix) for k in range(K + 1)]
        self.pcs = [[BVI('%s_pc_t%d_%d' % (prefix, t, k)) for t in range(W)] for k in range(K + 1)]
        self.spin = [z3.Bool('%s_spin_%d' % (prefix, k)) for k in range(K)]
        self.progress = [z3.Bool('%s_prog_%d' % (prefix, k)) for k in range(K)]
        self.visible_blocks = None
        self.layout = None
        self.shapes = None
        self.regs = None
        self.stats = {'block_instances': 0}
        self.stutters = []
        self._discover()
        self._build()
        # symmetry breaking: stutter steps only as padding at the end of a trace
        for k in range(len(self.stutters) - 1):
            self.solver.add(z3.Implies(self.stutters[k], self.stutters[k + 1]))

    def nondet(self, tid, k, n):
        key = ('nd', tid, k, n)
        if key not in self.panic_bits:
            self.panic_bits[key] = z3.Bool('%s_nondet_t%d_%d_%d' % (self.prefix, tid, k, n))
        return self.panic_bits[key]

    def panic_choice(self, tid, k):
        key = (tid, k)
        if key not in self.panic_bits:
            self.panic_bits[key] = z3.Bool('%s_panic_t%d_%d' % (self.prefix, tid, k))
        return self.panic_bits[key]

    # ---- register layout: dry run over all visible blocks to a fixpoint
    def _discover(self):
        p = self.prog
        it = self.interp
        sh = Shared(-1, self.cap, self.nmax, self.prefix + 'dry')
        # entry: run local blocks from bb0
        entry = it.run_local(0, {}, z3.BoolVal(True), {})
        shapes = {}
        visible = set()
        work = []
        for o in entry:
            work.append((o.pc, o.regs))
        self.entry = entry
        seen_shapes = {}
        rounds = 0
        while work:
            rounds += 1
            if rounds > 500:
                raise Unsupported('MIRBMC: register discovery does not converge for ' + p.name)
            pc, env = work.pop()
            if pc == 'done':
                continue
            sig = (pc, tuple(sorted((k, shape_of(v)) for k, v in env.items())))
            if sig in seen_shapes:
                continue
            seen_shapes[sig] = True
            visible.add(pc)
            for k, v in env.items():
                shapes.setdefault(k, shape_of(v))
            for o in it.step(pc, env, sh, 0):
                # locals carried over: keep everything assigned so far
                work.append((o.pc, o.regs))
        self.visible_blocks = sorted(visible)
        self.shapes = shapes
        layout = {}
        for k, shp in shapes.items():
            dummy = RegFile({}, 0, 0, 'x')

            def walk(name, s):
                if s[0] == 'int':
                    layout[name] = 'int'
                elif s[0] == 'bool':
                    layout[name] = 'bool'
                elif s[0] == 'item':
                    layout[name + '#item'] = 'int'
                elif s[0] == 'opt':
                    layout[name + '#some'] = 'bool'
                    walk(name + '#p', s[1])
                elif s[0] == 'pair':
                    walk(name + '#0', s[1])
                    walk(name + '#1', s[2])
                elif s[0] == 'res':
                    layout[name + '#err'] = 'bool'
                elif s[0] == 'tuple1':
                    walk(name + '#t', s[1])
            walk(k, shp)
        self.layout = layout

    def _build(self):
        W, K = self.W, self.K
        S = self.solver
        sh0 = self.shared[0]
        # ---- initial state
        S.add(sh0.mutex == FREE, sh0.pulled == 0, sh0.send_next == 0, sh0.qlen == 0, sh0.recv_alive, sh0.senders == W,
              sh0.rcount == 0, z3.Not(sh0.exited), z3.Not(sh0.consumer_none), z3.Not(sh0.panicked), sh0.ghost == DONE)
        for j in range(self.nmax):
            S.add(sh0.processed[j] == 0)
        self.regs = [[RegFile(self.layout, t, k, self.prefix) for t in range(W)] for k in range(K + 1)]
        # all threads start at the first visible block reached from bb0 (entry outcomes have no shared effect)
        for t in range(W):
            alts = []
            for o in self.entry:
                cs = [o.guard, self.pcs[0][t] == (DONE if o.pc == 'done' else o.pc)]
                for name, term in env_to_regs(o.regs).items():
                    if name in self.regs[0][t].vars:
                        cs.append(self.regs[0][t].vars[name] == term)
                alts.append(z3.And(*cs))
            S.add(z3.Or(*alts))
        CONSUMER, ENV = W, W + 1
        for k in range(K):
            a, b = self.shared[k], self.shared[k + 1]
            sc = self.sched[k]
            S.add(z3.ULE(sc, ENV))
            cases = []
            # ---- worker threads
            for t in range(W):
                others_same = []
                for u in range(W):
                    if u != t:
                        others_same.append(self.pcs[k + 1][u] == self.pcs[k][u])
                        for name in self.layout:
                            others_same.append(self.regs[k + 1][u].vars[name] == self.regs[k][u].vars[name])
                env = self.regs[k][t].env(self.shapes)
                tcases = []
                for pc in self.visible_blocks:
                    outs = self.interp.step(pc, env, a, t)
                    self.stats['block_instances'] += 1
                    for o in outs:
                        cs = [self.pcs[k][t] == pc, o.guard]
                        touched = set(o.shared)
                        for f in ['mutex', 'pulled', 'send_next', 'qlen', 'recv_alive', 'senders', 'rcount', 'exited',
                                  'consumer_none', 'panicked', 'ghost']:
                            cs.append(getattr(b, f) == (o.shared[f] if f in o.shared else getattr(a, f)))
                        for i in range(len(a.q)):
                            cs.append(b.q[i] == o.shared.get('q%d' % i, a.q[i]))
                        for j in range(self.nmax):
                            cs.append(b.processed[j] == o.shared.get('processed%d' % j, a.processed[j]))
                            cs.append(b.rseq[j] == a.rseq[j])
                        cs.append(self.pcs[k + 1][t] == (DONE if o.pc == 'done' else o.pc))
                        nr = env_to_regs(o.regs)
                        for name in self.layout:
                            cs.append(self.regs[k + 1][t].vars[name] == nr.get(name, self.regs[k][t].vars[name]))
                        cs.append(self.spin[k] == z3.BoolVal(bool(o.spin)))
                        tcases.append(z3.And(*cs))
                cases.append(z3.And(sc == t, z3.Not(a.exited), z3.Or(*tcases) if tcases else z3.BoolVal(False), *others_same))
            # ---- consumer: recv (blocks while the queue is empty and a sender is alive; None when no sender is left)
            frame = []
            for t in range(W):
                frame.append(self.pcs[k + 1][t] == self.pcs[k][t])
                for name in self.layout:
                    frame.append(self.regs[k + 1][t].vars[name] == self.regs[k][t].vars[name])
            got = z3.And(a.qlen != 0, a.recv_alive, z3.Not(a.consumer_none))
            # a receive that can give up (recv_timeout / try_recv) reports the end of the stream whenever the queue is empty
            gives_up = z3.BoolVal(bool(self.cfg.get('consumer_may_time_out')))
            none = z3.And(a.qlen == 0, z3.Or(a.senders == 0, gives_up), a.recv_alive, z3.Not(a.consumer_none))
            recv_upd = [b.qlen == a.qlen - 1, b.rcount == a.rcount + 1, b.consumer_none == a.consumer_none]
            for i in range(len(a.q) - 1):
                recv_upd.append(b.q[i] == a.q[i + 1])
            recv_upd.append(b.q[-1] == a.q[-1])
            for j in range(self.nmax):
                recv_upd.append(b.rseq[j] == z3.If(a.rcount == j, a.q[0], a.rseq[j]))
            same_rest = [b.mutex == a.mutex, b.pulled == a.pulled, b.send_next == a.send_next, b.recv_alive == a.recv_alive,
                         b.senders == a.senders, b.exited == a.exited, b.panicked == a.panicked, b.ghost == a.ghost] + \
                        [b.processed[j] == a.processed[j] for j in range(self.nmax)]
            none_upd = [b.consumer_none, b.qlen == a.qlen, b.rcount == a.rcount] + [b.q[i] == a.q[i] for i in range(len(a.q))] + \
                       [b.rseq[j] == a.rseq[j] for j in range(self.nmax)]
            if self.cfg.get('consumer_active', True):
                cases.append(z3.And(sc == CONSUMER, z3.Not(a.exited), z3.Not(self.spin[k]),
                                    z3.Or(z3.And(got, *recv_upd), z3.And(none, *none_upd)), *(same_rest + frame)))
            # ---- environment: stutter, or drop the receiver (C09)
            stutter = z3.And(*(eq_states(a, b) + frame + [z3.Not(self.spin[k])]))
            envc = [stutter]
            if self.cfg.get('allow_drop'):
                drop = [z3.Not(b.recv_alive), a.recv_alive, b.qlen == 0, b.mutex == a.mutex, b.pulled == a.pulled,
                        b.send_next == a.send_next, b.senders == a.senders, b.rcount == a.rcount, b.exited == a.exited,
                        b.consumer_none == a.consumer_none, b.panicked == a.panicked, b.ghost == a.pulled, z3.Not(self.spin[k])] + \
                       [b.q[i] == a.q[i] for i in range(len(a.q))] + [b.rseq[j] == a.rseq[j] for j in range(self.nmax)] + \
                       [b.processed[j] == a.processed[j] for j in range(self.nmax)] + frame
                envc.append(z3.And(*drop))
            cases.append(z3.And(sc == ENV, z3.Or(*envc)))
            S.add(z3.Or(*cases))
            self.stutters.append(z3.And(sc == ENV, stutter))
            # progress flag: the step changed the state
            S.add(self.progress[k] == z3.Not(z3.And(*(eq_states(a, b) + frame))))

    def enabled_progress(self, k, t):
        """Thread t has an enabled step at state k that is not a pure spin."""
        env = self.regs[k][t].env(self.shapes)
        alts = []
        for pc in self.visible_blocks:
            for o in self.interp.step(pc, env, self.shared[k], t):
                if not o.spin:
                    alts.append(z3.And(self.pcs[k][t] == pc, o.guard))
        return z3.Or(*alts) if alts else z3.BoolVal(False)

    def consumer_enabled(self, k):
        a = self.shared[k]
        return z3.And(a.recv_alive, z3.Not(a.consumer_none),
                      z3.Or(a.qlen != 0, a.senders == 0, z3.BoolVal(bool(self.cfg.get('consumer_may_time_out')))))

    def stuck(self, k, need_consumer=True):
        """No actor can make progress although the protocol is not finished."""
        a = self.shared[k]
        unfinished = z3.Or(*[self.pcs[k][t] != DONE for t in range(self.W)])
        if need_consumer:
            unfinished = z3.Or(unfinished, z3.And(a.recv_alive, z3.Not(a.consumer_none)))
        none_enabled = z3.And(*[z3.Not(self.enabled_progress(k, t)) for t in range(self.W)])
        if self.cfg.get('consumer_active', True):
            none_enabled = z3.And(none_enabled, z3.Not(self.consumer_enabled(k)))
        return z3.And(z3.Not(a.exited), unfinished, none_enabled)

    def workers_blocked(self, k):
        """some background thread has not finished and none of them can move (used when the consumer's Drop waits for them)"""
        a = self.shared[k]
        unfinished = z3.Or(*[self.pcs[k][t] != DONE for t in range(self.W)])
        none_enabled = z3.And(*[z3.Not(self.enabled_progress(k, t)) for t in range(self.W)])
        return z3.And(z3.Not(a.exited), unfinished, none_enabled)

    # ---- enabledness of "some progress step" at step k (for deadlock / livelock queries)
    def worker_done(self, k, t):
        return self.pcs[k][t] == DONE

    def all_workers_done(self, k):
        return z3.And(*[self.worker_done(k, t) for t in range(self.W)])

    def check(self, formula, what):
        t0 = time.time()
        self.solver.push()
        self.solver.add(formula)
        r = self.solver.check()
        mdl = self.solver.model() if r == z3.sat else None
        self.solver.pop()
        return r, mdl, time.time() - t0

    def trace(self, mdl):
        out = []
        for k in range(self.K):
            s = mdl.eval(self.sched[k], model_completion=True).as_long()
            a = self.shared[k + 1]
            out.append({'actor': ('worker%d' % s) if s < self.W else ('consumer' if s == self.W else 'env'),
                        'pcs': [mdl.eval(self.pcs[k + 1][t], model_completion=True).as_long() for t in range(self.W)],
                        'pulled': mdl.eval(a.pulled, model_completion=True).as_long(),
                        'send_next': mdl.eval(a.send_next, model_completion=True).as_long(),
                        'qlen': mdl.eval(a.qlen, model_completion=True).as_long(),
                        'rcount': mdl.eval(a.rcount, model_completion=True).as_long(),
                        'progress': bool(z3.is_true(mdl.eval(self.progress[k], model_completion=True)))})
        return out
