"""Path-wise symbolic interpreter for rustc MIR (see DESIGN.md section 2)."""
import math
import re
import struct
import time
import z3

from values import *
from mirparse import Program, Place, Operand, Const
from resolve import Resolver, parse_callee, strip_generics, type_head

FAT = object()  # marker: location of an unsized place (value is the fat reference itself)

STD_ENUMS = {
    'Option': ['None', 'Some'],
    'Result': ['Ok', 'Err'],
    'Cow': ['Borrowed', 'Owned'],
    'ControlFlow': ['Continue', 'Break'],
    'FoldWhile': ['Continue', 'Done'],
    'Bound': ['Included', 'Excluded', 'Unbounded'],
    'Ordering': ['Less', 'Equal', 'Greater'],
    'Either': ['Left', 'Right'],
    'EitherOrBoth': ['Both', 'Left', 'Right'],
    'MinMaxResult': ['NoElements', 'OneElement', 'MinMax'],
    'Entry': ['Occupied', 'Vacant'],
    'Position': ['First', 'Middle', 'Last', 'Only'],
}

MODELS = {}
CURRENT = [None]


def model(*keys):
    def deco(f):
        for k in keys:
            MODELS[k] = f
        return f
    return deco


def f32_round(x):
    try:
        return struct.unpack('f', struct.pack('f', x))[0]
    except OverflowError:
        return math.inf if x > 0 else -math.inf


class Stats:
    def __init__(self):
        self.paths = 0
        self.infeasible_pruned = 0
        self.solver_checks = 0
        self.solver_time = 0.0
        self.blocks = 0
        self.calls = {}
        self.models = {}
        self.requires = 0
        self.max_depth = 0

    def merge(self, o):
        self.paths += o.paths
        self.infeasible_pruned += o.infeasible_pruned
        self.solver_checks += o.solver_checks
        self.solver_time += o.solver_time
        self.blocks += o.blocks
        self.requires += o.requires
        self.max_depth = max(self.max_depth, o.max_depth)
        for k, v in o.calls.items():
            self.calls[k] = self.calls.get(k, 0) + v
        for k, v in o.models.items():
            self.models[k] = self.models.get(k, 0) + v


class Violation(Exception):
    def __init__(self, what, model_inputs, detail=None):
        Exception.__init__(self, what)
        self.what = what
        self.inputs = model_inputs
        self.detail = detail


class Ctx:
    """One explored path: solver state + decision list.  Re-created for each path (replay-based forking)."""

    def __init__(self, machine, prefix, stats):
        self.m = machine
        self.prefix = prefix
        self.taken = []
        self.pending = []
        self.stats = stats
        self.solver = machine.solver
        self.inputs = {}       # name -> z3 term / python description for model extraction
        self.nfresh = 0
        self.width_cache = {}
        self.steps = 0
        self.step_budget = machine.step_budget
        self.unknown = False
        self.notes = []
        self.rng_draws = 0
        self.hash_order = machine.hash_order
        self.decided = {}      # z3 ast id -> decision taken on this path
        self.use_cvc5 = False  # decide every query of this path with cvc5 (floating-point heavy harness modes)
        self.ext_model = None
        self.concrete = None   # dict of concrete inputs (translator validation / concrete replay)
        self.outputs = None    # dict collecting outputs in concrete mode
        self.sample = None
        self.preds = {}        # (pred name, ast id) -> Bool literal defined on this path

    # ---- solver helpers
    def _check(self, *extra):
        t0 = time.time()
        self.ext_model = None
        if self.use_cvc5:
            r = self._check_cvc5(extra)
        else:
            r = self.solver.check(*extra)
            if r == z3.unknown and self.m.cvc5_fallback:
                r = self._check_cvc5(extra)
        self.stats.solver_checks += 1
        self.stats.solver_time += time.time() - t0
        if r == z3.unknown:
            self.unknown = True
        return r

    def _check_cvc5(self, extra):
        """Decide the current path condition (+extra) with cvc5 (much faster than z3 on IEEE-754 mul/div).
        On sat the values of all free constants are read back and kept as a z3 model substitute."""
        import subprocess, tempfile, os
        s2 = z3.Solver()
        s2.add(self.solver.assertions())
        for e in extra:
            s2.add(e)
        consts = {}

        def collect(t):
            stack = [t]
            seen = set()
            while stack:
                x = stack.pop()
                if x.get_id() in seen:
                    continue
                seen.add(x.get_id())
                if z3.is_const(x) and x.decl().kind() == z3.Z3_OP_UNINTERPRETED:
                    consts[x.decl().name()] = x
                stack.extend(x.children())
        for a in s2.assertions():
            collect(a)
        names = sorted(consts)
        body = s2.to_smt2().replace('(check-sat)', '')
        q = '(set-option :produce-models true)\n(set-logic ALL)\n' + body + '\n(check-sat)\n'
        if names:
            q += '(get-value (%s))\n' % ' '.join('|%s|' % n if not n.replace('_', 'a').isalnum() else n for n in names)
        fd, path = tempfile.mkstemp(suffix='.smt2', dir=os.environ.get('VERIF_SCRATCH', '/var/tmp/verif-scratch'))
        os.write(fd, q.encode())
        os.close(fd)
        try:
            p = subprocess.run(['cvc5', '--tlimit=%d' % self.m.cvc5_timeout_ms, path], capture_output=True, text=True,
                               timeout=self.m.cvc5_timeout_ms / 1000 + 10)
            out = p.stdout
        except Exception:
            out = ''
        finally:
            os.remove(path)
        first = out.strip().split('\n')[0] if out.strip() else ''
        if first == 'unsat':
            return z3.unsat
        if '(error' in out:
            return z3.unknown
        if first != 'sat':
            return z3.unknown
        vals = {}
        try:
            for mm in re.finditer(r'\(\|?([^\s()|]+)\|?\s+((?:\(fp [^)]*\))|(?:#[bx][0-9a-fA-F]+)|true|false|\(_ [^)]*\))\)', out):
                name, v = mm.group(1), mm.group(2)
                c = consts.get(name)
                if c is None:
                    continue
                vals[name] = (c, self._parse_smt_value(v, c))
        except Exception:
            return z3.unknown
        self.ext_model = vals
        return z3.sat

    @staticmethod
    def _parse_smt_value(v, c):
        def bits(tok):
            if tok.startswith('#b'):
                return int(tok[2:], 2), len(tok) - 2
            return int(tok[2:], 16), 4 * (len(tok) - 2)
        if v == 'true':
            return z3.BoolVal(True)
        if v == 'false':
            return z3.BoolVal(False)
        if v.startswith('(fp'):
            a, b, d = v[3:-1].split()
            sv, _ = bits(a)
            ev, eb = bits(b)
            mv, mb = bits(d)
            return z3.fpFP(z3.BitVecVal(sv, 1), z3.BitVecVal(ev, eb), z3.BitVecVal(mv, mb))
        if v.startswith('(_ '):
            parts = v[3:-1].split()
            srt = c.sort()
            if parts[0] == 'NaN':
                return z3.fpNaN(srt)
            if parts[0] == '+oo':
                return z3.fpPlusInfinity(srt)
            if parts[0] == '-oo':
                return z3.fpMinusInfinity(srt)
            if parts[0] == '+zero':
                return z3.fpPlusZero(srt)
            if parts[0] == '-zero':
                return z3.fpMinusZero(srt)
            if parts[0].startswith('bv'):
                return z3.BitVecVal(int(parts[0][2:]), int(parts[1]))
        val, n = bits(v)
        return z3.BitVecVal(val, n)

    def branch(self, cond):
        """Decide a (possibly symbolic) boolean; forks the path when both sides are feasible."""
        if cond is True or cond is False:
            return cond
        if isinstance(cond, Int):
            raise Unsupported('branch on int')
        cid = cond.get_id()
        e = self.decided.get(cid)
        if e is not None:
            return e[0]
        if z3.is_not(cond):
            e = self.decided.get(cond.arg(0).get_id())
            if e is not None:
                return not e[0]
        scond = z3.simplify(cond)
        if z3.is_true(scond):
            return True
        if z3.is_false(scond):
            return False
        e = self.decided.get(scond.get_id())
        if e is not None:
            self.decided[cid] = (e[0], cond)
            return e[0]
        d = self._branch(scond)
        # the terms are kept alive in the cache: z3 recycles AST ids of freed terms
        self.decided[cid] = (d, cond)
        self.decided[scond.get_id()] = (d, scond)
        return d

    def char_pred(self, name, c, builder):
        """Bool literal equivalent to builder(c) (definition asserted once per path)."""
        key = (name, c.v.get_id())
        e = self.preds.get(key)
        if e is None:
            self.nfresh += 1
            b = z3.Bool('%s!%d' % (name, self.nfresh))
            if z3.is_const(c.v):
                gk = (name, c.v.decl().name())
                t = self.m.term_cache.get(gk)
                if t is None:
                    t = builder(c)
                    self.m.term_cache[gk] = t
            else:
                t = builder(c)
            self.solver.add(b == t)
            e = (b, c.v)
            self.preds[key] = e
        return e[0]

    def _branch(self, cond):
        i = len(self.taken)
        if i < len(self.prefix):
            d = self.prefix[i]
            self.taken.append(d)
            self.solver.add(cond if d else z3.Not(cond))
            return bool(d)
        r = self._check(cond)
        if r == z3.unsat:
            d = 0
            self.stats.infeasible_pruned += 1
        else:
            r2 = self._check(z3.Not(cond))
            if r2 == z3.unsat:
                self.stats.infeasible_pruned += 1
            else:
                self.pending.append(self.taken + [0])
            d = 1
        self.taken.append(d)
        self.solver.add(cond if d else z3.Not(cond))
        if len(self.taken) > self.stats.max_depth:
            self.stats.max_depth = len(self.taken)
        return bool(d)

    def choice(self, n, what=''):
        """Pure nondeterministic choice among n alternatives (no constraint): forks n ways."""
        if n <= 1:
            return 0
        i = len(self.taken)
        if i < len(self.prefix):
            d = self.prefix[i]
            self.taken.append(d)
            return d
        for k in range(1, n):
            self.pending.append(self.taken + [k])
        self.taken.append(0)
        return 0

    def assume(self, cond):
        if cond is True:
            return
        if cond is False:
            raise Infeasible()
        cond = z3.simplify(cond)
        if z3.is_true(cond):
            return
        if z3.is_false(cond):
            raise Infeasible()
        self.solver.add(cond)
        # feasibility is checked lazily at the next branch / require; check now to cut early
        if self._check() == z3.unsat:
            raise Infeasible()

    def is_feasible(self, cond):
        if cond is True:
            return True
        if cond is False:
            return False
        return self._check(cond) != z3.unsat

    def must(self, cond):
        """True iff cond holds on every model of the current path condition."""
        if cond is True:
            return True
        if cond is False:
            return False
        return self._check(z3.Not(cond)) == z3.unsat

    def require(self, cond, what):
        """Property assertion: a satisfiable negation is a counterexample."""
        self.stats.requires += 1
        if cond is True:
            return
        if cond is not False:
            cond = z3.simplify(cond)
            if z3.is_true(cond):
                return
            r = self._check(z3.Not(cond))
            if r == z3.unsat:
                return
            if r == z3.unknown:
                raise Unsupported('solver returned unknown for require(%s)' % what)
            mdl = self._model()
        else:
            r = self._check()
            if r == z3.unsat:
                raise Infeasible()
            if r == z3.unknown:
                raise Unsupported('solver returned unknown for require(%s)' % what)
            mdl = self._model()
        raise Violation(what, self.extract_inputs(mdl))

    def _model(self):
        if self.ext_model is not None:
            return ExtModel(self.ext_model)
        return self.solver.model()

    def fail(self, what):
        self.require(False, what)

    def model_now(self):
        r = self._check()
        if r != z3.sat:
            return None
        return self._model()

    def extract_inputs(self, mdl):
        out = {}
        for name, term in self.inputs.items():
            out[name] = self._eval_input(mdl, term)
        return out

    def _eval_input(self, mdl, term):
        if isinstance(term, (list, tuple)):
            return [self._eval_input(mdl, t) for t in term]
        if isinstance(term, dict):
            return {k: self._eval_input(mdl, t) for k, t in term.items()}
        if isinstance(term, Int):
            term = term.v
        if isinstance(term, FP):
            term = term.v
        if isinstance(term, z3.ExprRef):
            v = mdl.eval(term, model_completion=True)
            if z3.is_bv_value(v):
                return v.as_long()
            if z3.is_true(v):
                return True
            if z3.is_false(v):
                return False
            if z3.is_fp(v):
                return fp_to_py(v)
            return str(v)
        return term

    # ---- symbolic input construction
    def fresh_bv(self, name, bits):
        self.nfresh += 1
        return z3.BitVec('%s!%d' % (name, self.nfresh), bits)

    def fresh_int(self, name, ty):
        return Int(self.fresh_bv(name, INT_BITS[ty]), ty)

    def fresh_bool(self, name):
        self.nfresh += 1
        return z3.Bool('%s!%d' % (name, self.nfresh))

    def fresh_fp(self, name, ty='f64'):
        self.nfresh += 1
        return FP(z3.FP('%s!%d' % (name, self.nfresh), z3.Float64() if ty == 'f64' else z3.Float32()), ty)

    def sym_char(self, name, width):
        """Symbolic char constrained to the scalar values whose UTF-8 encoding has `width` bytes."""
        c = self.fresh_bv(name, 32)
        if width == 1:
            self.solver.add(z3.ULT(c, 0x80))
        elif width == 2:
            self.solver.add(z3.UGE(c, 0x80), z3.ULT(c, 0x800))
        elif width == 3:
            self.solver.add(z3.UGE(c, 0x800), z3.ULT(c, 0x10000),
                            z3.Or(z3.ULT(c, 0xD800), z3.UGE(c, 0xE000)))
        else:
            self.solver.add(z3.UGE(c, 0x10000), z3.ULT(c, 0x110000))
        return Int(c, 'char', width)

    def sym_string(self, name, widths):
        chars = [self.sym_char('%s_c%d' % (name, i), w) for i, w in enumerate(widths)]
        self.inputs[name] = chars
        buf = StrBuf(chars, widths)
        return StrRef(buf, 0, buf.byte_len())

    def lit(self, s):
        return self.m.str_lit(s)

    def in_string(self, name, widths):
        """Harness input: symbolic string of the given width shape, or the concrete one in concrete mode."""
        if self.concrete is not None:
            s = self.m.str_lit(self.concrete[name])
            self.inputs[name] = list(self.concrete[name])
            return s
        return self.sym_string(name, widths)

    def in_int(self, name, ty):
        if self.concrete is not None:
            self.inputs[name] = self.concrete[name]
            return Int(self.concrete[name], ty)
        v = self.fresh_int(name, ty)
        self.inputs[name] = v
        return v

    def in_fp(self, name, ty='f64'):
        if self.concrete is not None:
            self.inputs[name] = self.concrete[name]
            return FP(float(self.concrete[name]), ty)
        v = self.fresh_fp(name, ty)
        self.inputs[name] = v
        return v

    def in_bool(self, name):
        if self.concrete is not None:
            self.inputs[name] = self.concrete[name]
            return bool(self.concrete[name])
        v = self.fresh_bool(name)
        self.inputs[name] = v
        return v

    def in_choice(self, name, n):
        """Harness-level enumeration input (forks n ways; value recorded for counterexamples)."""
        if self.concrete is not None:
            self.inputs[name] = self.concrete[name]
            return self.concrete[name]
        k = self.choice(n, name)
        self.inputs[name] = k
        return k

    def out(self, name, value):
        if self.outputs is not None:
            from harnesses.hlib import to_py
            self.outputs[name] = to_py(self, value)

    def char_width(self, c):
        if isinstance(c.v, int):
            v = c.v
            return 1 if v < 0x80 else 2 if v < 0x800 else 3 if v < 0x10000 else 4
        if c.w:
            return c.w
        k = c.v.get_id()
        e = self.width_cache.get(k)
        if e:
            return e[0]
        if self.branch(z3.ULT(c.v, 0x80)):
            w = 1
        elif self.branch(z3.ULT(c.v, 0x800)):
            w = 2
        elif self.branch(z3.ULT(c.v, 0x10000)):
            w = 3
        else:
            w = 4
        self.width_cache[k] = (w, c.v)
        return w

    def concretize(self, x, lo, hi, what='index'):
        """Fork over the feasible values of Int x in [lo, hi); returns python int or None if outside."""
        if isinstance(x, int):
            return x if lo <= x < hi else None
        if isinstance(x.v, int):
            return x.v if lo <= x.v < hi else None
        for k in range(lo, hi):
            if self.branch(x.v == z3.BitVecVal(k, x.bits)):
                return k
        return None

    def tick(self, n=1):
        self.steps += n
        if self.steps > self.step_budget:
            raise BoundExceeded('step budget %d exceeded' % self.step_budget)


class ExtModel:
    """Model read back from cvc5: substitution of constants by values."""

    def __init__(self, vals):
        self.subs = [(c, v) for (c, v) in vals.values()]

    def eval(self, term, model_completion=True):
        t = z3.substitute(term, *self.subs) if self.subs else term
        return z3.simplify(t)


def fp_to_py(v):
    if z3.is_fp_value(v) or z3.is_fp(v):
        v = z3.simplify(v)
        if v.isNaN():
            return float('nan')
        if v.isInf():
            return -math.inf if v.isNegative() else math.inf
        if v.isZero():
            return -0.0 if v.isNegative() else 0.0
        sig = v.significand_as_long()
        exp = v.exponent_as_long(False)
        sb = v.sbits() - 1
        sign = -1.0 if v.sign() else 1.0
        if v.isSubnormal():
            return sign * math.ldexp(sig, exp + 1 - sb) if False else float(str(v.significand())) * (2.0 ** exp) * sign
        return sign * math.ldexp((1 << sb) + sig, exp - sb)
    return float('nan')


class Frame:
    __slots__ = ('fn', 'locals')

    def __init__(self, fn, nlocals):
        self.fn = fn
        self.locals = [None] * nlocals


class Machine:
    """Holds the program, resolver and models; executes bodies under a Ctx."""

    def __init__(self, program, resolver, step_budget=200000, hash_order='all', solver_timeout_ms=20000):
        self.prog = program
        self.res = resolver
        self.step_budget = step_budget
        self.hash_order = hash_order
        self.solver = z3.Solver()
        self.solver.set('timeout', solver_timeout_ms)
        self.ctx = None
        self.lit_cache = {}
        self.callkey_cache = {}
        self.fn_stack = []
        self.entry_observers = {}   # crate function name -> callback(ctx, args) run when the function is entered
        self.observers = {}    # crate function name -> callback(ctx, args, result) run when the function returns
        self.hash_ties_any = False   # max_by_key / min_by_key directly over a hash iteration: any of the tied extremal entries
        self.stubs = {}        # callee key -> python function (harness-level environment stubs)
        self.encoded = {}      # crate function name -> call count (evidence)
        self.depth = 0
        self.const_cache = {}
        self.term_cache = {}   # (predicate, variable name) -> z3 term, shared by all paths
        self.cvc5_fallback = True
        self.cur_tyenv = {}
        self.cvc5_timeout_ms = 60000

    # ------------------------------------------------------------ literals
    def str_lit(self, s):
        if isinstance(s, str):
            cps = [ord(c) for c in s]
        else:
            cps = list(s)
        chars = [Int(c, 'char') for c in cps]
        widths = [1 if c < 0x80 else 2 if c < 0x800 else 3 if c < 0x10000 else 4 for c in cps]
        buf = StrBuf(chars, widths)
        return StrRef(buf, 0, buf.byte_len())

    def new_string(self, s=''):
        return StringObj(self.str_lit(s).buf)

    # ------------------------------------------------------------ running paths
    def run_path(self, harness, prefix, stats):
        """Execute harness(ctx) along the decision prefix.  Returns (ctx, outcome)."""
        ctx = Ctx(self, prefix, stats)
        self.ctx = ctx
        CURRENT[0] = ctx
        self.depth = 0
        self.fn_stack = []
        self.solver.push()
        try:
            try:
                harness(ctx)
                outcome = ('ok', None)
            except Infeasible:
                outcome = ('infeasible', None)
            except Violation as v:
                outcome = ('violation', v)
            except RustPanic as p:
                # an un-caught panic: harnesses catch the ones they expect
                mdl = ctx.model_now()
                if mdl is None:
                    outcome = ('infeasible', None)
                else:
                    outcome = ('violation', Violation('panic: ' + p.msg, ctx.extract_inputs(mdl)))
            except BoundExceeded as b:
                mdl = ctx.model_now()
                if mdl is None:
                    outcome = ('infeasible', None)
                else:
                    outcome = ('bound', Violation(str(b), ctx.extract_inputs(mdl)))
        finally:
            self.solver.pop()
        stats.paths += 1
        if len(ctx.taken) < len(prefix) and outcome[0] != 'infeasible':
            raise Unsupported('replay divergence: a re-executed path consumed %d of %d recorded decisions'
                              % (len(ctx.taken), len(prefix)))
        return ctx, outcome

    # ------------------------------------------------------------ calling
    def call(self, name, *args):
        """Call a crate function by (suffix of) its printed MIR name."""
        fn = self.find_fn(name)
        return self.call_fn(fn, list(args))

    def find_fn(self, name):
        fn = self.prog.functions.get(name)
        if fn is None:
            ck = parse_callee(name)
            if ck.kind == 'path':
                fn = self.res.resolve_path(ck)
        if fn is None:
            c = [f for n, f in self.prog.functions.items() if n.endswith('::' + name)]
            if len(c) == 1:
                fn = c[0]
        if fn is None:
            raise Unsupported('no MIR body for ' + name)
        return fn

    def call_fn(self, fn, args, tyenv=None):
        ctx = self.ctx
        fn.parse()
        saved_env = self.cur_tyenv
        self.cur_tyenv = tyenv or {}
        self.encoded[fn.name] = self.encoded.get(fn.name, 0) + 1
        if fn.kind == 'fn' and len(args) != fn.nargs:
            raise Unsupported('arity mismatch calling %s: %d vs %d' % (fn.name, len(args), fn.nargs))
        nlocals = (max(fn.local_types) + 1) if fn.local_types else 1
        fr = Frame(fn, nlocals)
        L = fr.locals
        for i, a in enumerate(args):
            L[i + 1] = a
        self.depth += 1
        if self.depth > 400:
            raise BoundExceeded('call depth')
        self.fn_stack.append(fn.name)
        if self.entry_observers:
            ob = self.entry_observers.get(fn.name)
            if ob is not None:
                ob(ctx, args)
        bb = 0
        blocks = fn.blocks
        try:
            while True:
                ctx.tick()
                blk = blocks[bb]
                for st in blk.stmts:
                    k = st.kind
                    if k == 'assign':
                        v = self.eval_rvalue(fr, st.rv)
                        self.write_place(fr, st.place, v)
                    elif k == 'nop':
                        pass
                    elif k == 'setdiscr':
                        raise Unsupported('SetDiscriminant')
                t = blk.term
                k = t.kind
                if k == 'goto':
                    bb = t.a['target']
                elif k == 'switch':
                    bb = self.do_switch(fr, t)
                elif k == 'call':
                    r = self.do_call(fr, t)
                    if t.a['dest'] is not None:
                        self.write_place(fr, t.a['dest'], r)
                    if t.a['target'] is None:
                        raise Unsupported('diverging call returned: ' + t.text[:100])
                    bb = t.a['target']
                elif k == 'return':
                    if self.observers:
                        ob = self.observers.get(fn.name)
                        if ob is not None:
                            ob(ctx, args, L[0])
                    return L[0]
                elif k == 'drop':
                    bb = t.a['target']
                elif k == 'assert':
                    c = self.eval_operand(fr, t.a['cond'])
                    exp = t.a['expected']
                    ok = c if exp else self.bnot(c)
                    if not ctx.branch(ok):
                        raise RustPanic('assertion failed: %s [%s]' % (t.a['msg'][:80], fn.name), 'assert')
                    bb = t.a['target']
                elif k == 'unreachable':
                    raise Unsupported('reached `unreachable` in ' + fn.name)
                else:
                    raise Unsupported('terminator ' + k + ' in ' + fn.name)
        except Unsupported as e:
            if not getattr(e, 'mir_stack', None):
                e.mir_stack = []
            if len(e.mir_stack) < 6:
                e.mir_stack.append('%s:bb%d' % (fn.name, bb))
                e.args = (e.args[0].split('  @')[0] + '  @ ' + ' < '.join(e.mir_stack),)
            raise
        finally:
            self.depth -= 1
            self.fn_stack.pop()
            self.cur_tyenv = saved_env

    def call_value(self, f, args):
        """Call a closure / fn item / harness function with already-spread args."""
        if isinstance(f, (Ref, BoxObj, ArcObj)):
            return self.call_value(self.deref(f), args)
        if isinstance(f, Closure):
            fn = f.fn
            fn.parse()
            t0 = fn.arg_types[0]
            if t0.startswith('&'):
                selfarg = ref_to(f)
            else:
                selfarg = f
            return self.call_fn(fn, [selfarg] + list(args))
        if isinstance(f, FnRef):
            return self.call_path(f.path, list(args))
        if isinstance(f, PyFn):
            return f.f(self.ctx, *args)
        if isinstance(f, CtorRef):
            return Enum(f.ty, f.variant, f.idx, list(args))
        raise Unsupported('call of non-callable %r' % (f,))

    def call_path(self, path, args, term=None):
        if self.cur_tyenv:
            for gname, gty in self.cur_tyenv.items():
                if gname in path:
                    path = re.sub(r'(?<![A-Za-z_0-9:])%s(?![A-Za-z_0-9])' % re.escape(gname), gty.replace('\\', '\\\\'), path)
        ent = self.callkey_cache.get(path)
        if ent is None:
            ck = parse_callee(path)
            ent = (ck, ck.key(), self.res.resolve_path(ck) if ck.kind == 'path' else None)
            self.callkey_cache[path] = ent
        ck, key, fn = ent
        ctx = self.ctx
        ctx.tick()
        stub = self.stubs.get(key)
        if stub is not None:
            return stub(ctx, args, ck)
        if ck.kind == 'path':
            if fn is not None:
                return self.call_fn(fn, args, self.env_for(fn, ck))
            mdl = MODELS.get(key)
            if mdl is None and len(ck.segs) >= 3:
                mdl = MODELS.get('::'.join(ck.segs[-3:]))
            if mdl is None:
                raise Unsupported('no model for ' + key + '   [' + path[:160] + ']')
            ctx.stats.models[key] = ctx.stats.models.get(key, 0) + 1
            return mdl(ctx, args, ck)
        # trait form
        tr, name = ck.trait, ck.name
        if tr in ('Fn', 'FnMut', 'FnOnce') and name in ('call', 'call_mut', 'call_once'):
            f = args[0]
            tup = args[1]
            return self.call_value(f, list(tup.fields) if tup is not None else [])
        impls = self.res.trait_impls(tr, name)
        if impls:
            selfv = self.peel(args[0]) if args else None
            th = self.runtime_type(selfv)
            if args and th is None and name in ('from', 'try_from', 'default', 'from_iter', 'from_str'):
                th = None
            cands = [g for (sh, sf, g) in impls if sh == th]
            if not args or name in ('from', 'default', 'from_str', 'try_from', 'from_bytes'):
                cands = [g for (sh, sf, g) in impls if sh == ck.selfty]
            if not cands:
                # blanket impl `impl<I> Trait for I`
                bl = [g for (sh, sf, g) in impls if sh in (getattr(g, 'impl_generics', None) or ())]
                if len(bl) == 1:
                    cands = bl
            if len(cands) > 1:
                cands = self.pick_impl(cands, ck, selfv)
            if len(cands) >= 1:
                # blanket impls on references (`impl PartialEq<&B> for &A`, `impl Display for &T` ...): strip the
                # extra reference levels before entering the impl for the referent type
                k = self.ref_depth(ck.selfty_full or '')
                if k and args:
                    args = list(args)
                    nstrip = 2 if tr in ('PartialEq', 'PartialOrd', 'Ord') else 1
                    for i in range(min(nstrip, len(args))):
                        for _ in range(k):
                            if isinstance(args[i], Ref) and isinstance(args[i].get(), Ref):
                                args[i] = args[i].get()
                return self.call_fn(cands[0], args, self.env_for(cands[0], ck))
        mdl = MODELS.get(key)
        if mdl is None:
            # provided trait method of a crate trait (default body)
            fn = self.res.free.get('%s::%s' % (tr, name))
            if fn is None:
                c = [f for n, f in self.res.free.items() if n.endswith('::%s::%s' % (tr, name))]
                fn = c[0] if len(c) == 1 else None
            if fn is not None:
                return self.call_fn(fn, args)
            raise Unsupported('no model for ' + key + '   [' + path[:160] + ']')
        ctx.stats.models[key] = ctx.stats.models.get(key, 0) + 1
        return mdl(ctx, args, ck)

    def env_for(self, fn, ck):
        """Generic-parameter bindings of an impl method for this call (lightweight monomorphisation)."""
        gens = getattr(fn, 'impl_generics', None)
        if not gens or not getattr(fn, 'impl_self_full', None):
            return dict(self.cur_tyenv) if self.cur_tyenv else None
        if ck.kind == 'trait':
            st = ck.selfty_full or ''
        else:
            st = ''
            head = fn.impl_self
            mm = re.search(r'\b%s::<' % re.escape(head), ck.raw)
            if mm:
                i = mm.end() - 1
                j = self.find_matching(ck.raw, i)
                st = head + ck.raw[i:j + 1]
        env = {}
        if st:
            try:
                env = self.res.bind_generics(fn.impl_self_full, st, gens)
            except Exception:
                env = {}
        # do not bind a generic to another (still generic) name
        env = {k: v for k, v in env.items() if v not in gens and not re.fullmatch(r'[A-Z][A-Za-z]{0,8}', v) or v in ('String',)}
        return env or None

    @staticmethod
    def find_matching(s, i):
        from mirparse import find_matching
        return find_matching(s, i)

    def pick_impl(self, cands, ck, selfv):
        """Several impls of one trait for the same (alias-expanded) type constructor: select by the static self
        type of the call when it is concrete, otherwise by the run-time types of the value's fields."""
        res = self.res
        st = res.expand_type(re.sub(r"^&\s*('[a-z_0-9]+\s+)?(mut\s+)?", '', (ck.selfty_full or '').strip()))
        sargs = res.type_args(st)
        good = []
        if sargs and type_head(st) not in ('T', 'Self', 'I') and not st.startswith('dyn '):
            good = [g for g in cands if res.unify_args(res.type_args(g.impl_self_full or ''), g.impl_generics, sargs)]
        if not good and isinstance(selfv, Struct) and selfv.names and 'config' in selfv.names:
            cfg = selfv.get('config')
            cname = cfg.ty if isinstance(cfg, Struct) else None
            for g in cands:
                ia = res.type_args(g.impl_self_full or '')
                if ia and ia[0] not in g.impl_generics and cname and type_head(ia[0]) == cname:
                    good.append(g)
            if not good:
                good = [g for g in cands if res.type_args(g.impl_self_full or '')[:1] and
                        res.type_args(g.impl_self_full or '')[0] in g.impl_generics]
        if not good:
            raise Unsupported('ambiguous trait impl for %s::%s on %s' % (ck.trait, ck.name, ck.selfty_full))
        good.sort(key=lambda g: sum(1 for a in res.type_args(g.impl_self_full or '') if a in g.impl_generics))
        return good[:1]

    @staticmethod
    def ref_depth(ty):
        k = 0
        ty = ty.strip()
        while ty.startswith('&'):
            k += 1
            ty = ty[1:].lstrip()
            ty = re.sub(r"^'[a-z_0-9]+\s+", '', ty)
            if ty.startswith('mut '):
                ty = ty[4:]
        return k

    def runtime_type(self, v):
        if isinstance(v, (Struct, Enum)):
            return v.ty
        if isinstance(v, StringObj):
            return 'String'
        if isinstance(v, VecObj):
            return 'Vec'
        if isinstance(v, Int):
            return v.ty
        if isinstance(v, FP):
            return v.ty
        if isinstance(v, StrRef):
            return 'str'
        if isinstance(v, (bool, z3.BoolRef)):
            return 'bool'
        return None

    def peel(self, v):
        """Follow thin references to the referent value."""
        n = 0
        while isinstance(v, Ref):
            v = v.cont[v.key]
            n += 1
            if n > 50:
                raise Unsupported('reference cycle')
        return v

    def deref(self, v):
        if isinstance(v, Ref):
            return v.cont[v.key]
        if isinstance(v, (BoxObj, ArcObj)):
            return v.fields[0]
        return v

    def do_call(self, fr, t):
        a = t.a
        args = [self.eval_operand(fr, o) for o in a['args']]
        if a['func'] is None:
            f = self.eval_operand(fr, a['fop'])
            return self.call_value(f, args)
        return self.call_path(a['func'], args, t)

    def do_switch(self, fr, t):
        v = self.eval_operand(fr, t.a['op'])
        ctx = self.ctx
        targets = t.a['targets']
        if isinstance(v, bool):
            iv = 1 if v else 0
            for k, b in targets:
                if k == iv:
                    return b
            return t.a['otherwise']
        if isinstance(v, z3.BoolRef):
            # [0: bbF, otherwise: bbT]  (or with 1:)
            if ctx.branch(v):
                iv = 1
            else:
                iv = 0
            for k, b in targets:
                if k == iv:
                    return b
            return t.a['otherwise']
        if isinstance(v, Int):
            if isinstance(v.v, int):
                x = v.v
                xu = x & ((1 << v.bits) - 1)
                for k, b in targets:
                    if k == x or k == xu:
                        return b
                if t.a['otherwise'] is None:
                    raise Unsupported('switch no target')
                return t.a['otherwise']
            for k, b in targets:
                if ctx.branch(v.v == z3.BitVecVal(k, v.bits)):
                    return b
            return t.a['otherwise']
        raise Unsupported('switchInt on %r' % (v,))

    # ------------------------------------------------------------ places
    def loc(self, fr, place):
        cont = fr.locals
        key = place.local
        for p in place.proj:
            k = p[0]
            if cont is FAT:
                v = key
            else:
                v = cont[key]
            if k == 'deref':
                if isinstance(v, Ref):
                    cont, key = v.cont, v.key
                elif isinstance(v, (BoxObj, ArcObj)):
                    cont, key = v.fields, 0
                elif isinstance(v, (SliceRef, StrRef)):
                    cont, key = FAT, v
                elif isinstance(v, (Closure, PyFn, FnRef)):
                    # &dyn Fn stored by value in our model
                    cont, key = [v], 0
                else:
                    raise Unsupported('deref of %r (%s)' % (type(v).__name__, fr.fn.name))
            elif k == 'field':
                if isinstance(v, (Tup, Struct, Enum, Closure, Arr)):
                    cont, key = v.fields, p[1]
                elif isinstance(v, (BoxObj, ArcObj)):
                    # field .0 of Box (Unique pointer) - treat as the box itself
                    cont, key = [v], 0
                else:
                    raise Unsupported('field of %s in %s' % (type(v).__name__, fr.fn.name))
                if key >= len(cont):
                    raise Unsupported('field index out of range in ' + fr.fn.name)
            elif k == 'downcast':
                if not isinstance(v, Enum):
                    raise Unsupported('downcast of %r' % (v,))
                if v.variant != p[1]:
                    raise Unsupported('downcast to %s of %r in %s' % (p[1], v, fr.fn.name))
            elif k == 'index':
                idx = fr.locals[p[1]]
                cont, key = self.index_loc(v, idx)
            elif k == 'constindex':
                items, lo, hi = self.seq_view(v)
                i = (hi - p[1]) if p[2] else (lo + p[1])
                cont, key = items, i
            elif k == 'subslice':
                items, lo, hi = self.seq_view(v)
                a = lo + p[1]
                b = (hi - p[2]) if p[3] else (lo + p[2])
                cont, key = FAT, SliceRef(items, a, b)
            else:
                raise Unsupported('projection ' + k)
        return cont, key

    def seq_view(self, v):
        if isinstance(v, SliceRef):
            return v.cont, v.lo, v.hi
        if isinstance(v, Arr):
            return v.fields, 0, len(v.fields)
        if isinstance(v, VecObj):
            return v.items, 0, len(v.items)
        raise Unsupported('sequence view of %r' % (type(v).__name__,))

    def index_loc(self, v, idx):
        items, lo, hi = self.seq_view(v)
        i = self.ctx.concretize(idx, 0, hi - lo)
        if i is None:
            raise RustPanic('index out of bounds', 'index')
        return items, lo + i

    def read_place(self, fr, place):
        if not place.proj:
            return fr.locals[place.local]
        cont, key = self.loc(fr, place)
        if cont is FAT:
            return key
        return cont[key]

    def write_place(self, fr, place, v):
        if not place.proj:
            fr.locals[place.local] = v
            return
        cont, key = self.loc(fr, place)
        if cont is FAT:
            raise Unsupported('write to unsized place')
        cont[key] = v

    # ------------------------------------------------------------ operands / rvalues
    def eval_operand(self, fr, op):
        k = op.kind
        if k == 'move':
            return self.read_place(fr, op.place)
        if k == 'copy':
            v = self.read_place(fr, op.place)
            if isinstance(v, (Tup, Arr, Struct, Enum, Closure)):
                return deep_copy(v)
            return v
        return self.eval_const(op.const)

    def eval_const(self, c):
        k = c.kind
        if k == 'int':
            return Int(c.value, c.ty)
        if k == 'bool':
            return c.value
        if k == 'unit':
            return None
        if k == 'char':
            return Int(c.value, 'char')
        if k == 'str':
            key = ('s', tuple(c.value))
            r = self.lit_cache.get(key)
            if r is None:
                r = self.str_lit(c.value)
                self.lit_cache[key] = r
            return r
        if k == 'bytes':
            return Ref([Arr([Int(b, 'u8') for b in c.value])], 0)
        if k == 'float':
            v = c.value
            if c.ty == 'f32':
                v = f32_round(v)
            return FP(v, c.ty)
        return self.eval_path_const(c.text)

    KNOWN_CONSTS = {
        'usize::MAX': Int((1 << 64) - 1, 'usize'), 'u64::MAX': Int((1 << 64) - 1, 'u64'),
        'u32::MAX': Int((1 << 32) - 1, 'u32'), 'u8::MAX': Int(255, 'u8'),
        'i64::MAX': Int((1 << 63) - 1, 'i64'), 'isize::MAX': Int((1 << 63) - 1, 'isize'),
        'f64::EPSILON': FP(2.220446049250313e-16, 'f64'), 'f32::EPSILON': FP(1.1920929e-07, 'f32'),
        'f64::INFINITY': FP(math.inf, 'f64'), 'f64::NEG_INFINITY': FP(-math.inf, 'f64'),
        'f64::MAX': FP(1.7976931348623157e308, 'f64'), 'f64::MIN': FP(-1.7976931348623157e308, 'f64'),
        'f32::INFINITY': FP(math.inf, 'f32'), 'f32::NEG_INFINITY': FP(-math.inf, 'f32'),
    }

    def eval_path_const(self, text):
        t = text
        v = self.KNOWN_CONSTS.get(strip_generics(t).replace('std::', '').replace('core::', ''))
        if v is not None:
            return v
        mm = re.search(r'(?:<impl )?\b(u8|u16|u32|u64|u128|usize|i8|i16|i32|i64|i128|isize)>?::(MAX|MIN|BITS)$', t)
        if mm:
            ty, what = mm.group(1), mm.group(2)
            bits = INT_BITS[ty]
            if what == 'BITS':
                return Int(bits, 'u32')
            if ty in SIGNED:
                return Int((1 << (bits - 1)) - 1 if what == 'MAX' else -(1 << (bits - 1)), ty)
            return Int((1 << bits) - 1 if what == 'MAX' else 0, ty)
        fm = re.search(r'(?:<impl )?\b(f64|f32)>?::(INFINITY|NEG_INFINITY|EPSILON|MAX|MIN|NAN)$', t)
        if fm:
            ty, what = fm.group(1), fm.group(2)
            vals = {'INFINITY': math.inf, 'NEG_INFINITY': -math.inf, 'NAN': math.nan,
                    'EPSILON': 2.220446049250313e-16 if ty == 'f64' else 1.1920929e-07,
                    'MAX': 1.7976931348623157e308 if ty == 'f64' else 3.4028234663852886e38,
                    'MIN': -1.7976931348623157e308 if ty == 'f64' else -3.4028234663852886e38}
            return FP(vals[what], ty)
        sm = re.match(r'^([A-Za-z_][A-Za-z_0-9:]*?)(?:::<.*>)?\s*\{\{\s*(.*?)\s*\}\}$', t)
        if sm:
            # constant struct literal whose fields are zero-sized fn items: `SwapEdits::<..> {{ can_swap: can_swap }}`
            names, vals = [], []
            for part in sm.group(2).split(','):
                if ':' not in part:
                    raise Unsupported('const struct literal ' + t[:80])
                k, v = part.split(':', 1)
                v = v.strip()
                if not re.fullmatch(r'[A-Za-z_][A-Za-z_0-9:]*', v):
                    raise Unsupported('const struct literal ' + t[:80])
                names.append(k.strip())
                vals.append(FnRef(v))
            return Struct(sm.group(1).split('::')[-1], vals, names)
        if t.startswith('ZeroSized: '):
            ty = t[len('ZeroSized: '):].strip()
            if ty.startswith('{closure@'):
                fn = self.prog.closure_by_type.get(ty)
                if fn is None:
                    raise Unsupported('closure body not found ' + ty)
                return Closure(fn, [], ty)
            mm = re.search(r'\{([^{}]*(?:\{closure#\d+\}[^{}]*)*)\}$', ty)
            if mm:
                return FnRef(mm.group(1))
            return None
        if 'promoted[' in t:
            key = re.sub(r'::<[^>]*>', '', strip_generics(t))
            fn = self.prog.functions.get(t) or self.prog.functions.get(key)
            if fn is None:
                # printed names of promoteds use the body name; match by suffix
                m = re.search(r'([A-Za-z_0-9]+(?:::\{closure#\d+\})*)::promoted\[(\d+)\]$', key)
                if m:
                    suf = '%s::promoted[%s]' % (m.group(1), m.group(2))
                    c = [f for n, f in self.prog.functions.items() if n.endswith(suf)]
                    # disambiguate with the second-to-last path segment if needed
                    if len(c) > 1:
                        segs = key.split('::')
                        c2 = [f for f in c if all(s in f.name for s in segs[-3:-1] if not s.startswith('{') and s != m.group(1))]
                        if c2:
                            c = c2
                    if len(c) >= 1:
                        fn = c[0]
            if fn is None:
                raise Unsupported('promoted not found: ' + t)
            return self.call_fn(fn, [])
        if t.startswith('{alloc'):
            am = re.match(r'^\{(alloc\d+): ', t)
            sname = self.prog.static_allocs.get(am.group(1)) if am else None
            if sname:
                key = ('static', sname)
                cell = self.const_cache.get(key)
                if cell is None:
                    fn = self.prog.functions.get(sname)
                    if fn is None:
                        c = [f for n, f in self.prog.functions.items() if n.endswith('::' + sname) and f.kind in ('static', 'constval')]
                        fn = c[0] if len(c) == 1 else None
                    if fn is None:
                        raise Unsupported('static not found: ' + sname)
                    val = self.eval_const(fn.value) if fn.kind == 'constval' else self.call_fn(fn, [])
                    cell = [val]
                    self.const_cache[key] = cell
                return Ref(cell, 0)
            raise Unsupported('allocation constant ' + t[:60])
        if t.startswith('{transmute'):
            raise Unsupported('allocation constant ' + t[:60])
        st = strip_generics(t)
        if st.endswith('PhantomData') or 'PhantomData' in st:
            return None
        if st.endswith('RangeFull'):
            return Struct('RangeFull', [], [])
        # crate consts / statics
        ck = parse_callee(t)
        if ck.kind == 'path':
            fn = self.res.resolve_path(ck)
            if fn is not None and fn.kind == 'constval':
                return self.eval_const(fn.value)
            if fn is not None and fn.kind in ('const', 'static'):
                return self.call_fn(fn, [])
            # unit struct / unit enum variant written as a const
            segs = ck.segs
            if len(segs) >= 2:
                vs = self.enum_variants_of(segs[-2], t)
                if vs and segs[-1] in vs:
                    kind = self.res.variant_kind.get((segs[-2], segs[-1]), 'unit')
                    if segs[-2] == 'Option' and segs[-1] == 'Some' or segs[-2] == 'Result' or kind == 'tuple':
                        return CtorRef(segs[-2], segs[-1], vs.index(segs[-1]))
                    return Enum(segs[-2], segs[-1], vs.index(segs[-1]), [])
        return FnRef(t)

    def enum_variants_of(self, ename, path=''):
        vs = STD_ENUMS.get(ename)
        if vs:
            return vs
        return self.res.enum_variants(strip_generics(path).rsplit('::', 1)[0] if path else ename) or \
            self.res.enum_variants(ename)

    def eval_rvalue(self, fr, rv):
        k = rv.kind
        a = rv.a
        if k == 'use':
            return self.eval_operand(fr, a[0])
        if k == 'ref':
            place = a[1]
            if not place.proj:
                return Ref(fr.locals, place.local)
            cont, key = self.loc(fr, place)
            if cont is FAT:
                return key
            return Ref(cont, key)
        if k == 'binop':
            return self.binop(a[0], self.eval_operand(fr, a[1]), self.eval_operand(fr, a[2]))
        if k == 'unop':
            return self.unop(a[0], self.eval_operand(fr, a[1]))
        if k == 'discriminant':
            v = self.read_place(fr, a[0])
            if isinstance(v, Enum):
                return Int(v.idx, 'isize')
            raise Unsupported('discriminant of %r' % (v,))
        if k == 'cast':
            return self.cast(self.eval_operand(fr, a[0]), a[1], a[2])
        if k == 'tuple':
            return Tup([self.eval_operand(fr, o) for o in a[0]])
        if k == 'array':
            return Arr([self.eval_operand(fr, o) for o in a[0]])
        if k == 'repeat':
            v = self.eval_operand(fr, a[0])
            n = self.array_len(a[1])
            return Arr([deep_copy(v) for _ in range(n)])
        if k == 'adt':
            return self.make_adt(fr, a[0], a[1], a[2])
        if k == 'closure':
            fn = self.prog.closure_by_type.get(a[0])
            if fn is None:
                raise Unsupported('closure body not found ' + a[0])
            return Closure(fn, [self.eval_operand(fr, o) for _, o in a[1]], a[0])
        if k == 'len':
            v = self.read_place(fr, a[0])
            items, lo, hi = self.seq_view(v)
            return Int(hi - lo, 'usize')
        if k == 'shallowbox':
            raise Unsupported('ShallowInitBox')
        raise Unsupported('rvalue ' + k)

    def array_len(self, s):
        s = s.strip()
        m = re.match(r'^(?:const )?(\d+)(?:_usize)?$', s)
        if m:
            return int(m.group(1))
        raise Unsupported('array length ' + s)

    def make_adt(self, fr, path, fields, braces):
        sp = strip_generics(path)
        segs = [s for s in sp.split('::') if s]
        vals = [self.eval_operand(fr, o) for _, o in fields]
        names = [n for n, _ in fields] if braces else None
        if len(segs) >= 2:
            vs = self.enum_variants_of(segs[-2], sp)
            if vs and segs[-1] in vs:
                idx = vs.index(segs[-1])
                if segs[-2] == 'Ordering':
                    idx = ORDERING[segs[-1]]
                return Enum(segs[-2], segs[-1], idx, vals)
        return Struct(segs[-1], vals, names)

    # ------------------------------------------------------------ arithmetic
    def bnot(self, c):
        if isinstance(c, bool):
            return not c
        return z3.Not(c)

    def unop(self, op, v):
        if op == 'Not':
            if isinstance(v, bool):
                return not v
            if isinstance(v, z3.BoolRef):
                return z3.Not(v)
            if isinstance(v, Int):
                if isinstance(v.v, int):
                    return mkint(~v.v, v.ty)
                return Int(~v.v, v.ty)
        if op == 'Neg':
            if isinstance(v, Int):
                if isinstance(v.v, int):
                    return mkint(-v.v, v.ty)
                return Int(-v.v, v.ty)
            if isinstance(v, FP):
                if isinstance(v.v, float):
                    return FP(-v.v, v.ty)
                return FP(z3.fpNeg(v.v), v.ty)
        if op == 'PtrMetadata':
            if isinstance(v, SliceRef):
                return Int(v.hi - v.lo, 'usize')
            if isinstance(v, StrRef):
                return Int(v.hi - v.lo, 'usize')
            if isinstance(v, Ref):
                t = v.get()
                if isinstance(t, Arr):
                    return Int(len(t.fields), 'usize')
                return None
        raise Unsupported('unop %s on %r' % (op, v))

    def binop(self, op, x, y):
        if isinstance(x, Int) and isinstance(y, Int):
            return self.int_binop(op, x, y)
        if isinstance(x, (bool, z3.BoolRef)) and isinstance(y, (bool, z3.BoolRef)):
            return self.bool_binop(op, x, y)
        if isinstance(x, FP) and isinstance(y, FP):
            return self.fp_binop(op, x, y)
        if x is None and y is None and op in ('Eq', 'Le', 'Ge'):
            return True
        if x is None and y is None and op in ('Ne', 'Lt', 'Gt'):
            return False
        raise Unsupported('binop %s on %r, %r' % (op, x, y))

    def bool_binop(self, op, x, y):
        cx = isinstance(x, bool)
        cy = isinstance(y, bool)
        if cx and cy:
            return {'Eq': x == y, 'Ne': x != y, 'BitAnd': x and y, 'BitOr': x or y, 'BitXor': x != y,
                    'Lt': (not x) and y, 'Le': (not x) or y, 'Gt': x and not y, 'Ge': x or not y}[op]
        zx = z3.BoolVal(x) if cx else x
        zy = z3.BoolVal(y) if cy else y
        if op == 'Eq':
            return zx == zy
        if op == 'Ne':
            return zx != zy
        if op == 'BitAnd':
            return z3.And(zx, zy)
        if op == 'BitOr':
            return z3.Or(zx, zy)
        if op == 'BitXor':
            return z3.Xor(zx, zy)
        if op == 'Lt':
            return z3.And(z3.Not(zx), zy)
        if op == 'Le':
            return z3.Or(z3.Not(zx), zy)
        if op == 'Gt':
            return z3.And(zx, z3.Not(zy))
        if op == 'Ge':
            return z3.Or(zx, z3.Not(zy))
        raise Unsupported('bool binop ' + op)

    def int_binop(self, op, x, y):
        ty = x.ty
        bits = INT_BITS[ty]
        signed = ty in SIGNED
        if isinstance(x.v, int) and isinstance(y.v, int):
            a, b = x.v, y.v
            if op in ('Add', 'AddUnchecked'):
                return mkint(a + b, ty)
            if op in ('Sub', 'SubUnchecked'):
                return mkint(a - b, ty)
            if op in ('Mul', 'MulUnchecked'):
                return mkint(a * b, ty)
            if op in ('AddWithOverflow', 'SubWithOverflow', 'MulWithOverflow'):
                r = a + b if op[0] == 'A' else a - b if op[0] == 'S' else a * b
                w = mkint(r, ty)
                return Tup([w, w.v != r])
            if op == 'Div':
                if b == 0:
                    raise RustPanic('division by zero')
                q = abs(a) // abs(b)
                if (a < 0) != (b < 0):
                    q = -q
                return mkint(q, ty)
            if op == 'Rem':
                if b == 0:
                    raise RustPanic('remainder by zero')
                r = abs(a) % abs(b)
                if a < 0:
                    r = -r
                return mkint(r, ty)
            if op == 'Eq':
                return a == b
            if op == 'Ne':
                return a != b
            if op == 'Lt':
                return a < b
            if op == 'Le':
                return a <= b
            if op == 'Gt':
                return a > b
            if op == 'Ge':
                return a >= b
            if op == 'BitAnd':
                return mkint(a & b, ty)
            if op == 'BitOr':
                return mkint(a | b, ty)
            if op == 'BitXor':
                return mkint(a ^ b, ty)
            if op in ('Shl', 'ShlUnchecked'):
                return mkint(a << (b % bits), ty)
            if op in ('Shr', 'ShrUnchecked'):
                return mkint(a >> (b % bits), ty)
            if op == 'Cmp':
                return Ordering('Less' if a < b else 'Equal' if a == b else 'Greater')
            raise Unsupported('int binop ' + op)
        a = x.z()
        if op in ('Shl', 'Shr', 'ShlUnchecked', 'ShrUnchecked'):
            b = y.z()
            yb = INT_BITS[y.ty]
            if yb < bits:
                b = z3.ZeroExt(bits - yb, b)
            elif yb > bits:
                b = z3.Extract(bits - 1, 0, b)
            b = b & (bits - 1)
            if op.startswith('Shl'):
                return Int(a << b, ty)
            return Int((a >> b) if signed else z3.LShR(a, b), ty)
        b = y.z()
        if op in ('Add', 'AddUnchecked'):
            return Int(a + b, ty)
        if op in ('Sub', 'SubUnchecked'):
            return Int(a - b, ty)
        if op in ('Mul', 'MulUnchecked'):
            return Int(a * b, ty)
        if op == 'AddWithOverflow':
            if signed:
                ov = z3.Not(z3.And(z3.BVAddNoOverflow(a, b, True), z3.BVAddNoUnderflow(a, b)))
            else:
                ov = z3.Not(z3.BVAddNoOverflow(a, b, False))
            return Tup([Int(a + b, ty), ov])
        if op == 'SubWithOverflow':
            if signed:
                ov = z3.Not(z3.And(z3.BVSubNoOverflow(a, b), z3.BVSubNoUnderflow(a, b, True)))
            else:
                ov = z3.ULT(a, b)
            return Tup([Int(a - b, ty), ov])
        if op == 'MulWithOverflow':
            if signed:
                ov = z3.Not(z3.And(z3.BVMulNoOverflow(a, b, True), z3.BVMulNoUnderflow(a, b)))
            else:
                ov = z3.Not(z3.BVMulNoOverflow(a, b, False))
            return Tup([Int(a * b, ty), ov])
        if op == 'Div':
            return Int((a / b) if signed else z3.UDiv(a, b), ty)
        if op == 'Rem':
            return Int(z3.SRem(a, b) if signed else z3.URem(a, b), ty)
        if op == 'Eq':
            return a == b
        if op == 'Ne':
            return a != b
        if op == 'Lt':
            return (a < b) if signed else z3.ULT(a, b)
        if op == 'Le':
            return (a <= b) if signed else z3.ULE(a, b)
        if op == 'Gt':
            return (a > b) if signed else z3.UGT(a, b)
        if op == 'Ge':
            return (a >= b) if signed else z3.UGE(a, b)
        if op == 'BitAnd':
            return Int(a & b, ty)
        if op == 'BitOr':
            return Int(a | b, ty)
        if op == 'BitXor':
            return Int(a ^ b, ty)
        if op == 'Cmp':
            lt = (a < b) if signed else z3.ULT(a, b)
            if self.ctx.branch(lt):
                return Ordering('Less')
            if self.ctx.branch(a == b):
                return Ordering('Equal')
            return Ordering('Greater')
        raise Unsupported('int binop ' + op)

    def fp_binop(self, op, x, y):
        ty = x.ty
        if isinstance(x.v, float) and isinstance(y.v, float):
            a, b = x.v, y.v
            if op in ('Add', 'Sub', 'Mul', 'Div', 'Rem'):
                try:
                    if op == 'Add':
                        r = a + b
                    elif op == 'Sub':
                        r = a - b
                    elif op == 'Mul':
                        r = a * b
                    elif op == 'Div':
                        if b == 0.0:
                            if a == 0.0 or a != a:
                                r = math.nan
                            else:
                                r = math.copysign(math.inf, a) * math.copysign(1.0, b)
                        else:
                            r = a / b
                    else:
                        r = math.fmod(a, b) if b != 0.0 and not math.isinf(a) else math.nan
                except OverflowError:
                    r = math.inf
                if ty == 'f32':
                    r = f32_round(r)
                return FP(r, ty)
            return {'Eq': a == b, 'Ne': a != b, 'Lt': a < b, 'Le': a <= b, 'Gt': a > b, 'Ge': a >= b}[op]
        a, b = x.z(), y.z()
        rm = z3.RNE()
        if op == 'Add':
            return FP(z3.fpAdd(rm, a, b), ty)
        if op == 'Sub':
            return FP(z3.fpSub(rm, a, b), ty)
        if op == 'Mul':
            return FP(z3.fpMul(rm, a, b), ty)
        if op == 'Div':
            return FP(z3.fpDiv(rm, a, b), ty)
        if op == 'Rem':
            raise Unsupported('symbolic float remainder')
        if op == 'Eq':
            return z3.fpEQ(a, b)
        if op == 'Ne':
            return z3.Not(z3.fpEQ(a, b))
        if op == 'Lt':
            return z3.fpLT(a, b)
        if op == 'Le':
            return z3.fpLEQ(a, b)
        if op == 'Gt':
            return z3.fpGT(a, b)
        if op == 'Ge':
            return z3.fpGEQ(a, b)
        raise Unsupported('fp binop ' + op)

    def cast(self, v, ty, kind):
        ty = ty.strip()
        if kind == 'IntToInt':
            if isinstance(v, bool):
                v = Int(1 if v else 0, 'u8')
            elif isinstance(v, z3.BoolRef):
                v = Int(z3.If(v, z3.BitVecVal(1, 8), z3.BitVecVal(0, 8)), 'u8')
            if isinstance(v, Enum) and not v.fields:
                v = Int(v.idx, 'isize')
            if not isinstance(v, Int):
                raise Unsupported('IntToInt of %r' % (v,))
            if ty not in INT_BITS:
                raise Unsupported('IntToInt to ' + ty)
            return self.int_cast(v, ty)
        if kind == 'IntToFloat':
            if isinstance(v.v, int):
                r = float(v.v)
                if ty == 'f32':
                    r = f32_round(r)
                return FP(r, ty)
            srt = z3.Float64() if ty == 'f64' else z3.Float32()
            if v.signed:
                return FP(z3.fpSignedToFP(z3.RNE(), v.v, srt), ty)
            return FP(z3.fpUnsignedToFP(z3.RNE(), v.v, srt), ty)
        if kind == 'FloatToInt':
            bits = INT_BITS[ty]
            signed = ty in SIGNED
            lo = -(1 << (bits - 1)) if signed else 0
            hi = (1 << (bits - 1)) - 1 if signed else (1 << bits) - 1
            if isinstance(v.v, float):
                f = v.v
                if f != f:
                    return Int(0, ty)
                if f >= hi:
                    return Int(hi, ty)
                if f <= lo:
                    return Int(lo, ty)
                return Int(int(f), ty)
            a = v.v
            srt = a.sort()
            # float -> integer conversions of symbolic values: z3 rarely answers within its time limit, cvc5 does; the rest
            # of this path is decided by cvc5 directly instead of waiting for z3 to give up on every query
            if getattr(self, 'ctx', None) is not None:
                self.ctx.use_cvc5 = True
            conv = z3.fpToSBV(z3.RTZ(), a, z3.BitVecSort(bits)) if signed else z3.fpToUBV(z3.RTZ(), a, z3.BitVecSort(bits))
            fhi = z3.fpToFP(z3.RNE(), z3.RealVal(hi), srt)
            flo = z3.fpToFP(z3.RNE(), z3.RealVal(lo), srt)
            r = z3.If(z3.fpIsNaN(a), z3.BitVecVal(0, bits),
                      z3.If(z3.fpGEQ(a, fhi), z3.BitVecVal(hi, bits),
                            z3.If(z3.fpLEQ(a, flo), z3.BitVecVal(lo, bits), conv)))
            return Int(r, ty)
        if kind == 'FloatToFloat':
            if isinstance(v.v, float):
                return FP(f32_round(v.v) if ty == 'f32' else v.v, ty)
            return FP(z3.fpFPToFP(z3.RNE(), v.v, z3.Float64() if ty == 'f64' else z3.Float32()), ty)
        if kind.startswith('PointerCoercion(Unsize'):
            if isinstance(v, Ref):
                t = v.get()
                if isinstance(t, Arr):
                    return SliceRef(t.fields, 0, len(t.fields))
            return v
        if kind.startswith('PointerCoercion(') or kind in ('PtrToPtr', 'FnPtrToPtr'):
            return v
        if kind == 'Transmute':
            if isinstance(v, Int) and ty in INT_BITS and INT_BITS[ty] == v.bits:
                return Int(v.v, ty)
            if isinstance(v, (BoxObj, Ref)) and (ty.startswith('*const') or ty.startswith('*mut')
                                                 or 'NonNull' in ty or ty.startswith('&')):
                return v
            raise Unsupported('transmute to ' + ty)
        raise Unsupported('cast kind ' + kind)

    def int_cast(self, v, ty):
        if isinstance(v.v, int):
            return mkint(v.v, ty)
        sb = v.bits
        db = INT_BITS[ty]
        if db == sb:
            return Int(v.v, ty)
        if db < sb:
            return Int(z3.Extract(db - 1, 0, v.v), ty)
        if v.signed:
            return Int(z3.SignExt(db - sb, v.v), ty)
        return Int(z3.ZeroExt(db - sb, v.v), ty)

    # ------------------------------------------------------------ generic value operations used by models
    def eq(self, a, b):
        """Structural equality -> python bool or z3 Bool (derived PartialEq semantics)."""
        a = self.peel(a)
        b = self.peel(b)
        if isinstance(a, Int) and isinstance(b, Int):
            if isinstance(a.v, int) and isinstance(b.v, int):
                return a.v == b.v
            if a.v is b.v:
                return True
            if not isinstance(a.v, int) and not isinstance(b.v, int) and a.v.get_id() == b.v.get_id():
                return True
            return a.z() == b.z()
        if isinstance(a, (bool, z3.BoolRef)) and isinstance(b, (bool, z3.BoolRef)):
            return self.bool_binop('Eq', a, b)
        if isinstance(a, FP) and isinstance(b, FP):
            return self.fp_binop('Eq', a, b)
        if a is None and b is None:
            return True
        if isinstance(a, StringObj):
            a = a.as_str()
        if isinstance(b, StringObj):
            b = b.as_str()
        if isinstance(a, StrRef) and isinstance(b, StrRef):
            if a.byte_len() != b.byte_len():
                return False
            ca, cb = a.chars(), b.chars()
            if len(ca) != len(cb):
                return False
            if a.widths() != b.widths():
                return False
            return self.conj([self.eq(x, y) for x, y in zip(ca, cb)])
        if isinstance(a, VecObj):
            a = a.as_slice()
        if isinstance(b, VecObj):
            b = b.as_slice()
        if isinstance(a, Arr):
            a = SliceRef(a.fields, 0, len(a.fields))
        if isinstance(b, Arr):
            b = SliceRef(b.fields, 0, len(b.fields))
        if isinstance(a, SliceRef) and isinstance(b, SliceRef):
            if len(a) != len(b):
                return False
            return self.conj([self.eq(x, y) for x, y in zip(a.items(), b.items())])
        if isinstance(a, Tup) and isinstance(b, Tup):
            return self.conj([self.eq(x, y) for x, y in zip(a.fields, b.fields)])
        if isinstance(a, Enum) and isinstance(b, Enum):
            if a.ty == 'Cow' and b.ty == 'Cow':
                return self.eq(a.fields[0], b.fields[0])
            if a.variant != b.variant:
                return False
            return self.conj([self.eq(x, y) for x, y in zip(a.fields, b.fields)])
        if isinstance(a, Struct) and isinstance(b, Struct) and a.ty == b.ty:
            impls = [g for (sh, sf, g) in self.res.trait_impls('PartialEq', 'eq') if sh == a.ty]
            if impls and not self.is_derived(impls[0]):
                return self.call_fn(impls[0], [ref_to(a), ref_to(b)])
            return self.conj([self.eq(x, y) for x, y in zip(a.fields, b.fields)])
        if isinstance(a, (BoxObj, ArcObj)) and isinstance(b, (BoxObj, ArcObj)):
            return self.eq(a.fields[0], b.fields[0])
        raise Unsupported('eq of %s and %s' % (type(a).__name__, type(b).__name__))

    def is_derived(self, fn):
        m = re.search(r'<impl at [^>]*>', fn.name)
        return bool(m) and m.group(0) in getattr(self.res, 'derived', ())

    def conj(self, bs):
        out = []
        for b in bs:
            if b is False:
                return False
            if b is True:
                continue
            out.append(b)
        if not out:
            return True
        if len(out) == 1:
            return out[0]
        return z3.And(*out)

    def disj(self, bs):
        out = []
        for b in bs:
            if b is True:
                return True
            if b is False:
                continue
            out.append(b)
        if not out:
            return False
        if len(out) == 1:
            return out[0]
        return z3.Or(*out)

    def lt(self, a, b):
        """a < b as bool/z3 for scalar values."""
        if isinstance(a, Int):
            return self.int_binop('Lt', a, b)
        if isinstance(a, FP):
            return self.fp_binop('Lt', a, b)
        if isinstance(a, (bool, z3.BoolRef)):
            return self.bool_binop('Lt', a, b)
        raise Unsupported('lt of %r' % (a,))

    def cmp(self, a, b):
        """Total order (derived Ord semantics): returns -1/0/1, forking on symbolic comparisons."""
        ctx = self.ctx
        a = self.peel(a)
        b = self.peel(b)
        if isinstance(a, Struct) and a.ty == 'Reverse':
            return -self.cmp(a.fields[0], b.fields[0])
        if isinstance(a, (Int, bool, z3.BoolRef)):
            if ctx.branch(self.lt(a, b)):
                return -1
            if ctx.branch(self.eq(a, b)):
                return 0
            return 1
        if isinstance(a, FP):
            raise Unsupported('Ord on float')
        if a is None:
            return 0
        if isinstance(a, StringObj):
            a = a.as_str()
        if isinstance(b, StringObj):
            b = b.as_str()
        if isinstance(a, StrRef):
            # byte-wise lexicographic == code point lexicographic for UTF-8
            ca, cb = a.chars(), b.chars()
            for x, y in zip(ca, cb):
                c = self.cmp(x, y)
                if c:
                    return c
            return (len(ca) > len(cb)) - (len(ca) < len(cb))
        if isinstance(a, VecObj):
            a = a.as_slice()
        if isinstance(b, VecObj):
            b = b.as_slice()
        if isinstance(a, Arr):
            a = SliceRef(a.fields, 0, len(a.fields))
        if isinstance(b, Arr):
            b = SliceRef(b.fields, 0, len(b.fields))
        if isinstance(a, SliceRef):
            ia, ib = a.items(), b.items()
            for x, y in zip(ia, ib):
                c = self.cmp(x, y)
                if c:
                    return c
            return (len(ia) > len(ib)) - (len(ia) < len(ib))
        if isinstance(a, Tup):
            for x, y in zip(a.fields, b.fields):
                c = self.cmp(x, y)
                if c:
                    return c
            return 0
        if isinstance(a, Enum):
            if a.idx != b.idx:
                return -1 if a.idx < b.idx else 1
            for x, y in zip(a.fields, b.fields):
                c = self.cmp(x, y)
                if c:
                    return c
            return 0
        if isinstance(a, Struct):
            impls = [g for (sh, sf, g) in self.res.trait_impls('Ord', 'cmp') if sh == a.ty]
            if impls and not self.is_derived(impls[0]):
                r = self.call_fn(impls[0], [ref_to(a), ref_to(b)])
                return r.idx
            for x, y in zip(a.fields, b.fields):
                c = self.cmp(x, y)
                if c:
                    return c
            return 0
        raise Unsupported('cmp of %s' % type(a).__name__)

    def clone(self, v):
        """Deep clone (Clone::clone semantics for owned data)."""
        if isinstance(v, (Int, FP, bool, z3.ExprRef, Ref, SliceRef, StrRef, FnRef, PyFn, Opaque, CtorRef)) or v is None:
            return v
        if isinstance(v, StringObj):
            return StringObj(StrBuf(v.buf.chars, v.buf.widths))
        if isinstance(v, VecObj):
            return VecObj([self.clone(x) for x in v.items])
        if isinstance(v, Tup):
            return Tup([self.clone(f) for f in v.fields])
        if isinstance(v, Arr):
            return Arr([self.clone(f) for f in v.fields])
        if isinstance(v, Struct):
            impls = [g for (sh, sf, g) in self.res.trait_impls('Clone', 'clone') if sh == v.ty]
            if impls and not self.is_derived(impls[0]):
                return self.call_fn(impls[0], [ref_to(v)])
            return Struct(v.ty, [self.clone(f) for f in v.fields], v.names)
        if isinstance(v, Enum):
            return Enum(v.ty, v.variant, v.idx, [self.clone(f) for f in v.fields])
        if isinstance(v, Closure):
            return Closure(v.fn, [self.clone(f) for f in v.fields], v.cty)
        if isinstance(v, BoxObj):
            return BoxObj(self.clone(v.fields[0]))
        if isinstance(v, ArcObj):
            return v
        if isinstance(v, MapObj):
            return MapObj(v.kind, [[self.clone(k), self.clone(x)] for k, x in v.entries])
        if isinstance(v, HeapObj):
            return HeapObj([self.clone(x) for x in v.items])
        if type(v).__name__ in ('SenderObj', 'FileObj', 'RngObj'):
            return v
        if isinstance(v, Iter) and type(v).__name__ != 'ReceiverObj':
            import copy
            n = copy.copy(v)
            for k, x in list(vars(n).items()):
                if isinstance(x, list):
                    setattr(n, k, list(x))
                elif isinstance(x, Iter):
                    setattr(n, k, self.clone(x))
            return n
        raise Unsupported('clone of ' + type(v).__name__)

    # iterator protocol --------------------------------------------------
    def iter_next(self, it):
        """Advance any iterator value: python Iter model, or a crate struct implementing Iterator."""
        it0 = it
        it = self.peel(it)
        if isinstance(it, (BoxObj,)):
            return self.iter_next(it.fields[0])
        if isinstance(it, Iter):
            self.ctx.tick()
            return it.nxt(self.ctx)
        if isinstance(it, Struct):
            if it.ty in ('Range', 'RangeInclusive'):
                from models_core import range_next
                return range_next(self.ctx, it)
            impls = [g for (sh, sf, g) in self.res.trait_impls('Iterator', 'next') if sh == it.ty]
            if impls:
                r = self.call_fn(impls[0], [it0 if isinstance(it0, Ref) else ref_to(it)])
                if r.variant == 'None':
                    return STOP
                return r.fields[0]
        raise Unsupported('iter_next on %r' % (type(it).__name__,))
