"""Models: Vec, slices, String/str, HashMap/HashSet/BTreeMap, BinaryHeap."""
import re
import z3
from values import *
from interp import model, MODELS
from resolve import type_head
from models_core import (as_str, as_slice, as_vec, substr, new_string_from, string_push_str, to_usize,
                         char_is_whitespace, str_bytes, decode_utf8, char_utf8_bytes, ListIter, turbofish,
                         checked_arith, val_max, val_min, is_ws_py)


# =============================================================== Vec

@model('Vec::new')
def _vec_new(ctx, args, ck):
    return VecObj()


@model('Vec::with_capacity')
def _vec_with_capacity(ctx, args, ck):
    n = args[0]
    # capacity overflow panics when n * size_of::<T>() > isize::MAX; size unknown -> check n itself
    lim = Int((1 << 63) - 1, 'usize')
    if ctx.branch(ctx.m.int_binop('Gt', n, lim)):
        raise RustPanic('capacity overflow', 'capacity')
    return VecObj()


@model('Vec::len')
def _vec_len(ctx, args, ck):
    return Int(len(as_vec(ctx, args[0]).items), 'usize')


@model('Vec::is_empty')
def _vec_is_empty(ctx, args, ck):
    return len(as_vec(ctx, args[0]).items) == 0


@model('Vec::push')
def _vec_push(ctx, args, ck):
    as_vec(ctx, args[0]).items.append(args[1])
    return None


@model('Vec::pop')
def _vec_pop(ctx, args, ck):
    v = as_vec(ctx, args[0])
    if v.items:
        return Some(v.items.pop())
    return NONE()


@model('Vec::clear')
def _vec_clear(ctx, args, ck):
    del as_vec(ctx, args[0]).items[:]
    return None


@model('Vec::truncate')
def _vec_truncate(ctx, args, ck):
    v = as_vec(ctx, args[0])
    n = ctx.concretize(args[1], 0, len(v.items))
    if n is not None:
        del v.items[n:]
    return None


@model('Vec::split_off')
def _vec_split_off(ctx, args, ck):
    v = as_vec(ctx, args[0])
    n = ctx.concretize(args[1], 0, len(v.items) + 1)
    if n is None:
        raise RustPanic('`at` split index out of bounds', 'index')
    tail = VecObj(list(v.items[n:]))
    del v.items[n:]
    return tail


@model('Vec::insert')
def _vec_insert(ctx, args, ck):
    v = as_vec(ctx, args[0])
    i = ctx.concretize(args[1], 0, len(v.items) + 1)
    if i is None:
        raise RustPanic('insertion index out of bounds', 'index')
    v.items.insert(i, args[2])
    return None


@model('Vec::remove')
def _vec_remove(ctx, args, ck):
    v = as_vec(ctx, args[0])
    i = ctx.concretize(args[1], 0, len(v.items))
    if i is None:
        raise RustPanic('removal index out of bounds', 'index')
    return v.items.pop(i)


@model('Vec::swap_remove')
def _vec_swap_remove(ctx, args, ck):
    v = as_vec(ctx, args[0])
    i = ctx.concretize(args[1], 0, len(v.items))
    if i is None:
        raise RustPanic('swap_remove index out of bounds', 'index')
    x = v.items[i]
    last = v.items.pop()
    if i < len(v.items):
        v.items[i] = last
    return x


@model('Vec::extend_from_slice')
def _vec_extend_from_slice(ctx, args, ck):
    v = as_vec(ctx, args[0])
    v.items.extend(ctx.m.clone(x) for x in as_slice(ctx, args[1]).items())
    return None


@model('Vec::append')
def _vec_append(ctx, args, ck):
    v = as_vec(ctx, args[0])
    o = as_vec(ctx, args[1])
    v.items.extend(o.items)
    del o.items[:]
    return None


@model('Vec::as_slice', 'Vec::as_mut_slice')
def _vec_as_slice(ctx, args, ck):
    return as_vec(ctx, args[0]).as_slice()


@model('Vec::reserve', 'Vec::shrink_to_fit', 'Vec::reserve_exact')
def _vec_reserve(ctx, args, ck):
    return None


@model('Vec::capacity')
def _vec_capacity(ctx, args, ck):
    return Int(len(as_vec(ctx, args[0]).items), 'usize')


@model('Vec::drain')
def _vec_drain(ctx, args, ck):
    v = as_vec(ctx, args[0])
    a, b = range_bounds(ctx, args[1], len(v.items))
    out = v.items[a:b]
    del v.items[a:b]
    return ListIter(out)


@model('Vec::splice')
def _vec_splice(ctx, args, ck):
    from models_iter import drain_iter, into_iter_value
    v = as_vec(ctx, args[0])
    a, b = range_bounds(ctx, args[1], len(v.items))
    new = drain_iter(ctx, into_iter_value(ctx, args[2]))
    out = v.items[a:b]
    v.items[a:b] = new
    return ListIter(out)


@model('Vec::retain')
def _vec_retain(ctx, args, ck):
    v = as_vec(ctx, args[0])
    keep = []
    for i in range(len(v.items)):
        if ctx.branch(ctx.m.call_value(args[1], [Ref(v.items, i)])):
            keep.append(v.items[i])
    v.items[:] = keep
    return None


@model('Vec::dedup')
def _vec_dedup(ctx, args, ck):
    v = as_vec(ctx, args[0])
    out = []
    for x in v.items:
        if out and ctx.branch(ctx.m.eq(out[-1], x)):
            continue
        out.append(x)
    v.items[:] = out
    return None


@model('Vec::resize')
def _vec_resize(ctx, args, ck):
    v = as_vec(ctx, args[0])
    n = to_usize(ctx, args[1])
    while len(v.items) > n:
        v.items.pop()
    while len(v.items) < n:
        v.items.append(ctx.m.clone(args[2]))
    return None


@model('Vec::into_boxed_slice')
def _vec_into_boxed(ctx, args, ck):
    return BoxObj(args[0].as_slice())


@model('Vec::first', 'Vec::last')
def _vec_first(ctx, args, ck):
    return MODELS['[]::' + ck.name](ctx, args, ck)


@model('vec::from_elem')
def _from_elem(ctx, args, ck):
    n = to_usize(ctx, args[1], what='vec![x; n] length')
    return VecObj([ctx.m.clone(args[0]) for _ in range(n)])


@model('slice::into_vec', '[]::into_vec')
def _into_vec(ctx, args, ck):
    b = args[0]
    v = ctx.m.peel(b)
    if isinstance(v, BoxObj):
        v = v.fields[0]
    if isinstance(v, Arr):
        return VecObj(list(v.fields))
    if isinstance(v, SliceRef):
        return VecObj(v.items())
    raise Unsupported('into_vec of ' + type(v).__name__)


@model('[]::to_vec')
def _to_vec(ctx, args, ck):
    return VecObj([ctx.m.clone(x) for x in as_slice(ctx, args[0]).items()])


def range_bounds(ctx, r, n):
    """Resolve a range argument (Range, RangeFrom, RangeTo, RangeFull, RangeInclusive, RangeToInclusive) to
    concrete [a, b) with the std panics."""
    r = ctx.m.peel(r)
    ty = r.ty if isinstance(r, Struct) else None
    if ty == 'Range':
        s, e = r.fields
    elif ty == 'RangeFrom':
        s, e = r.fields[0], Int(n, 'usize')
    elif ty == 'RangeTo':
        s, e = Int(0, 'usize'), r.fields[0]
    elif ty == 'RangeFull':
        s, e = Int(0, 'usize'), Int(n, 'usize')
    elif ty == 'RangeInclusive':
        s = r.fields[0]
        if ctx.branch(ctx.m.int_binop('Eq', r.fields[1], Int((1 << 64) - 1, 'usize'))):
            raise RustPanic('attempted to index slice up to maximum usize', 'index')
        e = ctx.m.int_binop('Add', r.fields[1], Int(1, 'usize'))
    elif ty == 'RangeToInclusive':
        s = Int(0, 'usize')
        e = checked_arith(ctx, 'Add', r.fields[0], Int(1, 'usize'))
    else:
        raise Unsupported('range of type %r' % (r,))
    if ctx.branch(ctx.m.int_binop('Gt', s, e)):
        raise RustPanic('slice index starts at %r but ends at %r' % (s, e), 'index')
    b = ctx.concretize(e, 0, n + 1)
    if b is None:
        raise RustPanic('range end index out of range for slice of length %d' % n, 'index')
    a = ctx.concretize(s, 0, b + 1)
    if a is None:
        raise RustPanic('range start out of range', 'index')
    return a, b


@model('Index::index', 'IndexMut::index_mut')
def _index(ctx, args, ck):
    base = ctx.m.peel(args[0])
    idx = args[1]
    if isinstance(base, MapObj):
        e = map_find(ctx, base, idx)
        if e is None:
            raise RustPanic('key not found in map', 'index')
        return Ref(e, 1)
    if isinstance(base, (StringObj, StrRef)):
        s = as_str(ctx, base)
        a, b = range_bounds(ctx, idx, s.byte_len())
        r = StrRef(s.buf, s.lo + a, s.lo + b)
        r.char_range()  # char boundary check -> RustPanic
        return r
    sl = as_slice(ctx, base)
    if isinstance(idx, Int) and idx.sym() and ck.name == 'index' and len(sl) > 8:
        r = symbolic_select(ctx, sl, idx)
        if r is not None:
            return r
    if isinstance(idx, Int):
        i = ctx.concretize(idx, 0, len(sl))
        if i is None:
            raise RustPanic('index out of bounds: the len is %d' % len(sl), 'index')
        return Ref(sl.cont, sl.lo + i)
    a, b = range_bounds(ctx, idx, len(sl))
    return SliceRef(sl.cont, sl.lo + a, sl.lo + b)


def feasible_values(ctx, x, limit=72):
    """Enumerate the values a symbolic integer can take on this path (solver models), or None if more than limit."""
    vals = []
    ctx.solver.push()
    try:
        while True:
            r = ctx._check()
            if r != z3.sat:
                break
            v = ctx.solver.model().eval(x.v, model_completion=True).as_long()
            vals.append(v)
            if len(vals) > limit:
                return None
            ctx.solver.add(x.v != z3.BitVecVal(v, x.bits))
    finally:
        ctx.solver.pop()
    return sorted(vals)


def symbolic_select(ctx, sl, idx):
    """Read-only `v[idx]` with a symbolic index whose feasible values are few: returns a reference to an element built as
    if-then-else over the feasible entries (entries must be integers or equally long vectors of integers); forks only
    over out-of-bounds / different shapes."""
    vals = feasible_values(ctx, idx)
    if vals is None or not vals:
        return None
    n = len(sl)
    if any(v >= n for v in vals):
        if ctx.branch(z3.UGE(idx.v, n)):
            raise RustPanic('index out of bounds: the len is %d' % n, 'index')
        vals = [v for v in vals if v < n]
    items = [sl.cont[sl.lo + v] for v in vals]
    if len(vals) == 1:
        return Ref(sl.cont, sl.lo + vals[0])

    def shape_of(it):
        it = ctx.m.peel(it)
        if isinstance(it, Int):
            return ('int', it.ty)
        if isinstance(it, VecObj) and all(isinstance(x, Int) for x in it.items):
            return ('vec', len(it.items), it.items[0].ty if it.items else None)
        return None
    shapes = [shape_of(it) for it in items]
    if any(sh is None for sh in shapes):
        return None
    groups = {}
    for v, it, sh in zip(vals, items, shapes):
        groups.setdefault(sh, []).append((v, ctx.m.peel(it)))
    keys = list(groups)
    chosen = keys[-1]
    for sh in keys[:-1]:
        cond = z3.Or(*[idx.v == z3.BitVecVal(v, idx.bits) for v, _ in groups[sh]])
        if ctx.branch(cond):
            chosen = sh
            break
    grp = groups[chosen]

    def ite(parts):
        t = parts[-1][1].z()
        for v, x in reversed(parts[:-1]):
            t = z3.If(idx.v == z3.BitVecVal(v, idx.bits), x.z(), t)
        return t
    if chosen[0] == 'int':
        return Ref([Int(ite(grp), chosen[1])], 0)
    ln = chosen[1]
    elems = []
    for j in range(ln):
        col = [(v, it.items[j]) for v, it in grp]
        if all(isinstance(x.v, int) and x.v == col[0][1].v for _, x in col):
            elems.append(col[0][1])
        else:
            elems.append(Int(ite(col), chosen[2]))
    return Ref([VecObj(elems)], 0)


# =============================================================== slices

@model('[]::len')
def _slice_len(ctx, args, ck):
    return Int(len(as_slice(ctx, args[0])), 'usize')


@model('[]::is_empty')
def _slice_is_empty(ctx, args, ck):
    return len(as_slice(ctx, args[0])) == 0


@model('[]::first', '[]::first_mut')
def _slice_first(ctx, args, ck):
    s = as_slice(ctx, args[0])
    return Some(Ref(s.cont, s.lo)) if len(s) else NONE()


@model('[]::last', '[]::last_mut')
def _slice_last(ctx, args, ck):
    s = as_slice(ctx, args[0])
    return Some(Ref(s.cont, s.hi - 1)) if len(s) else NONE()


@model('[]::get', '[]::get_mut')
def _slice_get(ctx, args, ck):
    s = as_slice(ctx, args[0])
    idx = args[1]
    if isinstance(idx, Int):
        i = ctx.concretize(idx, 0, len(s))
        return NONE() if i is None else Some(Ref(s.cont, s.lo + i))
    try:
        a, b = range_bounds(ctx, idx, len(s))
    except RustPanic:
        return NONE()
    return Some(SliceRef(s.cont, s.lo + a, s.lo + b))


@model('[]::iter', '[]::iter_mut')
def _slice_iter(ctx, args, ck):
    from models_iter import SliceIter
    s = as_slice(ctx, args[0])
    return SliceIter(s.cont, s.lo, s.hi)


@model('[]::contains')
def _slice_contains(ctx, args, ck):
    s = as_slice(ctx, args[0])
    return ctx.m.disj([ctx.m.eq(x, args[1]) for x in s.items()])


@model('[]::swap')
def _slice_swap(ctx, args, ck):
    s = as_slice(ctx, args[0])
    i = ctx.concretize(args[1], 0, len(s))
    j = ctx.concretize(args[2], 0, len(s))
    if i is None or j is None:
        raise RustPanic('swap index out of bounds', 'index')
    c = s.cont
    c[s.lo + i], c[s.lo + j] = c[s.lo + j], c[s.lo + i]
    return None


@model('[]::reverse')
def _slice_reverse(ctx, args, ck):
    s = as_slice(ctx, args[0])
    s.cont[s.lo:s.hi] = s.cont[s.lo:s.hi][::-1]
    return None


@model('[]::split_at', '[]::split_at_mut')
def _slice_split_at(ctx, args, ck):
    s = as_slice(ctx, args[0])
    k = ctx.concretize(args[1], 0, len(s) + 1)
    if k is None:
        raise RustPanic('mid > len', 'index')
    return Tup([SliceRef(s.cont, s.lo, s.lo + k), SliceRef(s.cont, s.lo + k, s.hi)])


@model('[]::split_first')
def _slice_split_first(ctx, args, ck):
    s = as_slice(ctx, args[0])
    if not len(s):
        return NONE()
    return Some(Tup([Ref(s.cont, s.lo), SliceRef(s.cont, s.lo + 1, s.hi)]))


@model('[]::split_last')
def _slice_split_last(ctx, args, ck):
    s = as_slice(ctx, args[0])
    if not len(s):
        return NONE()
    return Some(Tup([Ref(s.cont, s.hi - 1), SliceRef(s.cont, s.lo, s.hi - 1)]))


@model('[]::windows')
def _slice_windows(ctx, args, ck):
    s = as_slice(ctx, args[0])
    k = to_usize(ctx, args[1])
    if k == 0:
        raise RustPanic('window size must be non-zero')
    return ListIter([SliceRef(s.cont, s.lo + i, s.lo + i + k) for i in range(0, len(s) - k + 1)])


@model('[]::chunks')
def _slice_chunks(ctx, args, ck):
    s = as_slice(ctx, args[0])
    k = to_usize(ctx, args[1])
    if k == 0:
        raise RustPanic('chunk size must be non-zero')
    return ListIter([SliceRef(s.cont, s.lo + i, min(s.hi, s.lo + i + k)) for i in range(0, len(s), k)])


@model('[]::concat')
def _slice_concat(ctx, args, ck):
    s = as_slice(ctx, args[0])
    items = [ctx.m.peel(x) for x in s.items()]
    if items and isinstance(items[0], (StrRef, StringObj)):
        out = StringObj()
        for x in items:
            string_push_str(ctx, out, as_str(ctx, x))
        return out
    out = []
    for x in items:
        out.extend(ctx.m.clone(y) for y in as_slice(ctx, x).items())
    return VecObj(out)


@model('[]::join', 'Join::join')
def _slice_join(ctx, args, ck):
    s = as_slice(ctx, args[0])
    sep = ctx.m.peel(args[1])
    items = [ctx.m.peel(x) for x in s.items()]
    if isinstance(sep, (StrRef, StringObj)):
        out = StringObj()
        for k, x in enumerate(items):
            if k:
                string_push_str(ctx, out, as_str(ctx, sep))
            string_push_str(ctx, out, as_str(ctx, x))
        return out
    raise Unsupported('slice join with non-str separator')


def sort_items(ctx, items, keyf=None, cmpf=None):
    """Stable insertion sort driven by the (forking) comparison."""
    m = ctx.m
    out = []
    keys = []
    for x in items:
        k = keyf(x) if keyf else x
        pos = len(out)
        # insert after the last element <= x (stability)
        while pos > 0:
            if cmpf is not None:
                c = cmpf(keys[pos - 1], k)
            else:
                c = m.cmp(keys[pos - 1], k)
            if c <= 0:
                break
            pos -= 1
        out.insert(pos, x)
        keys.insert(pos, k)
    return out


@model('[]::sort', '[]::sort_unstable')
def _slice_sort(ctx, args, ck):
    s = as_slice(ctx, args[0])
    s.cont[s.lo:s.hi] = sort_items(ctx, s.items())
    return None


@model('[]::sort_by_key', '[]::sort_unstable_by_key', '[]::sort_by_cached_key')
def _slice_sort_by_key(ctx, args, ck):
    s = as_slice(ctx, args[0])
    f = args[1]
    items = s.items()
    s.cont[s.lo:s.hi] = sort_items(ctx, items, keyf=lambda x: ctx.m.call_value(f, [ref_to(x)]))
    return None


@model('[]::sort_by', '[]::sort_unstable_by')
def _slice_sort_by(ctx, args, ck):
    s = as_slice(ctx, args[0])
    f = args[1]
    s.cont[s.lo:s.hi] = sort_items(ctx, s.items(),
                                   cmpf=lambda a, b: ctx.m.call_value(f, [ref_to(a), ref_to(b)]).idx)
    return None


@model('[]::binary_search')
def _slice_binary_search(ctx, args, ck):
    s = as_slice(ctx, args[0])
    items = s.items()
    # contract-level model (sorted input): first index with item >= x
    for i, it in enumerate(items):
        c = ctx.m.cmp(it, args[1])
        if c == 0:
            return Ok(Int(i, 'usize'))
        if c > 0:
            return Err(Int(i, 'usize'))
    return Err(Int(len(items), 'usize'))


@model('[]::starts_with')
def _slice_starts_with(ctx, args, ck):
    s = as_slice(ctx, args[0])
    p = as_slice(ctx, args[1])
    if len(p) > len(s):
        return False
    return ctx.m.conj([ctx.m.eq(a, b) for a, b in zip(s.items(), p.items())])


@model('[]::ends_with')
def _slice_ends_with(ctx, args, ck):
    s = as_slice(ctx, args[0])
    p = as_slice(ctx, args[1])
    if len(p) > len(s):
        return False
    return ctx.m.conj([ctx.m.eq(a, b) for a, b in zip(s.items()[len(s) - len(p):], p.items())])


@model('[]::fill')
def _slice_fill(ctx, args, ck):
    s = as_slice(ctx, args[0])
    for i in range(s.lo, s.hi):
        s.cont[i] = ctx.m.clone(args[1])
    return None


@model('[]::copy_from_slice', '[]::clone_from_slice')
def _slice_copy_from(ctx, args, ck):
    s = as_slice(ctx, args[0])
    o = as_slice(ctx, args[1])
    if len(s) != len(o):
        raise RustPanic('source slice length does not match destination', 'index')
    s.cont[s.lo:s.hi] = [ctx.m.clone(x) for x in o.items()]
    return None


@model('[]::iter().rev')
def _unused(ctx, args, ck):
    raise Unsupported('unused')


# =============================================================== String / str

@model('String::new')
def _string_new(ctx, args, ck):
    return StringObj()


@model('String::with_capacity')
def _string_with_capacity(ctx, args, ck):
    return StringObj()


@model('String::push')
def _string_push(ctx, args, ck):
    st = ctx.m.peel(args[0])
    c = args[1]
    st.buf.chars.append(c)
    st.buf.widths.append(ctx.char_width(c))
    st.buf.dirty()
    return None


@model('String::push_str')
def _string_push_str(ctx, args, ck):
    string_push_str(ctx, ctx.m.peel(args[0]), as_str(ctx, args[1]))
    return None


@model('String::is_empty', 'str::is_empty')
def _str_is_empty(ctx, args, ck):
    return as_str(ctx, args[0]).byte_len() == 0


@model('String::len', 'str::len')
def _str_len(ctx, args, ck):
    return Int(as_str(ctx, args[0]).byte_len(), 'usize')


@model('String::as_str', 'String::as_mut_str', 'str::as_ref')
def _string_as_str(ctx, args, ck):
    return as_str(ctx, args[0])


@model('String::clear')
def _string_clear(ctx, args, ck):
    st = ctx.m.peel(args[0])
    st.buf = StrBuf([], [])
    return None


@model('String::pop')
def _string_pop(ctx, args, ck):
    st = ctx.m.peel(args[0])
    if not st.buf.chars:
        return NONE()
    c = st.buf.chars[-1]
    st.buf = StrBuf(st.buf.chars[:-1], st.buf.widths[:-1])
    return Some(c)


@model('String::truncate')
def _string_truncate(ctx, args, ck):
    st = ctx.m.peel(args[0])
    n = to_usize(ctx, args[1], bound=st.buf.byte_len() + 1)
    if n >= st.buf.byte_len():
        return None
    s = st.as_str()
    k = StrRef(s.buf, 0, n).char_range()[1]
    st.buf = StrBuf(st.buf.chars[:k], st.buf.widths[:k])
    return None


@model('String::into_bytes')
def _string_into_bytes(ctx, args, ck):
    return VecObj(str_bytes(ctx, as_str(ctx, args[0])))


@model('str::as_bytes', 'String::as_bytes')
def _str_as_bytes(ctx, args, ck):
    b = str_bytes(ctx, as_str(ctx, args[0]))
    return SliceRef(b, 0, len(b))


@model('str::bytes')
def _str_bytes(ctx, args, ck):
    return ListIter(str_bytes(ctx, as_str(ctx, args[0])))


@model('String::from_utf8')
def _string_from_utf8(ctx, args, ck):
    v = as_vec(ctx, args[0])
    d = decode_utf8(ctx, v.items)
    if d is None:
        return Err(Opaque('FromUtf8Error'))
    return Ok(new_string_from(*d))


@model('str::from_utf8', 'converts::from_utf8')
def _str_from_utf8(ctx, args, ck):
    v = as_slice(ctx, args[0])
    d = decode_utf8(ctx, v.items())
    if d is None:
        return Err(Opaque('Utf8Error'))
    buf = StrBuf(*d)
    return Ok(StrRef(buf, 0, buf.byte_len()))


@model('String::from_utf8_lossy')
def _string_from_utf8_lossy(ctx, args, ck):
    v = as_slice(ctx, args[0])
    d = decode_utf8(ctx, v.items())
    if d is None:
        raise Unsupported('from_utf8_lossy on invalid UTF-8 (replacement characters not modelled)')
    buf = StrBuf(*d)
    return Enum('Cow', 'Borrowed', 0, [StrRef(buf, 0, buf.byte_len())])


@model('ToString::to_string', 'str::to_string', 'str::to_owned', 'String::from', 'str::into_string')
def _to_string(ctx, args, ck):
    v = ctx.m.peel(args[0])
    if isinstance(v, (StrRef, StringObj)) or (isinstance(v, Enum) and v.ty == 'Cow'):
        s = as_str(ctx, v)
        return new_string_from(s.chars(), s.widths())
    from models_core import display_value
    out = StringObj()
    if display_value(ctx, v, out):
        return out
    raise Unsupported('to_string of %r' % (type(v).__name__,))


@model('Cow::into_owned', 'Cow::to_string')
def _cow_into_owned(ctx, args, ck):
    v = ctx.m.peel(args[0])
    inner = ctx.m.peel(v.fields[0])
    if isinstance(inner, StringObj):
        return inner
    if isinstance(inner, StrRef):
        return new_string_from(inner.chars(), inner.widths())
    if isinstance(inner, VecObj):
        return inner
    if isinstance(inner, SliceRef):
        return VecObj([ctx.m.clone(x) for x in inner.items()])
    raise Unsupported('Cow::into_owned of ' + type(inner).__name__)


@model('str::chars')
def _str_chars(ctx, args, ck):
    s = as_str(ctx, args[0])
    return ListIter(s.chars())


@model('str::char_indices')
def _str_char_indices(ctx, args, ck):
    s = as_str(ctx, args[0])
    out = []
    off = 0
    for c, w in zip(s.chars(), s.widths()):
        out.append(Tup([Int(off, 'usize'), c]))
        off += w
    return ListIter(out)


def trim_impl(ctx, s, start=True, end=True, pred=None):
    cs = s.chars()
    a, b = 0, len(cs)
    pred = pred or char_is_whitespace
    if start:
        while a < b and ctx.branch(pred(cs[a])):
            a += 1
    if end:
        while b > a and ctx.branch(pred(cs[b - 1])):
            b -= 1
    return substr(s, a, b)


@model('str::trim')
def _str_trim(ctx, args, ck):
    return trim_impl(ctx, as_str(ctx, args[0]))


@model('str::trim_start', 'str::trim_left')
def _str_trim_start(ctx, args, ck):
    return trim_impl(ctx, as_str(ctx, args[0]), end=False)


@model('str::trim_end', 'str::trim_right')
def _str_trim_end(ctx, args, ck):
    return trim_impl(ctx, as_str(ctx, args[0]), start=False)


def split_ws(ctx, s, pred):
    cs = s.chars()
    out = []
    start = None
    for i, c in enumerate(cs):
        if ctx.branch(pred(c)):
            if start is not None:
                out.append(substr(s, start, i))
                start = None
        else:
            if start is None:
                start = i
    if start is not None:
        out.append(substr(s, start, len(cs)))
    return out


def ascii_ws(c):
    if isinstance(c.v, int):
        return c.v in (0x20, 0x09, 0x0A, 0x0C, 0x0D)
    return z3.Or(c.v == 0x20, c.v == 0x09, c.v == 0x0A, c.v == 0x0C, c.v == 0x0D)


@model('str::split_whitespace')
def _str_split_whitespace(ctx, args, ck):
    return ListIter(split_ws(ctx, as_str(ctx, args[0]), char_is_whitespace))


@model('str::split_ascii_whitespace')
def _str_split_ascii_whitespace(ctx, args, ck):
    return ListIter(split_ws(ctx, as_str(ctx, args[0]), ascii_ws))


def find_sub(ctx, s, pat, from_char=0):
    """Leftmost char index >= from_char where pat (StrRef) occurs in s; None if absent (forks)."""
    cs = s.chars()
    ws = s.widths()
    pc = pat.chars()
    pw = pat.widths()
    n, k = len(cs), len(pc)
    for i in range(from_char, n - k + 1):
        if ws[i:i + k] != pw:
            continue
        if ctx.branch(ctx.m.conj([ctx.m.eq(cs[i + j], pc[j]) for j in range(k)])):
            return i
    return None


def pattern_kind(ctx, p):
    p = ctx.m.peel(p)
    if isinstance(p, Int) and p.ty == 'char':
        return 'char', p
    if isinstance(p, (StrRef, StringObj)):
        return 'str', as_str(ctx, p)
    if isinstance(p, (Closure, FnRef, PyFn)):
        return 'fn', p
    raise Unsupported('str pattern %r' % (type(p).__name__,))


def char_matcher(ctx, kind, p):
    if kind == 'char':
        return lambda c: ctx.m.eq(c, p)
    if kind == 'fn':
        return lambda c: ctx.m.call_value(p, [c])
    return None


@model('str::contains')
def _str_contains(ctx, args, ck):
    s = as_str(ctx, args[0])
    kind, p = pattern_kind(ctx, args[1])
    if kind == 'str':
        return find_sub(ctx, s, p) is not None
    f = char_matcher(ctx, kind, p)
    return ctx.m.disj([f(c) for c in s.chars()])


@model('str::starts_with')
def _str_starts_with(ctx, args, ck):
    s = as_str(ctx, args[0])
    kind, p = pattern_kind(ctx, args[1])
    if kind == 'str':
        k = len(p.chars())
        if k > len(s.chars()) or s.widths()[:k] != p.widths():
            return False
        return ctx.m.conj([ctx.m.eq(a, b) for a, b in zip(s.chars(), p.chars())])
    cs = s.chars()
    if not cs:
        return False
    return char_matcher(ctx, kind, p)(cs[0])


@model('str::ends_with')
def _str_ends_with(ctx, args, ck):
    s = as_str(ctx, args[0])
    kind, p = pattern_kind(ctx, args[1])
    cs = s.chars()
    if kind == 'str':
        k = len(p.chars())
        if k > len(cs) or s.widths()[len(cs) - k:] != p.widths():
            return False
        return ctx.m.conj([ctx.m.eq(a, b) for a, b in zip(cs[len(cs) - k:], p.chars())])
    if not cs:
        return False
    return char_matcher(ctx, kind, p)(cs[-1])


@model('str::find')
def _str_find(ctx, args, ck):
    s = as_str(ctx, args[0])
    kind, p = pattern_kind(ctx, args[1])
    offs = s.buf.offsets()
    a0, _ = s.char_range()
    if kind == 'str':
        i = find_sub(ctx, s, p)
        if i is None:
            return NONE()
        return Some(Int(offs[a0 + i] - s.lo, 'usize'))
    f = char_matcher(ctx, kind, p)
    for i, c in enumerate(s.chars()):
        if ctx.branch(f(c)):
            return Some(Int(offs[a0 + i] - s.lo, 'usize'))
    return NONE()


def split_str(ctx, s, pat_args):
    kind, p = pattern_kind(ctx, pat_args)
    cs = s.chars()
    out = []
    start = 0
    if kind == 'str':
        k = len(p.chars())
        if k == 0:
            raise Unsupported('split on empty pattern')
        i = 0
        while True:
            j = find_sub(ctx, s, p, i)
            if j is None:
                break
            out.append(substr(s, start, j))
            start = j + k
            i = start
        out.append(substr(s, start, len(cs)))
        return out
    f = char_matcher(ctx, kind, p)
    for i, c in enumerate(cs):
        if ctx.branch(f(c)):
            out.append(substr(s, start, i))
            start = i + 1
    out.append(substr(s, start, len(cs)))
    return out


@model('str::split')
def _str_split(ctx, args, ck):
    return ListIter(split_str(ctx, as_str(ctx, args[0]), args[1]))


@model('str::lines')
def _str_lines(ctx, args, ck):
    s = as_str(ctx, args[0])
    parts = split_str(ctx, s, Int(10, 'char'))
    if parts and parts[-1].byte_len() == 0:
        parts.pop()
    out = []
    for p in parts:
        cs = p.chars()
        if cs and ctx.branch(ctx.m.eq(cs[-1], Int(13, 'char'))):
            p = substr(p, 0, len(cs) - 1)
        out.append(p)
    return ListIter(out)


@model('str::replace')
def _str_replace(ctx, args, ck):
    s = as_str(ctx, args[0])
    to = as_str(ctx, args[2])
    parts = split_str(ctx, s, args[1])
    out = StringObj()
    for k, p in enumerate(parts):
        if k:
            string_push_str(ctx, out, to)
        string_push_str(ctx, out, p)
    return out


@model('str::replacen')
def _str_replacen(ctx, args, ck):
    s = as_str(ctx, args[0])
    to = as_str(ctx, args[2])
    n = to_usize(ctx, args[3])
    parts = split_str(ctx, s, args[1])
    out = StringObj()
    for k, p in enumerate(parts):
        if k:
            if k <= n:
                string_push_str(ctx, out, to)
            else:
                # occurrences beyond the first n stay: put the separator back
                pat = ctx.m.peel(args[1])
                if isinstance(pat, Int):
                    out.buf.chars.append(pat)
                    out.buf.widths.append(ctx.char_width(pat))
                    out.buf.dirty()
                else:
                    string_push_str(ctx, out, as_str(ctx, pat))
        string_push_str(ctx, out, p)
    return out


@model('str::repeat')
def _str_repeat(ctx, args, ck):
    s = as_str(ctx, args[0])
    n = to_usize(ctx, args[1])
    out = StringObj()
    for _ in range(n):
        string_push_str(ctx, out, s)
    return out


@model('str::to_lowercase', 'str::to_uppercase', 'str::to_ascii_lowercase', 'str::to_ascii_uppercase')
def _str_to_case(ctx, args, ck):
    s = as_str(ctx, args[0])
    out = StringObj()
    lower = 'lower' in ck.name
    for c in s.chars():
        if not isinstance(c.v, int) and not ctx.must(z3.ULT(c.v, 0x80)):
            # symbolic char over a small alphabet (harness assumption): if-then-else over the feasible code points,
            # Unicode simple case mapping for each (only mappings that keep one char of the same UTF-8 width)
            vals = feasible_values(ctx, c, limit=12)
            if not vals:
                raise Unsupported('case mapping of a symbolic char outside a small alphabet')
            w = ctx.char_width(c)
            term = None
            for v in vals:
                ch = chr(v)
                if 'ascii' in ck.name:
                    r = (ch.lower() if lower else ch.upper()) if ch.isascii() else ch
                else:
                    r = ch.lower() if lower else ch.upper()
                if len(r) != 1 or len(r.encode()) != w or ch in 'Σİ':
                    raise Unsupported('case mapping of %r changes length' % ch)
                term = z3.BitVecVal(ord(r), 32) if term is None else z3.If(c.v == v, z3.BitVecVal(ord(r), 32), term)
            out.buf.chars.append(Int(z3.simplify(term), 'char', w))
            out.buf.widths.append(w)
            continue
        if not isinstance(c.v, int):
            if lower:
                isup = z3.And(z3.UGE(c.v, 0x41), z3.ULE(c.v, 0x5A))
                nc = Int(z3.If(isup, c.v + 32, c.v), 'char', 1)
            else:
                islo = z3.And(z3.UGE(c.v, 0x61), z3.ULE(c.v, 0x7A))
                nc = Int(z3.If(islo, c.v - 32, c.v), 'char', 1)
            out.buf.chars.append(nc)
            out.buf.widths.append(1)
            continue
        ch = chr(c.v)
        if 'ascii' in ck.name:
            r = ch.lower() if (lower and ch.isascii()) else ch.upper() if (not lower and ch.isascii()) else ch
        else:
            r = ch.lower() if lower else ch.upper()
            if lower and ch == 'Σ':
                raise Unsupported('final sigma lowercase')
        string_push_str(ctx, out, ctx.m.str_lit(r))
    out.buf.dirty()
    return out


@model('str::is_char_boundary')
def _str_is_char_boundary(ctx, args, ck):
    s = as_str(ctx, args[0])
    i = args[1]
    k = ctx.concretize(i, 0, s.byte_len() + 1)
    if k is None:
        return False
    return (s.lo + k) in s.buf.offsets()


@model('str::get')
def _str_get(ctx, args, ck):
    s = as_str(ctx, args[0])
    try:
        a, b = range_bounds(ctx, args[1], s.byte_len())
        r = StrRef(s.buf, s.lo + a, s.lo + b)
        r.char_range()
        return Some(r)
    except RustPanic:
        return NONE()


@model('str::parse')
def _str_parse(ctx, args, ck):
    s = as_str(ctx, args[0])
    c = s.concrete()
    if c is None:
        raise Unsupported('parse of symbolic string')
    t = turbofish(ck.raw, 'parse')
    ty = type_head(t[0]) if t else ''
    if ty in INT_BITS:
        if re.match(r'^[+-]?\d+$', c) and not (ty not in SIGNED and c.startswith('-')):
            v = int(c)
            bits = INT_BITS[ty]
            lo = -(1 << (bits - 1)) if ty in SIGNED else 0
            hi = (1 << (bits - 1)) - 1 if ty in SIGNED else (1 << bits) - 1
            if lo <= v <= hi:
                return Ok(Int(v, ty))
        return Err(Opaque('ParseIntError'))
    if ty in ('f64', 'f32'):
        try:
            return Ok(FP(float(c), ty))
        except ValueError:
            return Err(Opaque('ParseFloatError'))
    raise Unsupported('parse::<%s>' % ty)


@model('str::eq_ignore_ascii_case')
def _str_eq_ignore_ascii_case(ctx, args, ck):
    from resolve import CallKey
    a = _str_to_case(ctx, [args[0]], CallKey('path', 'str', None, 'to_ascii_lowercase', '', ['str', 'to_ascii_lowercase']))
    b = _str_to_case(ctx, [args[1]], CallKey('path', 'str', None, 'to_ascii_lowercase', '', ['str', 'to_ascii_lowercase']))
    return ctx.m.eq(a, b)


@model('Extend::extend')
def _extend(ctx, args, ck):
    from models_iter import drain_iter, into_iter_value
    tgt = ctx.m.peel(args[0])
    items = drain_iter(ctx, into_iter_value(ctx, args[1]))
    if isinstance(tgt, VecObj):
        for x in items:
            px = x
            if isinstance(x, Ref):
                px = ctx.m.clone(x.get())
            tgt.items.append(px)
        return None
    if isinstance(tgt, StringObj):
        for x in items:
            px = ctx.m.peel(x)
            if isinstance(px, Int):
                tgt.buf.chars.append(px)
                tgt.buf.widths.append(ctx.char_width(px))
                tgt.buf.dirty()
            else:
                string_push_str(ctx, tgt, as_str(ctx, px))
        return None
    if isinstance(tgt, MapObj):
        for x in items:
            if tgt.kind in ('HashSet', 'BTreeSet'):
                map_insert(ctx, tgt, x if not isinstance(x, Ref) else ctx.m.clone(x.get()), None)
            else:
                map_insert(ctx, tgt, x.fields[0], x.fields[1])
        return None
    raise Unsupported('extend of ' + type(tgt).__name__)


# =============================================================== HashMap / HashSet / BTreeMap

def map_find(ctx, mp, key):
    """Return the [k, v] entry whose key equals `key` (forking on symbolic equality) or None."""
    pk = ctx.m.peel(key)
    if isinstance(pk, Int) and isinstance(pk.v, int):
        # fast path: concrete integer key against concrete integer keys
        kv = pk.v
        rest = []
        for e in mp.entries:
            ek = e[0]
            if isinstance(ek, Int) and isinstance(ek.v, int):
                if ek.v == kv:
                    return e
            else:
                rest.append(e)
        for e in rest:
            if ctx.branch(ctx.m.eq(e[0], key)):
                return e
        return None
    for e in mp.entries:
        if ctx.branch(ctx.m.eq(e[0], key)):
            return e
    return None


def map_insert(ctx, mp, k, v):
    e = map_find(ctx, mp, k)
    if e is not None:
        old = e[1]
        e[1] = v
        return old, True
    mp.entries.append([k, v])
    return None, False


def _mk_map(kind):
    def f(ctx, args, ck):
        return MapObj(kind)
    return f


for _k in ('HashMap', 'HashSet', 'BTreeMap', 'BTreeSet'):
    MODELS[_k + '::new'] = _mk_map(_k)
    MODELS[_k + '::default'] = _mk_map(_k)


def _with_capacity(kind):
    def f(ctx, args, ck):
        n = args[0]
        # hashbrown: capacity overflow when buckets * size overflows; adjusted cap = n*8/7 rounded to pow2
        lim = Int(1 << 59, 'usize')
        if ctx.branch(ctx.m.int_binop('Ge', n, lim)):
            raise RustPanic('Hash table capacity overflow', 'capacity')
        return MapObj(kind)
    return f


MODELS['HashMap::with_capacity'] = _with_capacity('HashMap')
MODELS['HashSet::with_capacity'] = _with_capacity('HashSet')


def as_map(ctx, v):
    v = ctx.m.peel(v)
    if isinstance(v, MapObj):
        return v
    raise Unsupported('expected map, got ' + type(v).__name__)


@model('HashMap::len', 'HashSet::len', 'BTreeMap::len', 'BTreeSet::len')
def _map_len(ctx, args, ck):
    return Int(len(as_map(ctx, args[0]).entries), 'usize')


@model('HashMap::is_empty', 'HashSet::is_empty', 'BTreeMap::is_empty', 'BTreeSet::is_empty')
def _map_is_empty(ctx, args, ck):
    return len(as_map(ctx, args[0]).entries) == 0


@model('HashMap::insert', 'BTreeMap::insert')
def _map_insert(ctx, args, ck):
    old, had = map_insert(ctx, as_map(ctx, args[0]), args[1], args[2])
    return Some(old) if had else NONE()


@model('HashSet::insert', 'BTreeSet::insert')
def _set_insert(ctx, args, ck):
    mp = as_map(ctx, args[0])
    e = map_find(ctx, mp, args[1])
    if e is not None:
        return False
    mp.entries.append([args[1], None])
    return True


def symbolic_map_read(ctx, mp, key):
    """Read-only lookup of a symbolic integer key in a map with concrete, distinct integer keys and integer values:
    returns (presence condition, value as if-then-else term) - one fork instead of one per entry."""
    k = ctx.m.peel(key)
    if not (isinstance(k, Int) and k.sym()) or len(mp.entries) < 4:
        return None
    seen = set()
    vty = None
    for e in mp.entries:
        ek, ev = e[0], e[1]
        if not (isinstance(ek, Int) and isinstance(ek.v, int)) or ek.v in seen or not isinstance(ev, Int):
            return None
        seen.add(ek.v)
        if vty is None:
            vty = ev.ty
        elif vty != ev.ty:
            return None
    bits = k.bits
    conds = [k.v == z3.BitVecVal(e[0].v, bits) for e in mp.entries]
    val = mp.entries[-1][1].z()
    for c, e in zip(reversed(conds[:-1]), reversed(mp.entries[:-1])):
        val = z3.If(c, e[1].z(), val)
    ws = {ctx.char_width(e[1]) for e in mp.entries} if vty == 'char' and all(isinstance(e[1].v, int) for e in mp.entries) else set()
    return z3.Or(*conds), Int(val, vty, ws.pop() if len(ws) == 1 else None)


@model('HashMap::get', 'BTreeMap::get')
def _map_get_ro(ctx, args, ck):
    mp = as_map(ctx, args[0])
    sr = symbolic_map_read(ctx, mp, args[1])
    if sr is not None:
        present, val = sr
        if ctx.branch(present):
            return Some(Ref([val], 0))
        return NONE()
    e = map_find(ctx, mp, args[1])
    return Some(Ref(e, 1)) if e is not None else NONE()


@model('HashMap::get_mut', 'BTreeMap::get_mut')
def _map_get(ctx, args, ck):
    e = map_find(ctx, as_map(ctx, args[0]), args[1])
    return Some(Ref(e, 1)) if e is not None else NONE()


@model('HashMap::get_key_value')
def _map_get_kv(ctx, args, ck):
    e = map_find(ctx, as_map(ctx, args[0]), args[1])
    return Some(Tup([Ref(e, 0), Ref(e, 1)])) if e is not None else NONE()


@model('HashSet::get')
def _set_get(ctx, args, ck):
    e = map_find(ctx, as_map(ctx, args[0]), args[1])
    return Some(Ref(e, 0)) if e is not None else NONE()


@model('HashMap::contains_key', 'BTreeMap::contains_key', 'HashSet::contains', 'BTreeSet::contains')
def _map_contains(ctx, args, ck):
    mp = as_map(ctx, args[0])
    return ctx.m.disj([ctx.m.eq(e[0], args[1]) for e in mp.entries])


@model('HashMap::remove', 'BTreeMap::remove')
def _map_remove(ctx, args, ck):
    mp = as_map(ctx, args[0])
    e = map_find(ctx, mp, args[1])
    if e is None:
        return NONE()
    mp.entries.remove(e)
    return Some(e[1])


@model('HashSet::remove', 'BTreeSet::remove')
def _set_remove(ctx, args, ck):
    mp = as_map(ctx, args[0])
    e = map_find(ctx, mp, args[1])
    if e is None:
        return False
    mp.entries.remove(e)
    return True


@model('HashMap::clear', 'HashSet::clear', 'BTreeMap::clear', 'BTreeSet::clear')
def _map_clear(ctx, args, ck):
    del as_map(ctx, args[0]).entries[:]
    return None


@model('HashMap::reserve', 'HashSet::reserve', 'HashMap::shrink_to_fit')
def _map_reserve(ctx, args, ck):
    return None


class MapIter(Iter):
    """Iteration over a hash container: arbitrary order (forked) unless hash_order == 'insertion'.
    BTree containers iterate in key order."""

    hashed = False

    def __init__(self, ctx, mp, mode):
        self.mode = mode
        ents = list(mp.entries)
        if mp.kind.startswith('BTree'):
            ents = sort_items(ctx, ents, keyf=lambda e: e[0])
            self.ordered = True
        else:
            self.ordered = ctx.hash_order != 'all'
            self.hashed = True
        self.rest = ents

    def nxt(self, ctx):
        if not self.rest:
            return STOP
        if self.ordered:
            e = self.rest.pop(0)
        else:
            k = ctx.choice(len(self.rest), 'hash-order')
            e = self.rest.pop(k)
        md = self.mode
        if md == 'iter':
            return Tup([Ref(e, 0), Ref(e, 1)])
        if md == 'into':
            return Tup([e[0], e[1]])
        if md == 'keys':
            return Ref(e, 0)
        if md == 'into_keys':
            return e[0]
        if md == 'values':
            return Ref(e, 1)
        if md == 'into_values':
            return e[1]
        raise Unsupported(md)


def _map_iter(mode):
    def f(ctx, args, ck):
        return MapIter(ctx, as_map(ctx, args[0]), mode)
    return f


for _k in ('HashMap', 'BTreeMap'):
    MODELS[_k + '::iter'] = _map_iter('iter')
    MODELS[_k + '::iter_mut'] = _map_iter('iter')
    MODELS[_k + '::keys'] = _map_iter('keys')
    MODELS[_k + '::into_keys'] = _map_iter('into_keys')
    MODELS[_k + '::values'] = _map_iter('values')
    MODELS[_k + '::values_mut'] = _map_iter('values')
    MODELS[_k + '::into_values'] = _map_iter('into_values')
for _k in ('HashSet', 'BTreeSet'):
    MODELS[_k + '::iter'] = _map_iter('keys')


@model('HashMap::drain')
def _map_drain(ctx, args, ck):
    mp = as_map(ctx, args[0])
    it = MapIter(ctx, mp, 'into')
    mp.entries = []
    return it


class EntryObj:
    __slots__ = ('mp', 'key', 'entry')

    def __init__(self, mp, key, entry):
        self.mp = mp
        self.key = key
        self.entry = entry


@model('HashMap::entry', 'BTreeMap::entry')
def _map_entry(ctx, args, ck):
    mp = as_map(ctx, args[0])
    return EntryObj(mp, args[1], map_find(ctx, mp, args[1]))


@model('Entry::or_insert')
def _entry_or_insert(ctx, args, ck):
    e = args[0]
    if e.entry is None:
        e.entry = [e.key, args[1]]
        e.mp.entries.append(e.entry)
    return Ref(e.entry, 1)


@model('Entry::or_insert_with')
def _entry_or_insert_with(ctx, args, ck):
    e = args[0]
    if e.entry is None:
        e.entry = [e.key, ctx.m.call_value(args[1], [])]
        e.mp.entries.append(e.entry)
    return Ref(e.entry, 1)


@model('Entry::or_default')
def _entry_or_default(ctx, args, ck):
    e = args[0]
    if e.entry is None:
        m = re.search(r'Entry::<[^,]*, (.*)>::or_default$', strip_lifetimes(ck.raw))
        from models_core import _default
        from resolve import CallKey
        full = m.group(1) if m else ''
        dv = _default(ctx, [], CallKey('trait', type_head(full), 'Default', 'default', '', [], full))
        e.entry = [e.key, dv]
        e.mp.entries.append(e.entry)
    return Ref(e.entry, 1)


@model('Entry::and_modify')
def _entry_and_modify(ctx, args, ck):
    e = args[0]
    if e.entry is not None:
        ctx.m.call_value(args[1], [Ref(e.entry, 1)])
    return e


def strip_lifetimes(s):
    return re.sub(r"'[a-z_]+,? ?", '', s)


@model('HashSet::union', 'HashSet::intersection', 'HashSet::difference', 'HashSet::is_subset',
       'HashSet::is_superset', 'HashSet::is_disjoint', 'HashSet::symmetric_difference')
def _set_ops(ctx, args, ck):
    a = as_map(ctx, args[0])
    b = as_map(ctx, args[1])
    n = ck.name

    def inb(k, s):
        return ctx.branch(ctx.m.disj([ctx.m.eq(e[0], k) for e in s.entries]))

    if n == 'is_subset':
        return all(inb(e[0], b) for e in a.entries)
    if n == 'is_superset':
        return all(inb(e[0], a) for e in b.entries)
    if n == 'is_disjoint':
        return not any(inb(e[0], b) for e in a.entries)
    if n == 'intersection':
        keep = [e for e in a.entries if inb(e[0], b)]
    elif n == 'difference':
        keep = [e for e in a.entries if not inb(e[0], b)]
    elif n == 'union':
        keep = list(a.entries) + [e for e in b.entries if not inb(e[0], a)]
    else:
        keep = [e for e in a.entries if not inb(e[0], b)] + [e for e in b.entries if not inb(e[0], a)]
    return MapIter(ctx, MapObj('HashSet', keep), 'keys')


# =============================================================== BinaryHeap

@model('BinaryHeap::new', 'BinaryHeap::with_capacity')
def _heap_new(ctx, args, ck):
    return HeapObj()


@model('BinaryHeap::push')
def _heap_push(ctx, args, ck):
    ctx.m.peel(args[0]).items.append(args[1])
    return None


def heap_max_index(ctx, h):
    best = 0
    for i in range(1, len(h.items)):
        if ctx.m.cmp(h.items[i], h.items[best]) > 0:
            best = i
    return best


@model('BinaryHeap::pop')
def _heap_pop(ctx, args, ck):
    h = ctx.m.peel(args[0])
    if not h.items:
        return NONE()
    return Some(h.items.pop(heap_max_index(ctx, h)))


@model('BinaryHeap::peek')
def _heap_peek(ctx, args, ck):
    h = ctx.m.peel(args[0])
    if not h.items:
        return NONE()
    return Some(Ref(h.items, heap_max_index(ctx, h)))


@model('BinaryHeap::len')
def _heap_len(ctx, args, ck):
    return Int(len(ctx.m.peel(args[0]).items), 'usize')


@model('BinaryHeap::is_empty')
def _heap_is_empty(ctx, args, ck):
    return len(ctx.m.peel(args[0]).items) == 0


@model('BinaryHeap::into_sorted_vec')
def _heap_into_sorted_vec(ctx, args, ck):
    return VecObj(sort_items(ctx, args[0].items))


@model('BinaryHeap::into_vec')
def _heap_into_vec(ctx, args, ck):
    # order of into_vec is unspecified: arbitrary permutation when hash_order == 'all'
    items = list(args[0].items)
    if ctx.hash_order == 'all':
        out = []
        while items:
            out.append(items.pop(ctx.choice(len(items), 'heap-order')))
        return VecObj(out)
    return VecObj(items)


@model('HashMap::retain', 'BTreeMap::retain')
def _map_retain(ctx, args, ck):
    mp = as_map(ctx, args[0])
    keep = []
    for e in mp.entries:
        if ctx.branch(ctx.m.call_value(args[1], [Ref(e, 0), Ref(e, 1)])):
            keep.append(e)
    mp.entries[:] = keep
    return None


@model('HashSet::retain', 'BTreeSet::retain')
def _set_retain(ctx, args, ck):
    mp = as_map(ctx, args[0])
    keep = []
    for e in mp.entries:
        if ctx.branch(ctx.m.call_value(args[1], [Ref(e, 0)])):
            keep.append(e)
    mp.entries[:] = keep
    return None


@model('BTreeMap::into_values', 'BTreeMap::values')
def _btree_values(ctx, args, ck):
    return MapIter(ctx, as_map(ctx, args[0]), 'into_values' if ck.name == 'into_values' else 'values')


@model('BTreeMap::first_key_value', 'BTreeMap::last_key_value')
def _btree_first(ctx, args, ck):
    mp = as_map(ctx, args[0])
    if not mp.entries:
        return NONE()
    ents = sort_items(ctx, list(mp.entries), keyf=lambda e: e[0])
    e = ents[0] if ck.name.startswith('first') else ents[-1]
    return Some(Tup([Ref(e, 0), Ref(e, 1)]))
