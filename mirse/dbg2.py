import sys, time
sys.path.insert(0,'.')
import engine, harnesses, build
h=harnesses.get('c10')
shapes=[s for s in h.shapes('quick')]
opts={'mir':build.mir_dump()[0],'repo':'/repo','stop_on_violation':True}
res=engine.run_harness('c10', shapes, opts, procs=16)
n=0
for r in res:
    for v in r['violations']:
        n+=1
        if n<12: print(r['shape'], v['what'][:40], v['inputs'])
print('total violations', n)
