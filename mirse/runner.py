#!/usr/bin/env python3
"""check driver: `runner.py <PROPERTY> [--tier quick|thorough] [--replay file]`.
exit 0 = property held on everything explored (known findings listed), 1 = VIOLATION (reproduced natively),
2 = inconclusive (unsupported construct, solver unknown, non-reproducing model, bound exceeded)."""
import argparse
import json
import os
import random
import sys
import time
import traceback

HERE = os.path.dirname(os.path.abspath(__file__))
VERIF = os.path.dirname(HERE)
sys.path.insert(0, HERE)

import build
import engine
import harnesses
from interp import Machine, Stats, Ctx
from values import Unsupported

PROPS = {}
for _l in open(os.path.join(VERIF, 'properties.jsonl')):
    _p = json.loads(_l)
    PROPS[_p['id']] = _p


def load_known(pid):
    path = os.path.join(VERIF, 'known_findings.json')
    if not os.path.exists(path):
        return []
    d = json.load(open(path))
    return [f for f in d.get('findings', []) if f['property'] == pid and f.get('status', 'open') == 'open']


def validate_models(native, which, seed, log):
    """Diff-test the environment models against the real dependencies (part of every run)."""
    import models_core, models_text
    n = 0
    rng = random.Random(seed)
    if 'ws' in which:
        r = native.call('ws_table')
        real = set(r['ok'])
        mine = set()
        for a, b in models_core.WS_RANGES:
            mine.update(range(a, b + 1))
        if real != mine:
            raise Unsupported('model validation: char::is_whitespace table differs from std: %r' % sorted(real ^ mine)[:10])
        n += 0x110000 - 0x800
    if 'utf8' in which:
        r = native.call('utf8_len')['ok']
        if r != [[0, 1], [0x80, 2], [0x800, 3], [0x10000, 4]]:
            raise Unsupported('model validation: len_utf8 classes differ: %r' % r)
        n += 4
    if 'graphemes' in which:
        ranges = [r for _, rs in models_text.G_CLASSES for r in rs]
        class FakeCtx:
            width_cache = {}
            def branch(self, c):
                return bool(c)
        from values import Int
        for k in range(3000):
            ln = rng.randint(1, 6)
            cps = []
            for _ in range(ln):
                a, b = rng.choice(ranges)
                # bias towards boundaries of the ranges
                cps.append(rng.choice([a, b, rng.randint(a, b)]))
            fc = FakeCtx()
            fc.width_cache = {}
            cl = models_text.grapheme_clusters(fc, [Int(c, 'char') for c in cps])
            mine = [b - a for a, b in cl]
            real = native.call('graphemes', s=cps)['ok']
            if mine != real:
                raise Unsupported('model validation: grapheme model differs from unicode-segmentation on %r: %r vs %r'
                                  % (cps, mine, real))
            n += 1
    return n


def translator_validation(h, mir, native, seed, n_cases, log):
    """Push concrete inputs (repo unit-test inputs + seeded random ones) through MIRSE in concrete mode and through
    the native binary; any disagreement makes the check inconclusive."""
    prog, res = engine.load(mir, build.REPO)
    rng = random.Random(seed)
    cases = list(getattr(h, 'FIXED_CASES', []))
    while len(cases) < n_cases:
        cases.append(h.random_case(rng))
    m = Machine(prog, res, hash_order='insertion')
    if hasattr(h, 'setup_machine'):
        h.setup_machine(m, None, {})
    done = 0
    skipped = 0
    allow_forks = getattr(h, 'VALIDATION_ALLOW_FORKS', False)
    for shape, inputs in cases:
        outs = []
        panics = []

        def hrun(ctx):
            ctx.concrete = inputs
            ctx.outputs = {}
            try:
                h.run(ctx, shape, {'concrete': True})
            finally:
                ctx.final_outputs = ctx.outputs
        work = [[]]
        npaths = 0
        while work:
            prefix = work.pop()
            stats = Stats()
            ctx, (kind, payload) = m.run_path(hrun, prefix, stats)
            work.extend(ctx.pending)
            npaths += 1
            if npaths > 500:
                # a concrete input whose nondeterministic environment (hash ties, message orders, random draws) forks too
                # often to enumerate: not usable as a validation case
                outs, panics, work = None, None, []
                break
            if kind == 'infeasible':
                continue
            if kind == 'violation' and payload.what.startswith('panic'):
                panics.append(payload.what)
            else:
                outs.append(ctx.final_outputs)
        if outs is None:
            skipped += 1
            continue
        if npaths > 1 and not allow_forks:
            raise Unsupported('translator validation: concrete run forked on %r %r' % (shape, inputs))
        if not outs and not panics:
            continue   # the case does not satisfy the harness precondition (every path infeasible)
        nat = h.native_outputs(native, shape, inputs)
        if 'panic' in nat or 'timeout' in nat:
            if not panics:
                raise Unsupported('translator validation: native run fails (%r) but no MIRSE path panics on %r %r'
                                  % (nat, shape, inputs))
        else:
            def agrees(mine):
                return all(mine.get(k) == v for k, v in nat.items() if k in mine)
            if not any(agrees(o) for o in outs):
                raise Unsupported('translator validation: native outputs %r not produced by any MIRSE path on %r %r; '
                                  'MIRSE: %r' % (nat, shape, inputs, outs[:3]))
        done += 1
    if skipped:
        log.append('translator validation: %d concrete cases skipped (more than 500 environment forks)' % skipped)
    if done == 0 and cases:
        raise Unsupported('translator validation: no usable case')
    return done


def main():
    ap = argparse.ArgumentParser()
    ap.add_argument('prop')
    ap.add_argument('--tier', default=os.environ.get('VERIF_TIER', 'quick'))
    ap.add_argument('--replay', default=None)
    ap.add_argument('--procs', type=int, default=int(os.environ.get('VERIF_PROCS', '16')))
    args = ap.parse_args()
    pid = args.prop.upper()
    tier = args.tier if args.tier in ('quick', 'thorough') else 'quick'
    seed = int(os.environ.get('VERIF_SEED', '0') or 0)
    t0 = time.time()
    h = harnesses.get(pid.lower())
    EVDIR = os.environ.get('VERIF_EVIDENCE_DIR') or os.path.join(VERIF, 'evidence')   # override: runs on scratch trees
    evidence_path = os.path.join(EVDIR, pid + '.json')
    os.makedirs(os.path.join(EVDIR, 'replays'), exist_ok=True)
    log = []
    status = 2
    ev = {'property_id': pid, 'tier': tier, 'seed': seed, 'level': 'model_checking', 'coverage': {}, 'wall_s': 0.0,
          'violations': 0, 'assumptions': []}
    try:
        mir, mir_s = build.mir_dump()
        native = build.Native('dev')
        native_rel = None
        if args.replay:
            case = json.load(open(args.replay))
            failed = h.concrete_check(native, case['inputs'], case['shape'])
            print('replay %s: failing claims (dev): %s' % (args.replay, failed))
            native_rel = build.Native('release')
            failed_r = h.concrete_check(native_rel, case['inputs'], case['shape'])
            print('replay %s: failing claims (release): %s' % (args.replay, failed_r))
            sys.exit(1 if (failed or failed_r) else 0)
        if hasattr(h, 'custom_main'):
            # MIRBMC properties: the harness drives its own queries
            known = load_known(pid)
            res = h.custom_main(tier, seed, mir, build.REPO, lambda: native, args.procs)
            kf_lines = list(res.get('lines', []))
            reproduced = []
            for v in res['violations']:
                kfm = None
                for kf in known:
                    if h.KNOWN_MATCHERS[kf['match']](v):
                        kfm = kf
                if kfm is not None:
                    line = 'KNOWN-FINDING: property=%s %s [%s]' % (pid, kfm['what'], kfm['id'])
                    if line not in kf_lines:
                        kf_lines.append(line)
                    continue
                path = os.path.join(EVDIR, 'replays', '%s-%d.json' % (pid, len(reproduced)))
                json.dump(v, open(path, 'w'), indent=1, default=str)
                v['path'] = path
                reproduced.append(v)
            for l in kf_lines:
                print(l)
            if reproduced:
                status = 1
                for r in reproduced:
                    print('VIOLATION property=%s replay=%s' % (pid, r['path']))
                    print('  claim: %s' % r['claim'])
            elif res['incon']:
                status = 2
                print('INCONCLUSIVE property=%s: %s' % (pid, res['incon'][0][:1000]))
            else:
                status = 0
            native.close()
            ev['coverage'] = res['coverage']
            ev['coverage']['known_findings_reported'] = kf_lines
            ev['violations'] = len(reproduced)
            ev['assumptions'] = res.get('assumptions', [])
            ev['wall_s'] = round(time.time() - t0, 1)
            json.dump(ev, open(evidence_path, 'w'), indent=1, default=str)
            print('property=%s tier=%s status=%s wall=%.1fs queries=%s' % (pid, tier, {0: 'HOLDS-WITHIN-BOUNDS', 1: 'VIOLATION', 2: 'INCONCLUSIVE'}[status],
                                                                        time.time() - t0, ev['coverage'].get('solver_queries')))
            sys.exit(status)
        # ---- model + translator validation
        nval_models = validate_models(native, getattr(h, 'VALIDATE_MODELS', []), seed, log)
        nval = translator_validation(h, mir, native, seed, h.VALIDATION_CASES[tier], log)
        # ---- premises discharged by another engine (C08: the Pipe protocol, MIRBMC)
        premise = None
        if hasattr(h, 'premises'):
            premise = h.premises(tier, seed, mir, build.REPO, native, args.procs)
        # ---- known findings: confirm each witness natively; exclusion is active only while it reproduces
        known = load_known(pid)
        active = []
        kf_lines = []
        for kf in known:
            failed = h.concrete_check(native, kf['witness']['inputs'], kf['witness']['shape'])
            if kf['claim'] in failed:
                active.append(kf['match'])
                kf_lines.append('KNOWN-FINDING: property=%s %s [%s]' % (pid, kf['what'], kf['id']))
            else:
                log.append('known finding %s no longer reproduces on this tree; its region is checked again' % kf['id'])
        # ---- symbolic exploration
        shapes = h.shapes(tier)
        if tier == 'thorough':
            # the deep tier is an anytime exploration: the shapes of the quick tier first, then the deeper ones, until the
            # time budget is used up; what was not reached is reported in the evidence (coverage.budget), the exit status
            # speaks for everything explored
            qs = h.shapes('quick')
            deep = [s_ for s_ in shapes if s_ not in qs]
            # VERIF_DEEP_FIRST=1 (maintenance): the deeper shapes first, to smoke-test them under a short budget
            shapes = (deep + qs) if os.environ.get('VERIF_DEEP_FIRST') else (qs + deep)
        opts = {'mir': mir, 'repo': build.REPO, 'tier': tier, 'known_active': active, 'seed': seed,
                'stop_on_violation': True, 'first_only': True}
        opts.update(getattr(h, 'OPTS', {}).get(tier, {}))
        budget = int(os.environ.get('VERIF_BUDGET_S') or h.TIME_BUDGET[tier])
        opts['deadline'] = time.time() + budget
        # ---- vacuity twins: on a sample of shapes the harness followed by assert(false) must be violated, i.e. some
        # path satisfies every assumption and reaches the end of the harness
        step = max(1, len(shapes) // 16)
        twin_shapes = shapes[::step][:16]
        topts = dict(opts, twin=True, first_only=False, deadline=time.time() + min(300, budget))
        twins = engine.run_harness(pid.lower(), twin_shapes, topts, procs=args.procs)
        twin_ok = sum(1 for r in twins if any(v['what'] == 'reachability witness' for v in r['violations']))
        twin_other = [v['what'] for r in twins for v in r['violations'] + r['bounds'] if v['what'] != 'reachability witness']
        log.append('vacuity twins: %d of %d sampled shapes reach the end of the harness' % (twin_ok, len(twin_shapes)))
        opts['deadline'] = time.time() + budget
        results = engine.run_harness(pid.lower(), shapes, opts, procs=args.procs)
        tot = engine.summarize(results)
        # ---- triage violations by native replay
        reproduced = []
        not_reproduced = []

        def triage(vlist):
            nonlocal native_rel
            new_found = False
            # at most 8 counterexamples per distinct claim, one per (claim, shape), claims interleaved
            byclaim = {}
            # larger shapes first: a defect is more often observable natively on them (a one-element shuffle shows nothing)
            for v in sorted(vlist, key=lambda v: -len(json.dumps(v['inputs'], default=str))):
                lst = byclaim.setdefault(v['what'], [])
                skey = json.dumps(v['shape'], sort_keys=True, default=str)
                if len(lst) < 8 and all(json.dumps(x['shape'], sort_keys=True, default=str) != skey for x in lst):
                    lst.append(v)
            order = []
            for i in range(8):
                for lst in byclaim.values():
                    if i < len(lst):
                        order.append(lst[i])
            for v in order:
                failed = h.concrete_check(native, v['inputs'], v['shape'])
                if native_rel is None:
                    native_rel = build.Native('release')
                failed_rel = h.concrete_check(native_rel, v['inputs'], v['shape'])
                rec = {'property': pid, 'claim': v['what'], 'shape': v['shape'], 'inputs': v['inputs'],
                       'native_failed_claims_dev': failed, 'native_failed_claims_release': failed_rel}
                if failed or failed_rel:
                    kfm = None
                    for kf in known:
                        if h.KNOWN_MATCHERS[kf['match']](v['shape'], v['inputs'], failed + failed_rel):
                            kfm = kf
                            break
                    if kfm is not None:
                        line = 'KNOWN-FINDING: property=%s %s [%s]' % (pid, kfm['what'], kfm['id'])
                        if line not in kf_lines:
                            kf_lines.append(line)
                        continue
                    path = os.path.join(EVDIR, 'replays', '%s-%d.json' % (pid, len(reproduced)))
                    json.dump(rec, open(path, 'w'), indent=1, default=str)
                    rec['path'] = path
                    reproduced.append(rec)
                    new_found = True
                    if len(reproduced) >= 3:
                        break
                else:
                    not_reproduced.append(rec)
            return new_found

        first = tot['violations'] + tot['bounds']
        triage(first)
        if first and not reproduced:
            # every counterexample of the first pass is a listed known finding (a listed finding must not hide other
            # violations) or did not reproduce natively (its shape may simply not make the defect observable, e.g. a
            # one-element shuffle): explore everything and triage every distinct claim / shape
            log.append('first pass found only known findings / non-reproducing counterexamples; second pass without stopping at the first violation')
            first_nr = list(not_reproduced)
            del not_reproduced[:]
            opts2 = dict(opts, stop_on_violation=False, first_only=False, deadline=time.time() + budget)
            results = engine.run_harness(pid.lower(), shapes, opts2, procs=args.procs)
            tot = engine.summarize(results)
            triage(tot['violations'] + tot['bounds'])
            if not reproduced and not not_reproduced:
                not_reproduced.extend(first_nr)
        for l in kf_lines:
            print(l)
        incon = list(tot['unsupported'])
        budget_notes = []
        if tier == 'thorough':
            budget_notes = [u for u in incon if u.startswith(('time budget exhausted', 'path budget'))]
            incon = [u for u in incon if u not in budget_notes]
        shapes_done = sum(1 for r in results if not any(u.startswith(('time budget exhausted', 'path budget')) for u in r['unsupported']))
        if premise is not None:
            incon += premise['incon']
            for v in premise['violations']:
                path = os.path.join(EVDIR, 'replays', '%s-%d.json' % (pid, len(reproduced)))
                json.dump(v, open(path, 'w'), indent=1, default=str)
                reproduced.append({'path': path, 'claim': v['claim'], 'inputs': v.get('config')})
        # vacuity guard: a run in which no path reaches the end of the harness (or no property assertion is
        # discharged) proves nothing; shapes without a completed path are reported in the evidence
        vacuous = [r['shape'] for r in results if r['ok_paths'] == 0 and not r['violations'] and not r['bounds']
                   and not r['unsupported']]
        if not reproduced and not tot['violations'] and not tot['bounds'] and (tot['ok_paths'] == 0 or tot['requires'] == 0):
            incon.append('vacuous run: no path reached the end of the harness / no property assertion was discharged')
        if twin_ok == 0 and not twin_other and not tot['violations'] and not tot['bounds']:
            incon.append('vacuous harness: no sampled shape reaches the end of the harness (reachability twin not violated)')
        if not_reproduced:
            incon.append('encoder disagreement: %d symbolic counterexample(s) did not reproduce natively, e.g. %s'
                         % (len(not_reproduced), json.dumps(not_reproduced[0], default=str)[:400]))
        if reproduced:
            status = 1
            for r in reproduced:
                print('VIOLATION property=%s replay=%s' % (pid, r['path']))
                print('  claim: %s; inputs: %s' % (r['claim'], json.dumps(r['inputs'], default=str)[:300]))
        elif incon:
            status = 2
            print('INCONCLUSIVE property=%s: %s' % (pid, incon[0][:1000]))
        else:
            status = 0
        native.close()
        if native_rel:
            native_rel.close()
        cov = {
            'states': max(1, tot['paths']), 'transitions': max(1, tot['checks'] + tot['paths']),
            'traces_validated_against_impl': nval,
            'samples': tot['samples'][:5] or [{'note': 'no completed path'}],
            'evaluations': max(1, tot['paths']), 'distinct_nontrivial': max(tot['ok_paths'], 0),
            'rule': 'one evaluation = one feasible symbolic path (distinct path condition = distinct equivalence class of '
                    'inputs) through the MIR of the functions listed; every path is non-trivial in that it reaches all '
                    'property assertions of the harness',
            'exhaustive': status == 0 and not incon and not budget_notes and shapes_done == len(shapes),
            'engine': 'MIRSE (path-wise symbolic execution of rustc MIR, z3 %s)' % __import__('z3').get_version_string(),
            'functions_encoded': dict(sorted(tot['encoded'].items(), key=lambda kv: -kv[1])[:60]),
            'std_models_used': tot['models'], 'shapes': tot['shapes'], 'feasible_paths': tot['ok_paths'],
            'infeasible_branches_pruned': tot['pruned'], 'solver_queries': tot['checks'],
            'solver_seconds': round(tot['solver_s'], 2), 'property_assertions_discharged': tot['requires'],
            'bounds': h.BOUNDS[tier], 'outside_bounds': getattr(h, 'OUTSIDE', []),
            'model_validation_cases': nval_models, 'mir_dump_seconds': round(mir_s, 1),
            'known_findings_reported': kf_lines, 'inconclusive_reasons': incon[:5],
            'vacuity_twins': {'sampled_shapes': len(twin_shapes), 'reached_end': twin_ok},
            'shapes_without_completed_path': {'count': len(vacuous), 'examples': vacuous[:3],
                                              'note': 'every path of these shapes violates a harness precondition (assume)'},
            'non_reproducing_counterexamples': len(not_reproduced), 'log': log,
            'budget': {'seconds': budget, 'shapes_total': len(shapes), 'shapes_completed': shapes_done,
                       'exhausted': bool(budget_notes) or shapes_done < len(shapes),
                       'note': 'thorough tier: shapes of the quick tier first, then deeper ones until the budget is used up; shapes '
                               'not completed are outside what this run explored' if tier == 'thorough' else
                               'quick tier: an exhausted budget makes the run inconclusive'},
        }
        if premise is not None:
            cov['premises'] = premise['coverage']
        ev['coverage'] = cov
        ev['violations'] = len(reproduced)
        ev['assumptions'] = getattr(h, 'ASSUMPTIONS', [])
    except Unsupported as e:
        print('INCONCLUSIVE property=%s: %s' % (pid, str(e)[:1500]))
        ev['coverage'] = {'evaluations': 1, 'distinct_nontrivial': 0, 'explanation': 'inconclusive: ' + str(e)[:500]}
        status = 2
    except Exception as e:
        print('INCONCLUSIVE property=%s: machinery error %s: %s' % (pid, type(e).__name__, str(e)[:1500]))
        traceback.print_exc()
        ev['coverage'] = {'evaluations': 1, 'distinct_nontrivial': 0, 'explanation': 'machinery error: ' + str(e)[:500]}
        status = 2
    ev['wall_s'] = round(time.time() - t0, 1)
    json.dump(ev, open(evidence_path, 'w'), indent=1, default=str)
    print('property=%s tier=%s status=%s wall=%.1fs paths=%s' % (pid, tier, {0: 'HOLDS-WITHIN-BOUNDS', 1: 'VIOLATION', 2: 'INCONCLUSIVE'}[status],
                                                                  time.time() - t0, ev['coverage'].get('states')))
    sys.exit(status)


if __name__ == '__main__':
    main()
