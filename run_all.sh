#!/bin/bash
# runs every registered quick check and prints one status line each
cd "$(dirname "$0")"
for id in $(python3-vt -c "import json; print(' '.join(c['property_id'] for c in json.load(open('MANIFEST.json'))['checks']))"); do
  ./check $id --tier ${1:-quick} 2>&1 | grep "^property=" | tail -1
done
