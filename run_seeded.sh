#!/bin/bash
# usage: run_seeded.sh <patch> <PROPERTY> [tier]   -- applies the patch to /repo, runs the check, reverts
patch=$1; prop=$2; tier=${3:-quick}
git -C /repo apply "$patch" || { echo "patch does not apply"; exit 9; }
./check $prop --tier $tier 2>&1 | grep -v "^KNOWN-FINDING" | cut -c1-400 | tail -4
rc=${PIPESTATUS[0]}
git -C /repo checkout -- .
echo "exit=$rc"
