#!/usr/bin/env python3
"""Intake of a seeded change produced by a sub-agent: confirm it (tests pass with it, demo fails with it and passes without),
run the property's check against it on a scratch worktree, and file it under seeded/<id>/.

usage: seeded_intake.py <agent-worktree> <k> <PROP> <Sxx> <slug> [--tier quick]
The agent's worktree (outside /repo and /verif) is reused for the confirmation; /repo is never touched."""
import json
import os
import re
import shutil
import subprocess
import sys

VERIF = os.path.dirname(os.path.abspath(__file__))


def sh(cmd, cwd=None, timeout=3600, env=None):
    p = subprocess.run(cmd, shell=True, cwd=cwd, stdout=subprocess.PIPE, stderr=subprocess.STDOUT, text=True, timeout=timeout,
                       env=dict(os.environ, CARGO_NET_OFFLINE='true', **(env or {})))
    return p.returncode, p.stdout


def main():
    wt, k, prop, sid, slug = sys.argv[1:6]
    tier = sys.argv[7] if len(sys.argv) > 7 else 'quick'
    out = os.path.join(wt, 'out')
    patch = os.path.join(out, 'mutation%s.diff' % k)
    demo = os.path.join(out, 'demo%s.rs' % k)
    notes = os.path.join(out, 'notes%s.md' % k)
    name = '%s-%s-%s' % (sid, prop, slug)
    res = {'id': name, 'property': prop}
    sh('git checkout -q -- . && rm -f tests/demo*.rs', cwd=wt)
    rc, o = sh('git apply --check %s' % patch, cwd=wt)
    if rc != 0:
        print('PATCH DOES NOT APPLY', o)
        return 1
    touched = re.findall(r'^\+\+\+ b/(\S+)', open(patch).read(), re.M)
    if any(not t.startswith('src/') for t in touched):
        print('patch touches non-src files', touched)
        return 1
    os.makedirs(os.path.join(wt, 'tests'), exist_ok=True)
    # (c) demo passes without the change
    shutil.copy(demo, os.path.join(wt, 'tests', 'demo_seed.rs'))
    rc0, o0 = sh('timeout 900 cargo test --offline --test demo_seed 2>&1 | tail -15', cwd=wt)
    ok_without = 'test result: ok' in o0
    # (a)+(b) with the change
    sh('git apply %s' % patch, cwd=wt)
    rc1, o1 = sh('timeout 900 cargo test --offline --test demo_seed 2>&1 | tail -25', cwd=wt)
    fails_with = ('test result: FAILED' in o1) or ('panicked' in o1 and 'test result: ok' not in o1)
    os.remove(os.path.join(wt, 'tests', 'demo_seed.rs'))
    rc2, o2 = sh('timeout 1800 cargo test --workspace --no-fail-fast --offline 2>&1 | grep -E "^test result|FAILED|failed" | head', cwd=wt)
    m = re.findall(r'test result: (\w+)\. (\d+) passed; (\d+) failed', o2)
    passed = sum(int(x[1]) for x in m)
    failed = sum(int(x[2]) for x in m)
    sh('git checkout -q -- . && rm -f tests/demo*.rs', cwd=wt)
    res['confirmed'] = {'lib_tests_with_change': '%d passed, %d failed' % (passed, failed),
                        'demo_with_change': 'fails' if fails_with else 'DOES NOT FAIL',
                        'demo_without_change': 'passes' if ok_without else 'DOES NOT PASS',
                        'how': 'seeded_intake.py in the scratch worktree %s: cargo test --offline --test demo_seed without / with the patch, '
                               'cargo test --workspace --no-fail-fast --offline with the patch' % wt}
    good = ok_without and fails_with and passed >= 41 and failed == 0
    print(name, 'confirmed' if good else 'NOT CONFIRMED', res['confirmed'])
    if not good:
        print(o0[-600:], '\n----\n', o1[-900:], '\n----\n', o2[-600:])
        return 2
    # run the check on a scratch worktree of /repo
    env = {'VERIF_SEED_WT': '/var/tmp/verif-scratch/seed-wt-%s' % prop}
    rc3, o3 = sh('./run_seeded_wt.sh %s %s %s' % (patch, prop, tier), cwd=VERIF, env=env, timeout=7200)
    m = re.search(r'exit=(\d+)', o3)
    ex = int(m.group(1)) if m else -1
    verdict = {0: 'missed (exit 0)', 1: 'VIOLATION', 2: 'INCONCLUSIVE (exit 2)'}.get(ex, 'error %d' % ex)
    print(name, 'check:', verdict)
    print(o3[-700:])
    d = os.path.join(VERIF, 'seeded', name)
    os.makedirs(d, exist_ok=True)
    shutil.copy(patch, os.path.join(d, 'patch.diff'))
    shutil.copy(demo, os.path.join(d, 'demo.rs'))
    if os.path.exists(notes):
        shutil.copy(notes, os.path.join(d, 'notes.md'))
    res['change'] = ''
    res['needs_to_manifest'] = ''
    res['first_run'] = verdict + ': ' + ' | '.join(l.strip() for l in o3.strip().split('\n')[-4:-1])[:600]
    res['check_result'] = res['first_run']
    res['check_cmd'] = './run_seeded_wt.sh seeded/%s/patch.diff %s' % (name, prop)
    json.dump(res, open(os.path.join(d, 'meta.json'), 'w'), indent=1)
    return 0


if __name__ == '__main__':
    sys.exit(main())
