#!/bin/bash
# Build everything the checks need from files on disk (offline): dependency artefacts for the MIR dump and
# the native replay binaries.  The checks themselves rebuild MIR / replay binaries whenever /repo changes.
set -e
cd "$(dirname "$0")"
export CARGO_NET_OFFLINE=true
python3-vt mirse/build.py all
